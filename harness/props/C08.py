"""C08 - comparisons are coherent: order follows the physical amount, equality is total.

Decided by: Barril/Props/C08.lean over the model Barril/Model/Cmp.lean:
  * `Sc.order` / `FSc.order` = `Scalar` / `FractionScalar.__lt__ .. __ge__` through `_GetValuesToCompare`,
    `Quantity.ConvertScalarValue` (proved equal to C01's `Db.convert`) and `ConvertFractionValue`;
  * `pyEq` / `pyNe` / `pyHash` = `==`, `!=`, `hash` of the nine value classes and the builtins they meet, each
    `__eq__` written after the Python with partial attribute reads (a read of a missing attribute is an error
    value), inside an explicit model of CPython's `do_richcompare` (reflected method first for a proper
    subclass, NotImplemented, identity fallback);
  * `fractionOrder` = `Fraction.__lt__` + `functools.total_ordering`, `fractionOfNumber` = `Fraction(number)`.
  * `Session` = a pool of objects with identities and the `Quantity._hash` memo; `StirOp` = what is done with pooled
    objects before they are compared (hashing, + - * /, comparisons, conversions, copies, pickling).  Theorems
    `stir_keeps_pool`, `stir_invisible_eq/_hash`, `stirred_*`: the verdicts of `==`, `!=`, `hash` after ANY history
    are those of the descriptors the objects were created with.
  * `OSession` = a pool of ordered operands (Scalars / FractionScalars), `OStirOp` = what is done with them before an
    order operator is asked (float(), str/repr/GetFormatted, GetValue(unit), comparisons in either operand order, ==,
    hash, arithmetic, copies that join the pool).  Theorems `stir_invisible_order`, `stirred_order_of_descriptors`,
    `stirred_copy_orders_as_original`, `stirred_scalar_order_iff_base`, `stirred_scalar_coherent`,
    `stirred_fscalar_order_iff_base_partial`, `stirred_order_cross_type_error`: the verdict of every order operator
    after ANY history is the verdict on fresh objects, a function of the two descriptors only.
Tie: (a) order of Scalars and FractionScalars on unit pairs of seeded quantity types, (b) `==`, `!=`,
`hash` on ALL ordered pairs of a pool of objects of every class, (c) Fraction order against numbers/builtins and
the decimal-shifting loop of `Fraction(number)`, (d) the stir: a second pool (derived quantities holding one
quantity type two or three times in different units and categories, their one-unit look-alikes, value objects on
them) is hashed / used as dict keys, then used as left and right operands of + - * / (same, other quantities, numbers;
failures are fine), compared, converted, printed, rebuilt, copied and pickled; then `==`, `!=`, `hash` on all
ordered pairs, the model answering from the descriptors taken at creation, (e) the explicit call of the abstract
base's `__hash__`.

Known limit of the CODE (not of the check): `ConvertFractionValue` stores the converted numerator through
`Fraction(number)`, which keeps it only up to SMALL=1e-8; `fscalar_order_iff_base_partial` carries that hypothesis
and `fscalar_order_counterexample` is the witness (1e-9 m against 0 3/1 nm).  `matches_known`/`replay_finding`
recognise exactly that input class (matcher class CLASS_FLUSH) if it is registered in known_findings.json."""
import math
from collections import OrderedDict
from fractions import Fraction as F

import translate
from common import EPS, K, close, err_kind, exact, qparse, qstr, sym

ID = "C08"
LEAN_MODULES = ["Barril.Props.C08"]
DRIVERS = ["drv_cmp"]
DRIVER_EXE = "drv_cmp"
RULE = ("(a0) cross-type order: every ordered pair of operands {Scalar, FractionScalar} x {table units of different "
        "quantity types, the <unknown> unit (quantity type Unknown) without/with a caption, the empty quantity} x two "
        "values, all four operators (TypeError iff the quantity types differ; mixed Scalar/FractionScalar pairs "
        "included); (a) order: every ordered unit pair (ua,ub) of a seeded set of quantity types of the posc database (always "
        "temperature and pressure, i.e. affine and gauge units), Scalar and FractionScalar, b's amount physically equal "
        "to / 1e-9 beside / far from a's, all six operators, plus cross-type pairs (TypeError); (b) equality: ALL ordered "
        "pairs of a pool with >=3 objects of every class (simple, derived, empty and unknown quantities; list/tuple/ndarray "
        "containers of equal and different lengths; FixedArray vs Array; Curve; UnitSystem; Fraction/FractionValue; "
        "quantities and value objects whose quantity carries a caption absent / 'x' / 'y' on a KNOWN unit, simple and derived) plus "
        "None, str, int, float, tuple, list: ==, !=, hash; (c) Fraction <,<=,>,>= against Fractions, numbers and builtins on "
        "both sides, and Fraction(number); (d) stir: a pool on 'length' and seeded quantity types with >=2 categories and >=2 "
        "units: per type 14 quantities (the type twice/three times in different units and categories, swapped, a ratio, "
        "squared, through CreateDerived, the constructor, with a caption, one-unit look-alikes, simple ones) with "
        "Scalars (two values), Arrays (list/tuple/ndarray), FixedArrays, FractionScalars, a Curve on them, plus numbers, "
        "None, str, FractionValue, Fraction; history: hash + dict key of every object, then all ordered pairs of a type's "
        "objects (and numbers) under + - * /, seeded cross-type pairs, ==/!=/</>=, GetValue/ConvertScalarValue/"
        "CreateCopy(unit), str/repr, every recipe built again, pickle round trip, deepcopy/CreateCopy, kept results; "
        "then ==, !=, hash on ALL ordered pairs of the grown pool; (d2) order after histories: per plan one quantity type "
        "('length' several times, temperature, pressure, seeded others), up to 4 of its units within a factor 1e4, six "
        "Scalars/FractionScalars (non-zero fraction parts, amounts >= 2 % apart, cross-unit), an identically built twin, "
        "one operand of another quantity type; a random history of float()/GetAbstractValue/copy of the value, str/repr/"
        "GetFormatted, GetValue(unit)/CreateCopy(unit), <,<=,>,>= in either operand order, ==/!=/AlmostEqual, hash, "
        "+ - * /, and copies (copy, deepcopy, CreateCopy, pickle for Scalars) that join the pool; every comparison of "
        "the history and then <,<=,>,>= on ALL ordered pairs of the grown pool (asked one after the other, so every pair "
        "also after its mirror image) are compared with the model's verdicts on the recipes' descriptors; (e) AbstractValueWithQuantityObject.__hash__(o) for "
        "every pooled object.  distinct = distinct model line; non-trivial = two different objects at least "
        "one of which is a barril object / two different units with a successful comparison")
EXHAUSTIVE = {"quick": False, "thorough": False}
ASSUMPTIONS = [
    "float comparisons agree with the exact model except on near ties (|v1-v2| <= K*eps*M): checked on every run, not proved",
    "Python's operator dispatch (do_richcompare), functools.total_ordering and tuple/dict/str equality are modelled by hand; "
    "the model of them is validated only by the correspondence",
    "finite values only (NaN/inf are outside the model); one-dimensional containers",
    "the loop of Fraction(number) is modelled in exact arithmetic with the float fact 'doubles >= 2**52 are integral'; "
    "FractionScalar order theorems assume the converted numerator passes that loop unchanged (FSc.NumeratorKept); "
    "without it the code itself is incoherent (theorem fscalar_order_counterexample)",
    "int and float are one model class `num` (their mixed comparisons are exact in CPython)",
    "order after histories: the descriptor of a pooled operand is its recipe (checked against the real object after "
    "the history and after the comparisons; a copy: against its original's); that reads, shows, conversions, "
    "comparisons and copies leave nothing behind that an order operator reads is the model's statement (OSession.step), "
    "tied to the code by the correspondence only; verdicts on amounts within K*eps*M of each other are not compared "
    "(identically built operands are: their tie is exact)",
    "stir: object identities (id(o), id(o._quantity)) are observed on the real objects and given to the model; the "
    "descriptor of a pooled object is read from the real object when it is created (before the history); that + - * /, "
    "conversions, copies and pickling leave the operands' descriptors alone is the model's statement (StirOp, "
    "stir_keeps_pool), tied to the code by the correspondence only",
]
CLASS_FLUSH = "fractionscalar-converted-numerator-altered-by-Fraction(number)"
OPS = ("lt", "le", "gt", "ge")
PYOP = {"lt": lambda a, b: a < b, "le": lambda a, b: a <= b, "gt": lambda a, b: a > b, "ge": lambda a, b: a >= b}


# ---------------------------------------------------------------------------------------------- plumbing
class _Use:
    """run with the private database as the singleton"""

    def __init__(self, db):
        self.db = db

    def __enter__(self):
        from barril.units.unit_database import UnitDatabase

        UnitDatabase.PushSingleton(self.db)

    def __exit__(self, *a):
        from barril.units.unit_database import UnitDatabase

        UnitDatabase.PopSingleton()


def _res(f):
    """a comparison result in canonical form; never raises"""
    try:
        r = f()
    except Exception as e:
        return dict(err=err_kind(e), exc=type(e).__name__)
    if isinstance(r, bool):
        return r
    try:
        import numpy

        if isinstance(r, numpy.bool_):
            return bool(r)
    except Exception:
        pass
    return dict(err="other", exc="non-bool result %r" % (type(r).__name__,))


def _hash(o):
    try:
        return ("ok", hash(o))
    except Exception as e:
        return (err_kind(e), None)


def _small():
    import barril.basic.fraction._fraction as fr

    return qstr(exact(fr.SMALL))


# ---------------------------------------------------------------------------------------------- encoding objects
def _enc_qty(q):
    entries = []
    for cat, ue in q._category_to_unit_and_exps.items():
        unit, exp = ue[0], ue[1]
        if not isinstance(exp, int) or isinstance(exp, bool):
            raise ValueError("non-int exponent %r" % (exp,))
        entries.append(dict(cat=str(sym(cat)), unit=str(sym(unit)), exp=exp, tup=isinstance(ue, tuple)))
    return dict(entries=entries, caption=str(sym(q._unknown_unit_caption or "")), unit=str(sym(q._unit)))


def _enc_frac(fr):
    return "%d/%d" % (fr.numerator, fr.denominator)


def _enc_fval(v):
    return dict(number=qstr(exact(v._number)), frac=_enc_frac(v._fraction))


def _enc_arr(a):
    import numpy
    from barril.units import FixedArray

    v = a._value
    kind = "ndarray" if isinstance(v, numpy.ndarray) else "tuple" if isinstance(v, tuple) else "list"
    if isinstance(v, numpy.ndarray) and v.ndim != 1:
        raise ValueError("only one-dimensional containers")
    d = dict(c="array", values=[qstr(exact(float(x) if not isinstance(x, int) else x)) for x in v], kind=kind,
             q=_enc_qty(a._quantity))
    if type(a) is FixedArray:
        d.update(c="fixedarray", dim=a._dimension)
    return d


def enc(o):
    """a real object as the JSON term of the model's `Obj`"""
    from barril.basic.fraction import Fraction, FractionValue
    from barril.curve.curve import Curve
    from barril.units import Array, FixedArray, FractionScalar, Quantity, Scalar
    from barril.units.unit_system import UnitSystem

    t = type(o)
    if t is Quantity:
        return dict(c="quantity", q=_enc_qty(o))
    if t is Scalar:
        return dict(c="scalar", value=qstr(exact(o._value)), q=_enc_qty(o._quantity))
    if t is Array or t is FixedArray:
        return _enc_arr(o)
    if t is FractionScalar:
        d = _enc_fval(o._value)
        d.update(c="fscalar", q=_enc_qty(o._quantity))
        return d
    if t is FractionValue:
        d = _enc_fval(o)
        d.update(c="fvalue")
        return d
    if t is Fraction:
        return dict(c="fraction", x=_enc_frac(o))
    if t is Curve:
        return dict(c="curve", image=_enc_arr(o.GetImage()), domain=_enc_arr(o.GetDomain()))
    if t is UnitSystem:
        return dict(c="usys", id=None if o._id is None else str(sym(o._id)), caption=str(sym(o._caption)),
                    mapping=[[str(sym(k)), str(sym(v))] for k, v in sorted(o._units_mapping.items())],
                    read_only=bool(o._read_only))
    if o is None:
        return dict(c="none")
    if t is str:
        return dict(c="str", s=str(sym(o)))
    if t in (int, float):
        return dict(c="num", q=qstr(exact(o)))
    if t is tuple:
        return dict(c="tuple", xs=[qstr(exact(x)) for x in o])
    if t is list:
        return dict(c="list", xs=[qstr(exact(x)) for x in o])
    raise ValueError("no encoding for %r" % (t,))


# ---------------------------------------------------------------------------------------------- the pool
def build_pool(db, seed, wide):
    """>= 3 objects of every class; deterministic in (seed, wide).  Must be called with db as the singleton."""
    import random

    import numpy as np
    from barril.basic.fraction import Fraction, FractionValue
    from barril.curve.curve import Curve
    from barril.units import (Array, FixedArray, FractionScalar, GetUnknownQuantity, ObtainQuantity, Quantity,
                              Scalar)
    from barril.units.unit_system import UnitSystem

    rng = random.Random("C08pool/%d/%s" % (seed, wide))
    m_s = (Scalar(1, "m") * Scalar(1, "s")).GetQuantity()
    m_per_s = (Scalar(1, "m") / Scalar(1, "s")).GetQuantity()
    empty = Quantity.CreateEmpty()
    unk = GetUnknownQuantity("foo")
    q_list = Quantity(OrderedDict([("length", ["m", 1]), ("time", ["s", -2])]), None)
    q_tuple = Quantity(OrderedDict([("length", ("m", 1)), ("time", ("s", -2))]), None)
    q_single = Quantity(OrderedDict([("length", ["m", 1])]), None)
    # a caption on a KNOWN unit (absent / 'x' / 'y'), simple and derived: `==` and `hash` must treat it alike
    m_x, m_y = ObtainQuantity("m", "length", "x"), ObtainQuantity("m", "length", "y")
    m_x_direct = Quantity("length", "m", "x")  # the constructor, not the cache
    degc_x = ObtainQuantity("degC", "temperature", "x")
    acc = OrderedDict([("length", ["m", 1]), ("time", ["s", -2])])
    acc_plain = Quantity.CreateDerived(acc)
    acc_x = Quantity.CreateDerived(acc, unknown_unit_caption="x")
    acc_y = Quantity.CreateDerived(acc, unknown_unit_caption="y")
    captioned = [m_x, m_y, m_x_direct, degc_x, acc_plain, acc_x, acc_y]
    for q in (m_x, m_y, acc_plain, acc_x, acc_y):
        captioned += [Scalar(q, 1.0), Scalar(q, 0.0)]
    captioned += [Scalar(degc_x, 2.5), Scalar(m_x_direct, 1.0)]
    for q in (m_x, m_y, acc_x):
        captioned += [Array(q, [1.0, 2.0]), FixedArray(2, q, [1.0, 2.0]), FractionScalar(q, FractionValue(1, (1, 2)))]
    captioned += [Array(acc_plain, [1.0, 2.0]), FixedArray(2, acc_plain, [1.0, 2.0]),
                  Curve(Array(m_x, [1.0, 2.0]), Array([0.0, 1.0], "s"))]
    pool = captioned + [
        # Quantity
        ObtainQuantity("m"), ObtainQuantity("m", "depth"), ObtainQuantity("cm"), m_s, m_per_s, empty, unk,
        GetUnknownQuantity("bar"), GetUnknownQuantity(), q_list, q_tuple, q_single, ObtainQuantity("degC"),
        # Scalar
        Scalar(1, "m"), Scalar(1.0, "m"), Scalar(1, "m", "depth"), Scalar(100, "cm"), Scalar(1, "m") * Scalar(1, "s"),
        Scalar(q_list, 1.0), Scalar(q_tuple, 1.0), Scalar.CreateEmptyScalar(1.0), Scalar(unk, 1.0),
        Scalar(GetUnknownQuantity("bar"), 1.0), Scalar(0.0, "m"), Scalar(-0.0, "m"), Scalar(2.5, "degC"),
        Scalar(q_single, 1.0),
        # Array
        Array([1.0, 2.0], "m"), Array((1.0, 2.0), "m"), Array(np.array([1.0, 2.0]), "m"), Array([1, 2], "m"),
        Array([1.0], "m"), Array([], "m"), Array((), "m"), Array(np.array([]), "m"), Array([1.0, 2.0], "cm"),
        Array([1.0, 2.0], "m", "depth"), Array.CreateEmptyArray([1.0, 2.0]), Array(unk, [1.0, 2.0]),
        Array([1.0, 2.0], "m") * Array([1.0, 1.0], "s"), Array(m_s, [1.0, 2.0]), Array([1.0, 2.0, 3.0], "m"),
        Array(np.array([1.0, 2.0, 3.0]), "m"), Array([2.0, 1.0], "m"),
        # FixedArray
        FixedArray(2, [1.0, 2.0], "m"), FixedArray(2, (1.0, 2.0), "m"), FixedArray(2, np.array([1.0, 2.0]), "m"),
        FixedArray(3, [1.0, 2.0, 3.0], "m"), FixedArray(3, np.array([1.0, 2.0, 3.0]), "m"),
        FixedArray.CreateEmptyArray(2), FixedArray.CreateEmptyArray(2, [1.0, 2.0]), FixedArray(2, unk, [1.0, 2.0]),
        FixedArray(2, m_s, [1.0, 2.0]), FixedArray(2, [1.0, 2.0], "cm"), FixedArray(2, "depth", [1.0, 2.0], "m"),
        # FractionScalar
        FractionScalar(1.0, "m"), FractionScalar(FractionValue(1, (1, 2)), "m"), FractionScalar(100.0, "cm"),
        FractionScalar(FractionValue(1, Fraction(2, 4)), "m"), FractionScalar(FractionValue(1.5), "m"),
        FractionScalar(m_s, 1.0), FractionScalar(empty, FractionValue(1, (1, 2))), FractionScalar(unk, 1.0),
        FractionScalar(FractionValue(1, (1, 2)), "m", "depth"),
        # FractionValue
        FractionValue(1, (1, 2)), FractionValue(1.0, Fraction(2, 4)), FractionValue(1.5), FractionValue(0, (3, 2)),
        FractionValue(), FractionValue(0.5),
        # Fraction
        Fraction(1, 2), Fraction(2, 4), Fraction(3, 1), Fraction(0.5), Fraction(1, 1), Fraction(-1, 3), Fraction(1, 10),
        # Curve
        Curve(Array([1.0, 2.0], "m"), Array([0.0, 1.0], "s")), Curve(Array((1.0, 2.0), "m"), Array([0.0, 1.0], "s")),
        Curve(Array([1.0], "m"), Array([0.0], "s")), Curve(Array([1.0, 2.0], "m"), Array([0.0, 2.0], "s")),
        Curve(FixedArray(2, [1.0, 2.0], "m"), Array([0.0, 1.0], "s")),
        Curve(FixedArray(2, [1.0, 2.0], "m"), FixedArray(2, [0.0, 1.0], "s")),
        Curve(Array([], "m"), Array([], "s")), Curve(Array(np.array([1.0, 2.0]), "m"), Array(np.array([0.0, 1.0]), "s")),
        Curve(Array([1.0, 2.0], "cm"), Array([0.0, 1.0], "s")),
        # UnitSystem
        UnitSystem("a", "A", {"length": "m"}), UnitSystem("a", "A", {"length": "m"}), UnitSystem("b", "B", {}),
        UnitSystem(None, "A", {"length": "m"}), UnitSystem("a", "A", {"length": "m"}, True),
        UnitSystem("a", "A", OrderedDict([("length", "m"), ("time", "s")])),
        UnitSystem("a", "A", OrderedDict([("time", "s"), ("length", "m")])), UnitSystem("a", "A", {"length": "cm"}),
        UnitSystem("", "A", {"length": "m"}),
        # unrelated objects
        None, "a", "m", "length", "", 1, 3, 0, 0.5, 1.0, 0.1, (), (1.0, 2.0), [1.0, 2.0], [],
    ]
    # seeded part: other units, values and lengths
    qts = sorted(db.quantity_types)
    for _ in range(12 if wide else 4):
        qt = rng.choice(qts)
        units = [i.unit for i in db.quantity_types[qt]]
        u, v = rng.choice(units), rng.choice(units)
        x = round(rng.uniform(-50, 50), rng.choice((0, 1, 3)))
        n = rng.choice((0, 1, 2, 3, 4))
        vals = [round(rng.uniform(-9, 9), 1) for _ in range(n)]
        try:
            extra = [Scalar(x, u), Scalar(x, v), Array(list(vals), u), Array(tuple(vals), u), Array(np.array(vals), v),
                     FractionScalar(FractionValue(x, (rng.randint(0, 7), rng.choice((2, 4, 8)))), u),
                     (Scalar(x, u) * Scalar(1.0, v)).GetQuantity(), ObtainQuantity(u), ObtainQuantity(v)]
            if n >= 2:
                extra += [FixedArray(n, list(vals), u), FixedArray(n, np.array(vals), u),
                          Curve(Array(list(vals), u), FixedArray(n, tuple(vals), v))]
            pool += extra
        except Exception:
            continue
    for _ in range(6 if wide else 2):
        a, b = rng.randint(-9, 9), rng.choice((1, 2, 3, 4, 8, 10))
        pool += [Fraction(a, b), FractionValue(rng.randint(0, 3), (a, b)), a, a / b]
    return pool


def _cls(term):
    return term["c"]


# ---------------------------------------------------------------------------------------------- the stir
# Comparisons are rarely the first thing that happens to an object.  A *plan* (JSON-able, deterministic in the seed)
# builds a pool from recipes, hashes every object / uses it as a dict key, uses the objects as left and right
# operands of + - * / (same and different quantities; failures are fine), compares, converts, prints them, then builds
# every recipe again and copies / pickles the stirred objects.  Afterwards ==, != and hash are asked on all ordered
# pairs.  The model gets the descriptors the objects had WHEN THEY WERE CREATED, their identities and the history;
# its verdicts do not depend on the history (theorems stir_*), so any effect of the history is a disagreement.
ERRCH = {"units": "u", "type": "t", "value": "v", "readonly": "r", "key": "k", "index": "i", "assertion": "a",
         "runtime": "n", "other": "o", "validation": "d"}


def _rle(codes):
    """'TFhh1TFhh1FThh0' -> 'TFhh1*2,FThh0' (five characters per pair: ==, !=, hash a, hash b, hashes equal)"""
    out, last, n = [], None, 0
    for k in range(0, len(codes), 5):
        g = codes[k:k + 5]
        if g == last:
            n += 1
        else:
            if last is not None:
                out.append(last if n == 1 else "%s*%d" % (last, n))
            last, n = g, 1
    if last is not None:
        out.append(last if n == 1 else "%s*%d" % (last, n))
    return ",".join(out)


def _unrle(text):
    out = []
    for g in text.split(",") if text else []:
        code, _, n = g.partition("*")
        out.append(code * (int(n) if n else 1))
    return "".join(out)


def _q_of(r):
    """the Quantity of a quantity recipe"""
    from barril.units import ObtainQuantity, Quantity

    k = r[0]
    if k == "qs":
        return ObtainQuantity(r[1], r[2]) if r[3] is None else ObtainQuantity(r[1], r[2], r[3])
    od = OrderedDict((c, [u, e]) for c, u, e in r[1])
    if k == "q":
        return ObtainQuantity(od) if r[2] is None else ObtainQuantity(od, None, r[2])
    if k == "qd":
        return Quantity.CreateDerived(od) if r[2] is None else Quantity.CreateDerived(od, unknown_unit_caption=r[2])
    if k == "qnew":  # the constructor, not the cache
        return Quantity(od, None, r[2])
    raise ValueError("no quantity recipe %r" % (k,))


def _container(kind, vals):
    import numpy as np

    vals = [_unnum(v) for v in vals]
    return {"list": list, "tuple": tuple, "ndarray": np.array}[kind](vals)


def _build(r):
    """the real object of a recipe (the private database must be the singleton)"""
    from barril.basic.fraction import Fraction, FractionValue
    from barril.curve.curve import Curve
    from barril.units import Array, FixedArray, FractionScalar, Scalar

    k = r[0]
    if k in ("q", "qs", "qd", "qnew"):
        return _q_of(r)
    if k == "scalar":
        return Scalar(_q_of(r[1]), _unnum(r[2]))
    if k == "array":
        return Array(_q_of(r[1]), _container(r[3], r[2]))
    if k == "fixedarray":
        return FixedArray(len(r[2]), _q_of(r[1]), _container(r[3], r[2]))
    if k == "fscalar":
        return FractionScalar(_q_of(r[1]), FractionValue(_unnum(r[2]), (r[3], r[4])))
    if k == "fvalue":
        return FractionValue(_unnum(r[1]), (r[2], r[3]))
    if k == "fraction":
        return Fraction(r[1], r[2])
    if k == "curve":
        return Curve(_build(r[1]), _build(r[2]))
    if k == "py":
        return _untnum(r[1])
    raise ValueError("no recipe %r" % (k,))


def _show_recipe(r):
    k = r[0]
    if k == "qs":
        return "ObtainQuantity(%r, %r%s)" % (r[1], r[2], "" if r[3] is None else ", %r" % r[3])
    if k in ("q", "qd", "qnew"):
        od = "OrderedDict([%s])" % ", ".join("(%r, [%r, %r])" % (c, u, e) for c, u, e in r[1])
        cap = "" if r[2] is None else ", %r" % r[2]
        return {"q": "ObtainQuantity(%s%s)" % (od, ", None" + cap if cap else ""),
                "qd": "Quantity.CreateDerived(%s%s)" % (od, cap.replace(", ", ", unknown_unit_caption=")),
                "qnew": "Quantity(%s, None%s)" % (od, cap)}[k]
    if k == "scalar":
        return "Scalar(%s, %r)" % (_show_recipe(r[1]), _unnum(r[2]))
    if k in ("array", "fixedarray"):
        vals = [_unnum(v) for v in r[2]]
        c = {"list": "%r" % (vals,), "tuple": "%r" % (tuple(vals),), "ndarray": "numpy.array(%r)" % (vals,)}[r[3]]
        return "Array(%s, %s)" % (_show_recipe(r[1]), c) if k == "array" else \
            "FixedArray(%d, %s, %s)" % (len(vals), _show_recipe(r[1]), c)
    if k == "fscalar":
        return "FractionScalar(%s, FractionValue(%r, (%r, %r)))" % (_show_recipe(r[1]), _unnum(r[2]), r[3], r[4])
    if k == "fvalue":
        return "FractionValue(%r, (%r, %r))" % (_unnum(r[1]), r[2], r[3])
    if k == "fraction":
        return "Fraction(%r, %r)" % (r[1], r[2])
    if k == "curve":
        return "Curve(%s, %s)" % (_show_recipe(r[1]), _show_recipe(r[2]))
    return repr(_untnum(r[1]))


ARITH = {"add": lambda a, b: a + b, "sub": lambda a, b: a - b, "mul": lambda a, b: a * b, "div": lambda a, b: a / b}
ARITH_SIGN = {"add": "+", "sub": "-", "mul": "*", "div": "/"}
GROW = ("fresh", "pickle", "deepcopy", "copy")


def _show_step(st):
    k, a, b = st["k"], st["a"], st.get("b")
    if k == "hash":
        return "hash(%s); {%s: 0}" % (a, a)
    if k in ARITH:
        return "%s%s %s %s" % ("g%d = " % st["id"] if st.get("keep") else "", a, ARITH_SIGN[k], b)
    if k == "cmp":
        return "%s == %s; %s != %s; %s < %s; %s >= %s" % (a, b, a, b, a, b, a, b)
    if k == "conv":
        return "%s.GetValue(%r) / ConvertScalarValue(1.0, %r); %s.CreateCopy(unit=%r)" % (a, st["x"], st["x"], a, st["x"])
    if k == "str":
        return "str(%s); repr(%s)" % (a, a)
    if k == "fresh":
        return "g%d = the recipe of %s built again" % (st["id"], a)
    if k == "pickle":
        return "g%d = pickle.loads(pickle.dumps(%s))" % (st["id"], a)
    if k == "deepcopy":
        return "g%d = copy.deepcopy(%s)" % (st["id"], a)
    return "g%d = %s.CreateCopy() (copy.copy for a Quantity)" % (st["id"], a)


def _stir_types(ctx, rng, n):
    """quantity types with several categories and several units: 'length' always, the others seeded"""
    db = ctx.db
    ok = sorted(q for q, cs in ctx.cats_of_type.items() if len(cs) >= 2 and len(db.quantity_types.get(q, ())) >= 2)
    first = [q for q in ("length",) if q in ok]
    rest = [q for q in ok if q not in first]
    rng.shuffle(rest)
    return first + rest[:n]


def _stir_recipes_of_type(ctx, rng, qt):
    """recipes on one quantity type: derived quantities that hold the type twice or three times, in different units
    and different categories, their look-alikes in one unit, a mixed one, simple ones; value objects on them"""
    db = ctx.db
    cats = sorted(ctx.cats_of_type[qt])
    named = [c for c in cats if c == qt]
    others = [c for c in cats if c != qt]
    rng.shuffle(others)
    cs = (named + others)[:3]
    units = [i.unit for i in db.quantity_types[qt]]
    us = [units[0]] + rng.sample(units[1:], min(2, len(units) - 1))
    c1, c2, c3 = cs[0], cs[1], cs[-1]
    u1, u2, u3 = us[0], us[1], us[-1]
    other_cat, other_unit = ("time", "s") if qt != "time" else ("length", "m")
    qs = [
        ["q", [[c1, u1, 1], [c2, u2, 1]], None],       # the type twice, two units           (m.cm)
        ["q", [[c1, u2, 1], [c2, u2, 1]], None],       # the same in the second unit         (cm2)
        ["q", [[c1, u1, 1], [c2, u1, 1]], None],       # the look-alike in the first unit    (m2)
        ["q", [[c1, u2, 1], [c2, u1, 1]], None],       # the units swapped                   (cm.m)
        ["q", [[c1, u1, 1], [c2, u2, -1]], None],      # a ratio of the two units
        ["q", [[c1, u1, 2], [c2, u2, 1]], None],
        ["qd", [[c2, u1, 1], [c1, u2, 1]], None],      # the categories swapped, through CreateDerived
        ["q", [[c1, u1, 1], [other_cat, other_unit, -1], [c2, u2, 1]], None],
        ["q", [[c1, u1, 1], [c2, u2, 1]], "x"],        # with a caption
        ["qnew", [[c1, u1, 1], [c2, u2, 1]], None],    # the constructor: an object of its own, not interned
        ["qs", u1, c1, None], ["qs", u2, c2, None], ["qs", u2, c1, None],
    ]
    if c3 != c2:
        qs.append(["q", [[c1, u1, 1], [c2, u2, 1], [c3, u3, 1]], None])
    two, three = _num(2.0), _num(3.0)
    vals = [_num(1.0), _num(2.0)]
    out = [list(q) for q in qs]
    out += [["scalar", q, two] for q in qs]
    out += [["scalar", q, three] for q in qs[:4]]
    out += [["array", q, vals, "list"] for q in qs[:4] + qs[10:11]]
    out += [["array", qs[0], vals, "ndarray"], ["array", qs[2], vals, "tuple"]]
    out += [["fixedarray", qs[0], vals, "list"], ["fixedarray", qs[2], vals, "ndarray"]]
    out += [["fscalar", qs[0], two, 1, 2], ["fscalar", qs[2], two, 1, 2], ["fscalar", qs[10], two, 1, 2]]
    out += [["curve", ["array", qs[0], vals, "list"], ["array", ["qs", other_unit, other_cat, None], vals, "list"]]]
    return out, (u1, u2, u3)


def make_plan(ctx, name):
    """the plan `name` = 'stir/<size>' (size = number of seeded quantity types besides length); deterministic in
    (seed, name)"""
    rng = ctx.fresh_rng("C08" + name)
    n_types = int(name.split("/")[1])
    recipes, groups, conv_units = [], [], {}
    for qt in _stir_types(ctx, rng, n_types):
        rs, us = _stir_recipes_of_type(ctx, rng, qt)
        refs = []
        for r in rs:
            ref = "o%d" % len(recipes)
            recipes.append([ref, r])
            refs.append(ref)
            conv_units[ref] = us
        groups.append(refs)
    unrelated = [["py", _tnum(2.0)], ["py", _tnum(2)], ["py", _tnum(None)], ["py", _tnum("m2")],
                 ["fvalue", _num(2.0), 1, 2], ["fvalue", _num(2.5), 0, 1], ["fraction", 1, 2], ["fraction", 2, 1]]
    urefs = []
    for r in unrelated:
        urefs.append("o%d" % len(recipes))
        recipes.append([urefs[-1], r])
    steps = []

    def step(k, a, b=None, **kw):
        steps.append(dict(kw, id=len(steps), k=k, a=a, b=b))

    allrefs = [ref for ref, _ in recipes]
    for ref in allrefs:  # hashed / used as a dict key first
        step("hash", ref)
    for refs in groups:  # every object of a type with every object of the type (and the numbers): + - * /
        for a in refs + urefs[:2]:
            for b in refs + urefs[:2]:
                keep = rng.random() < 0.02
                for k in ("add", "sub", "mul", "div"):
                    step(k, a, b, keep=keep and k in ("add", "mul"))
    for _ in range(150 * max(1, len(groups) - 1)):  # operands of different quantity types
        ga, gb = rng.sample(groups, 2) if len(groups) > 1 else (groups[0], groups[0])
        step(rng.choice(("add", "sub", "mul", "div")), rng.choice(ga), rng.choice(gb), keep=False)
    for refs in groups:
        for a in refs:
            step("cmp", a, rng.choice(refs))
            step("conv", a, x=rng.choice(conv_units[a]))
            step("str", a)
    for ref in allrefs:  # equal ones, built / copied / pickled after the stir
        step("fresh", ref)
        step("pickle", ref)
        if rng.random() < 0.3:
            step(rng.choice(("deepcopy", "copy")), ref)
    return dict(name=name, recipes=recipes, steps=steps)


def _ids(o, table):
    """allocation index of an identity"""
    return table.setdefault(id(o), len(table))


def run_plan(plan, db, record):
    """build the pool and perform the steps on the REAL code with `db` as the singleton.  Returns
    dict(objs: ref -> object, order: refs in creation order, log: [(code, ref, ref)], desc: ref -> term)"""
    import copy
    import pickle

    objs, order, log, desc, stat = {}, [], [], {}, {}
    recipe_of = dict(plan["recipes"])

    def count(k):
        stat[k] = stat.get(k, 0) + 1

    def add(ref, o):
        if record:
            try:
                desc[ref] = enc(o)
            except Exception:
                count("not_encodable")
                return
        objs[ref] = o
        order.append(ref)

    with _Use(db):
        for ref, r in plan["recipes"]:
            try:
                add(ref, _build(r))
            except Exception:
                count("recipe_rejected")
        keys = {}
        for st in plan["steps"]:
            k, a, b = st["k"], st["a"], st.get("b")
            if a not in objs or (b is not None and b not in objs):
                continue
            x, y = objs[a], objs.get(b)
            gref = "g%d" % st["id"]
            try:
                if k == "hash":
                    log.append((0, a, None))
                    hash(x)
                    keys.setdefault(x, a)
                elif k in ARITH:
                    log.append((2, a, b))
                    r = ARITH[k](x, y)
                    count("arith_ok")
                    if st.get("keep") and r is not NotImplemented:
                        add(gref, r)
                elif k == "cmp":
                    log.append((1, a, b))
                    for f in (lambda: x == y, lambda: x != y, lambda: x < y, lambda: x >= y):
                        try:
                            f()
                        except Exception:
                            count("cmp_raised")
                elif k == "conv":
                    log.append((3, a, None))
                    for f in (lambda: x.GetValue(st["x"]), lambda: x.ConvertScalarValue(1.0, st["x"]),
                              lambda: x.CreateCopy(unit=st["x"]), lambda: x.GetQuantity().GetUnitName()):
                        try:
                            f()
                        except Exception:
                            count("conv_raised")
                elif k == "str":
                    log.append((3, a, None))
                    str(x), repr(x)
                elif k == "fresh":
                    add(gref, _build(recipe_of[a]))
                elif k == "pickle":
                    log.append((3, a, None))
                    add(gref, pickle.loads(pickle.dumps(x)))
                elif k == "deepcopy":
                    log.append((3, a, None))
                    add(gref, copy.deepcopy(x))
                elif k == "copy":
                    log.append((3, a, None))
                    add(gref, x.CreateCopy() if hasattr(x, "CreateCopy") else copy.copy(x))
            except Exception:
                count("step_raised_" + ("arith" if k in ARITH else k))
    return dict(objs=objs, order=order, log=log, desc=desc, stat=stat, db=db)


def _stir_state(ctx, name):
    """the stirred pool of plan `name` on its own database (built once per run), with the model's view of it"""
    st = ctx.__dict__.setdefault("_stir", {})
    if name in st:
        return st[name]
    plan = make_plan(ctx, name)
    run = run_plan(plan, translate.build_db("posc"), True)
    order = run["order"]
    index = {ref: i for i, ref in enumerate(order)}
    oid, qid = {}, {}
    pool = []
    for ref in order:
        o = run["objs"][ref]
        q = o if type(o).__name__ == "Quantity" else getattr(o, "_quantity", None)
        pool.append(dict(t=run["desc"][ref], oid=_ids(o, oid), qid=0 if q is None else 1 + _ids(q, qid)))
    script = [[c, index[a]] if b is None else [c, index[a], index[b]] for c, a, b in run["log"]]
    st[name] = dict(plan=plan, run=run, order=order, index=index, pool=pool, script=script)
    ctx.notes["stir_" + name.replace("/", "_")] = dict(
        objects=len(order), originals=sum(1 for r in order if r[0] == "o"), history_steps=len(script),
        history=dict(sorted(run["stat"].items())),
        classes=dict(sorted(_count(d["t"]["c"] for d in pool).items())))
    return st[name]


def _count(it):
    d = {}
    for x in it:
        d[x] = d.get(x, 0) + 1
    return d


def _stir_cases(ctx, name):
    s = _stir_state(ctx, name)
    order = s["order"]
    pairs = [(a, b) for a in order for b in order]
    block = max(2500, len(pairs) // 24)
    for k in range(0, len(pairs), block):
        blk = pairs[k:k + block]
        yield dict(op="stir", small=ctx.small, pool=s["pool"], script=s["script"],
                   queries=[[s["index"][a], s["index"][b]] for a, b in blk],
                   _t=dict(plan=name, pairs=[[a, b] for a, b in blk]))


def _code(r):
    return ("T" if r else "F") if isinstance(r, bool) else ERRCH.get(r.get("err"), "o")


def _pair_code(a, b):
    ha, hb = _hash(a), _hash(b)
    heq = "-" if not (ha[0] == "ok" and hb[0] == "ok") else "1" if ha[1] == hb[1] else "0"
    return (_code(_res(lambda: a == b)) + _code(_res(lambda: a != b)) + ("h" if ha[0] == "ok" else ERRCH.get(ha[0], "o"))
            + ("h" if hb[0] == "ok" else ERRCH.get(hb[0], "o")) + heq)


def _impl_stir(c, ctx):
    t = c["_t"]
    s = _stir_state(ctx, t["plan"])
    objs, desc = s["run"]["objs"], s["run"]["desc"]
    changed = []
    for a in sorted({p[0] for p in t["pairs"]}, key=lambda r: s["index"][r]):
        try:
            now = enc(objs[a])
        except Exception as e:
            now = dict(c="?", why=repr(e)[:80])
        if now != desc[a]:
            changed.append(a)
    return dict(codes=_rle("".join(_pair_code(objs[a], objs[b]) for a, b in t["pairs"])), changed=changed)


def _resolve_plan(ctx, t):
    p = t["plan"]
    return p if isinstance(p, dict) else _stir_state(ctx, p)["plan"]


def _describe(plan, ref):
    """how the object `ref` of a plan comes about"""
    rec = dict(plan["recipes"])
    if ref in rec:
        return "%s = %s" % (ref, _show_recipe(rec[ref]))
    for st in plan["steps"]:
        if "g%d" % st["id"] == ref:
            return _show_step(st)
    return ref


def _oracle_stir(c, ctx):
    """the clauses of the property on pooled objects after the history of the plan, everything built freshly on a
    database of its own (so a replay in another process does exactly the same)"""
    t = c["_t"]
    plan = _resolve_plan(ctx, t)
    cache = ctx.__dict__.setdefault("_stir_oracle", {})
    key = plan.get("name")
    run = cache.get(key) if key else None
    if run is None:
        run = run_plan(plan, translate.build_db("posc"), False)
        if key:
            cache[key] = run
    objs = run["objs"]
    for a, b in t["pairs"]:
        if a not in objs or b not in objs:
            continue
        with _Use(run["db"]):
            f = _eq_clauses(objs[a], objs[b])
        if f:
            n = len(plan["steps"])
            out = dict(f, pair=[a, b], a=repr(objs[a])[:120], b=repr(objs[b])[:120], a_is=_describe(plan, a),
                       b_is=_describe(plan, b),
                       after=[_show_step(st) for st in plan["steps"]] if n <= 40 else
                       "the %d operations of the plan (hashing, + - * /, comparisons, conversions, copies)" % n)
            if len(plan["recipes"]) <= 12:
                out["objects"] = ["%s = %s" % (ref, _show_recipe(r)) for ref, r in plan["recipes"]]
            return out
    return None


def _explicit_case(ctx, plan, pair):
    """a self-contained stir case on an explicit plan and one pair"""
    run = run_plan(plan, translate.build_db("posc"), True)
    order = run["order"]
    index = {ref: i for i, ref in enumerate(order)}
    if pair[0] not in index or pair[1] not in index:
        return None
    oid, qid, pool = {}, {}, []
    for ref in order:
        o = run["objs"][ref]
        q = o if type(o).__name__ == "Quantity" else getattr(o, "_quantity", None)
        pool.append(dict(t=run["desc"][ref], oid=_ids(o, oid), qid=0 if q is None else 1 + _ids(q, qid)))
    script = [[k, index[a]] if b is None else [k, index[a], index[b]] for k, a, b in run["log"]]
    return dict(op="stir", small=ctx.small, pool=pool, script=script, queries=[[index[pair[0]], index[pair[1]]]],
                _t=dict(plan=plan, pairs=[list(pair)]))


def _shrink_stir(case, failure, ctx):
    """one pair, then as few steps and recipes as still fail (delta debugging over the steps, every trial on a
    fresh database; bounded by time)"""
    import time

    plan0 = _resolve_plan(ctx, case["_t"])
    pair = failure.get("pair")
    if not pair:
        return case, failure
    t0 = time.time()

    def trial(steps):
        used = {pair[0], pair[1]}
        for st in steps:
            used.add(st["a"])
            if st.get("b"):
                used.add(st["b"])
        plan = dict(recipes=[[r, x] for r, x in plan0["recipes"] if r in used], steps=steps)
        c = dict(op="stir", _t=dict(plan=plan, pairs=[list(pair)]))
        f = _oracle_stir(c, ctx)
        return (plan, f) if f and f.get("clause") == failure.get("clause") else None

    steps = list(plan0["steps"])
    best = trial(steps)
    if best is None:
        return case, failure
    n = 2
    while len(steps) >= 1 and time.time() - t0 < 45:
        size = max(1, len(steps) // n)
        reduced = False
        for k in range(0, len(steps), size):
            cand = steps[:k] + steps[k + size:]
            r = trial(cand)
            if r is not None:
                steps, best, reduced = cand, r, True
                n = max(n - 1, 2)
                break
            if time.time() - t0 > 45:
                break
        if not reduced:
            if size == 1:
                break
            n = min(len(steps), n * 2)
    plan, f = best
    out = _explicit_case(ctx, plan, pair)
    return (out, f) if out is not None else (case, failure)


# ---------------------------------------------------------------------------------------------- order after histories
# The order operators are rarely asked of fresh objects either.  An *order plan* (JSON-able, self-contained) holds
# recipes of Scalars and FractionScalars of one quantity type in several table units (fraction parts non-zero,
# physical amounts apart, one identically built twin, one operand of another quantity type) and a random history:
# float() / str() / repr() / GetFormatted / GetValue(unit) / CreateCopy(unit) of an operand, comparisons in either
# operand order, ==, hash, arithmetic, and copies (copy.copy, deepcopy, CreateCopy(), pickle) that join the pool.
# Then <, <=, >, >= are asked on ALL ordered pairs of the grown pool, one after the other (so every pair is also
# asked after the mirrored pair).  The model answers every comparison - those of the history too - from the
# descriptors of the recipes (theorems stir_invisible_order, stirred_order_of_descriptors,
# stirred_copy_orders_as_original): any trace an operation leaves in an operand is a disagreement.
OCOPY = ("copy", "deepcopy", "createcopy", "pickle")
OPCODE = {"lt": 0, "le": 1, "gt": 2, "ge": 3}
OFRACS = ((1, 2), (3, 4), (5, 8), (1, 3), (7, 16), (2, 3), (1, 4), (3, 8))
OTOL = qstr(K * F(EPS))


def _oside(o):
    """the model's term of an operand recipe"""
    d = dict(cls=o["cls"], q=dict(k="empty") if o["k"] == "empty" else
             dict(k="simple", cat=str(sym(o["cat"])), unit=str(sym(o["unit"]))))
    if o["cls"] == "scalar":
        d["value"] = qstr(exact(o["v"]))
    else:
        n, num, den = o["v"]
        fr = F(num, den)
        d.update(number=qstr(exact(n)), frac="%d/%d" % (fr.numerator, fr.denominator))
    return d


def _odesc(x):
    """the same term read from a real Scalar / FractionScalar (with a simple quantity)"""
    q = x._quantity
    d = dict(cls="scalar" if type(x).__name__ == "Scalar" else "fscalar",
             q=dict(k="simple", cat=str(sym(q.GetCategory())), unit=str(sym(q.GetUnit()))))
    if d["cls"] == "scalar":
        d["value"] = qstr(exact(x._value))
    else:
        d.update(number=qstr(exact(x._value._number)), frac=_enc_frac(x._value._fraction))
    return d


def _ounits(ctx, rng, qt, n):
    """units of the quantity type within a factor 1e4 of the first chosen one (so that a converted numerator is far
    from SMALL, the input class of the known finding CLASS_FLUSH)"""
    db = ctx.db
    units = [i.unit for i in db.quantity_types[qt]]
    if qt == "length":
        first = [u for u in ("in", "cm", "ft", "m") if u in units]
        rest = [u for u in units if u not in first]
        rng.shuffle(rest)
        units = first + rest
    else:
        rng.shuffle(units)
    out = []
    for u in units:
        try:
            f = abs(db.Convert(qt, u, units[0], 1.0) - db.Convert(qt, u, units[0], 0.0))
        except Exception:
            continue
        if math.isfinite(f) and 1e-4 <= f <= 1e4:
            out.append(u)
        if len(out) == n:
            break
    return out


def _onumerator_kept(ctx, o, units):
    """the numerator of the FractionScalar recipe, converted to every unit of the plan, passes Fraction(number)
    within 1e-9 (the oracle's tolerance is 1e-7)"""
    from barril.basic.fraction import Fraction
    from barril.units import ObtainQuantity

    num = F(o["v"][1], o["v"][2]).numerator
    try:
        with _Use(ctx.db):
            q = ObtainQuantity(o["unit"], o["cat"])
            for u in units:
                if u == o["unit"]:
                    continue
                x = q.ConvertScalarValue(num, u) - q.ConvertScalarValue(0.0, u)
                y = float(Fraction(x)) if isinstance(x, float) else float(x)
                if not abs(y - x) <= 1e-9 * abs(x) or x == 0:
                    return False
    except Exception:
        return False
    return True


def make_oplan(ctx, rng, qt, n_steps):
    """an order plan on the quantity type `qt`; None if the type has no two usable units"""
    db = ctx.db
    units = _ounits(ctx, rng, qt, 4)
    if len(units) < 2:
        return None
    u0 = units[0]
    x0 = round(rng.uniform(2.0, 60.0), 2)
    classes = ["fscalar", "fscalar", "fscalar", "scalar", "scalar", "fscalar"]
    rng.shuffle(classes)
    operands = []
    for k, cls in enumerate(classes):
        u = units[k % len(units)]
        cat = _cat_for(ctx, rng, qt, u)
        if cat is None:
            continue
        amount = x0 * (1.0 + 0.07 * (k - 2.5) * rng.choice((1.0, 1.3)))  # in u0; apart by >= 2 % of x0
        try:
            val = float(db.Convert(qt, u0, u, amount))
        except Exception:
            continue
        if not math.isfinite(val):
            continue
        val = float("%.6g" % val)
        o = dict(k="simple", unit=u, cat=cat, caption=None, cls=cls, v=val)
        if cls == "fscalar":
            o = None
            for num, den in rng.sample(OFRACS, len(OFRACS)):
                cand = dict(k="simple", unit=u, cat=cat, caption=None, cls=cls, v=[val - num / den, num, den])
                if _onumerator_kept(ctx, cand, units):
                    o = cand
                    break
            if o is None:
                o = dict(k="simple", unit=u, cat=cat, caption=None, cls="scalar", v=val)
        operands.append(o)
    if len(operands) < 3:
        return None
    operands.append(dict(operands[rng.randrange(len(operands))]))  # an identically built twin: exact ties
    ou, oc = ("s", "time") if qt != "time" else ("m", "length")
    operands.append(dict(k="simple", unit=ou, cat=oc, caption=None, cls=rng.choice(("scalar", "fscalar")), v=1.5))
    if operands[-1]["cls"] == "fscalar":
        operands[-1]["v"] = [1.0, 1, 2]
    steps, n = [], len(operands)
    cls_of = [o["cls"] for o in operands]
    kinds = ["float"] * 3 + ["show"] * 2 + ["getvalue"] * 3 + ["order"] * 5 + ["eq", "hash", "arith"] + ["copy"] * 3
    copies = 0
    for _ in range(n_steps):
        k = rng.choice(kinds)
        a, b = rng.randrange(n), rng.randrange(n)
        if k == "copy" and copies >= 5:
            k = "float"
        if k in ("float", "show", "hash"):
            steps.append(dict(k=k, a=a))
        elif k == "getvalue":
            steps.append(dict(k=k, a=a, x=rng.choice(units)))
        elif k == "order":
            steps.append(dict(k=k, a=a, b=b, op=rng.choice(OPS)))
            if rng.random() < 0.4:
                steps.append(dict(k=k, a=b, b=a, op=rng.choice(OPS)))
        elif k in ("eq", "arith"):
            steps.append(dict(k=k, a=a, b=b))
        else:
            # (a FractionScalar cannot be pickled: its Quantity holds the local function `identity`)
            steps.append(dict(k="copy", a=a, how=rng.choice(OCOPY if cls_of[a] == "scalar" else OCOPY[:3])))
            cls_of.append(cls_of[a])
            copies += 1
            n += 1
    return dict(qtype=qt, units=units, operands=operands, steps=steps)


def _ostir_case(ctx, plan, queries=None):
    n = len(plan["operands"]) + sum(1 for st in plan["steps"] if st["k"] == "copy")
    if queries is None:
        queries = [[i, j] for i in range(n) for j in range(n)]
    script = []
    for st in plan["steps"]:
        k = st["k"]
        if k in ("float", "show", "hash", "copy"):
            script.append([{"float": 0, "show": 1, "hash": 5, "copy": 7}[k], st["a"]])
        elif k == "getvalue":
            script.append([2, st["a"], str(sym(st["x"]))])
        elif k == "order":
            script.append([3, OPCODE[st["op"]], st["a"], st["b"]])
        else:
            script.append([{"eq": 4, "arith": 6}[k], st["a"], st["b"]])
    return dict(op="ostir", db="posc", small=ctx.small, tol=OTOL, pool=[_oside(o) for o in plan["operands"]],
                script=script, queries=queries, _t=dict(plan=plan, queries=queries))


def _ostir_cases(ctx, salt, n_length, n_types, n_steps):
    db = ctx.db
    rng = ctx.fresh_rng("C08ostir" + salt)
    qts = sorted(q for q in db.quantity_types if len(db.quantity_types[q]) > 1 and q != "length")
    forced = [q for q in ("temperature", "pressure") if q in qts]
    rest = [q for q in qts if q not in forced]
    rng.shuffle(rest)
    made = 0
    for qt in ["length"] * n_length + forced + rest:
        if made >= n_length + n_types:
            break
        plan = make_oplan(ctx, rng, qt, n_steps)
        if plan is not None:
            made += 1
            yield _ostir_case(ctx, plan)


def _oshow_operand(plan, i):
    ops, prod = plan["operands"], [st for st in plan["steps"] if st["k"] == "copy"]
    if i < len(ops):
        return "p%d = %s" % (i, _xshow(ops[i]))
    st = prod[i - len(ops)]
    how = {"copy": "copy.copy(p%d)", "deepcopy": "copy.deepcopy(p%d)", "createcopy": "p%d.CreateCopy()",
           "pickle": "pickle.loads(pickle.dumps(p%d))"}[st["how"]] % st["a"]
    return "p%d = %s" % (i, how)


def _oshow_step(st):
    k, a = st["k"], st["a"]
    if k == "float":
        return "float(p%d.GetValue()); p%d.GetAbstractValue(); float(copy.copy(p%d.GetValue()))" % (a, a, a)
    if k == "show":
        return "str(p%d); repr(p%d); p%d.GetFormatted()" % (a, a, a)
    if k == "hash":
        return "hash(p%d)" % a
    if k == "getvalue":
        return "float(p%d.GetValue(%r)); p%d.CreateCopy(unit=%r)" % (a, st["x"], a, st["x"])
    if k == "order":
        return "p%d %s p%d" % (a, {"lt": "<", "le": "<=", "gt": ">", "ge": ">="}[st["op"]], st["b"])
    if k == "eq":
        return "p%d == p%d; p%d != p%d; p%d.AlmostEqual(p%d, 6)" % (a, st["b"], a, st["b"], a, st["b"])
    if k == "arith":
        return "p%d + p%d; p%d - p%d; p%d * p%d; p%d / p%d" % ((a, st["b"]) * 4)
    return "a copy of p%d joins the pool (%s)" % (a, st["how"])


def _ocopy(x, how):
    import copy
    import pickle

    if how == "copy":
        return copy.copy(x)
    if how == "deepcopy":
        return copy.deepcopy(x)
    if how == "createcopy":
        return x.CreateCopy()
    return pickle.loads(pickle.dumps(x))


def _orun(plan, ctx, on_order=None):
    """build the operands and perform the history on the REAL code (ctx.db must be the singleton).  Returns
    (objects, origin) - origin[i] = index of the recipe the pooled object i goes back to; a copy that failed is None"""
    objs = [_xmk(o) for o in plan["operands"]]
    origin = list(range(len(objs)))
    for pos, st in enumerate(plan["steps"]):
        k = st["k"]
        a = objs[st["a"]] if st["a"] < len(objs) else None
        b = objs[st["b"]] if st.get("b") is not None and st["b"] < len(objs) else None
        if k == "copy":
            try:
                objs.append(_ocopy(a, st["how"]))
            except Exception:
                objs.append(None)
            origin.append(origin[st["a"]] if st["a"] < len(origin) else -1)
            continue
        if a is None or (st.get("b") is not None and b is None):
            if k == "order" and on_order is not None:
                on_order(pos, st, None, None, dict(err="other", exc="missing operand"))
            continue
        if k == "order":
            r = _res(lambda: PYOP[st["op"]](a, b))
            if on_order is not None:
                on_order(pos, st, a, b, r)
            continue
        fs = {"float": (lambda: float(a.GetValue()), lambda: a.GetAbstractValue(), lambda: float(a.value),
                        lambda: float(_ocopy(a.GetValue(), "copy"))),
              "show": (lambda: str(a), lambda: repr(a), lambda: a.GetFormatted()),
              "hash": (lambda: hash(a),),
              "getvalue": (lambda: float(a.GetValue(st["x"])), lambda: a.CreateCopy(unit=st["x"])),
              "eq": (lambda: a == b, lambda: a != b, lambda: a.AlmostEqual(b, 6)),
              "arith": (lambda: a + b, lambda: a - b, lambda: a * b, lambda: a / b)}[k]
        for f in fs:
            try:
                f()
            except Exception:
                pass
    return objs, origin


def _impl_ostir(c, ctx):
    t = c["_t"]
    plan = t["plan"]
    hist = []
    with _Use(ctx.db):
        objs, origin = _orun(plan, ctx, lambda pos, st, a, b, r: hist.append(_code(r)))
        want = [_oside(o) for o in plan["operands"]]
        changed = []

        def look(when):
            for i, x in enumerate(objs):
                try:
                    now = None if x is None else _odesc(x)
                except Exception as e:
                    now = dict(why=repr(e)[:80])
                if now != want[origin[i]] and (i, when) not in changed and not any(i == j for j, _w in changed):
                    changed.append((i, when))

        look("after the history")
        codes = []
        for i, j in t["queries"]:
            if i >= len(objs) or j >= len(objs) or objs[i] is None or objs[j] is None:
                codes.append("oooo")
                continue
            codes.append("".join(_code(_res(lambda k=k: PYOP[k](objs[i], objs[j]))) for k in OPS))
        look("after the comparisons")
    return dict(n=len(objs), hist="".join(hist), codes="".join(codes),
                changed=["p%d %s" % (i, w) for i, w in changed])


def _agree_ostir(c, io, m, ctx):
    n = ctx.notes
    t = c["_t"]
    plan = t["plan"]
    if io["n"] != m["n"]:
        return "the pool holds %d objects on the real code, %d in the model" % (io["n"], m["n"])
    if io["changed"]:
        return ("pooled operands whose descriptor is not the one of their recipe (a copy: of its original): %s"
                % (io["changed"][:6],))
    orders = [st for st in plan["steps"] if st["k"] == "order"]
    if len(io["hist"]) != len(orders) or len(m["hist"]) != 2 * len(orders):
        return "answers for %d comparisons of the history expected: impl %d, model %d characters" % (
            len(orders), len(io["hist"]), len(m["hist"]))
    near = 0
    for k, st in enumerate(orders):
        r, d, nr = io["hist"][k], m["hist"][2 * k], m["hist"][2 * k + 1]
        if nr == "1" and r in "TF" and d in "TF":
            near += 1
        elif r != d:
            return "within the history, %s is %r on the real code, %r in the model" % (_oshow_step(st), r, d)
    mod = _unrle(m["codes"])
    real = io["codes"]
    q = t["queries"]
    if len(real) != 4 * len(q) or len(mod) != 5 * len(q):
        return "answers for %d pairs expected: impl %d model %d characters" % (len(q), len(real), len(mod))
    decided = cross = errs = 0
    for k, (i, j) in enumerate(q):
        r, d = real[4 * k:4 * k + 4], mod[5 * k:5 * k + 5]
        if d[4] == "1" and all(ch in "TF" for ch in r + d[:4]):
            near += 1
            continue
        if r != d[:4]:
            return "after the history, p%d <,<=,>,>= p%d are %r on the real code, %r in the model (%s; %s)" % (
                i, j, r, d[:4], _oshow_operand(plan, i), _oshow_operand(plan, j))
        if d[:4] == "tttt":
            cross += 1
        elif all(ch in "TF" for ch in d[:4]):
            decided += 1
        else:
            errs += 1
    for key, v in (("ostir_plans", 1), ("ostir_history_steps", len(plan["steps"])), ("ostir_history_comparisons", len(orders)),
                   ("ostir_copies_in_pool", io["n"] - len(plan["operands"])), ("ostir_pairs_decided", decided),
                   ("ostir_pairs_cross_type_typeerror", cross), ("ostir_pairs_other_error", errs),
                   ("ostir_near_ties_skipped", near)):
        n[key] = n.get(key, 0) + v
    ks = n.setdefault("ostir_history_step_kinds", {})
    for st in plan["steps"]:
        ks[st["k"]] = ks.get(st["k"], 0) + 1
    qs = n.setdefault("ostir_quantity_types", [])
    if plan["qtype"] not in qs:
        qs.append(plan["qtype"])
    return None


def _oamount(ctx, o):
    """the physical amount of an operand recipe in the base unit of its quantity type, from the recipe's numbers
    (not from the object), its quantity type, and the magnitude of its parts"""
    db = ctx.db
    qt = db.GetQuantityType(o["unit"])
    base = db.quantity_types[qt][0].unit
    if o["cls"] == "scalar":
        v, parts = float(o["v"]), abs(float(o["v"]))
    else:
        v, parts = o["v"][0] + o["v"][1] / o["v"][2], abs(o["v"][0]) + abs(o["v"][1] / o["v"][2])
    z = db.Convert(qt, o["unit"], base, 0.0)
    return qt, db.Convert(qt, o["unit"], base, v), abs(z) + abs(db.Convert(qt, o["unit"], base, parts) - z)


def _ojudge(ctx, ra, rb, got, ops):
    """the clauses of the property on the verdicts `got` (op -> result) of `a op b` for two operand recipes"""
    qa, pa, ma = _oamount(ctx, ra)
    qb, pb, mb = _oamount(ctx, rb)
    if qa != qb:
        for k in ops:
            if not (isinstance(got[k], dict) and got[k].get("exc") == "TypeError"):
                return dict(clause="ordering values of different quantity types raises TypeError", op=k, got=got[k])
        return None
    for k in ops:
        if not isinstance(got[k], bool):
            return dict(clause="ordering values of one quantity type must not raise", op=k, got=got[k])
    tie = ra["unit"] == rb["unit"] and ra["cls"] == rb["cls"] and ra["v"] == rb["v"]
    if tie or abs(pa - pb) > 1e-7 * (ma + mb) + 1e-300:
        want = dict(lt=False, le=True, gt=False, ge=True) if tie else {k: PYOP[k](pa, pb) for k in OPS}
        for k in ops:
            if got[k] != want[k]:
                return dict(clause="order agrees with the physical amounts", op=k, got=got[k], want=want[k],
                            base_amounts=[pa, pb])
    return None


def _oracle_ostir(c, ctx):
    """the order clauses of the property on the real code, for every comparison of the history and for every queried
    pair (both operand orders) after it; amounts are computed from the recipes with the database's own Convert"""
    t = c["_t"]
    plan = t["plan"]
    ops_, ncopy = plan["operands"], 0
    origin = list(range(len(ops_)))
    for st in plan["steps"]:
        if st["k"] == "copy":
            origin.append(origin[st["a"]] if st["a"] < len(origin) else 0)
    found = []

    def on_order(pos, st, a, b, r):
        if found or a is None:
            return
        f = _ojudge(ctx, ops_[origin[st["a"]]], ops_[origin[st["b"]]], {st["op"]: r}, (st["op"],))
        if f:
            found.append(dict(f, where="step %d of the history" % pos, pair=[st["a"], st["b"]], a=repr(a), b=repr(b),
                              upto=pos, step=pos))

    with _Use(ctx.db):
        objs, _origin = _orun(plan, ctx, on_order)
        if not found:
            for qi, (i, j) in enumerate(t["queries"]):
                if i >= len(objs) or j >= len(objs):
                    continue
                a, b = objs[i], objs[j]
                if a is None or b is None:
                    found.append(dict(clause="the objects of the case could not be built or compared",
                                      error="a copy could not be made", pair=[i, j], query=qi))
                    break
                ra, rb = ops_[origin[i]], ops_[origin[j]]
                fwd = {k: _res(lambda k=k: PYOP[k](a, b)) for k in OPS}
                f = _ojudge(ctx, ra, rb, fwd, OPS)
                if f is None:
                    bwd = {k: _res(lambda k=k: PYOP[k](b, a)) for k in OPS}
                    f = _ojudge(ctx, rb, ra, bwd, OPS)
                    if f is not None:
                        f = dict(f, mirrored=True)
                    elif all(isinstance(v, bool) for v in list(fwd.values()) + list(bwd.values())):
                        if fwd["gt"] and bwd["gt"]:
                            f = dict(clause="a>b and b>a are never both true")
                        elif fwd["lt"] and bwd["lt"]:
                            f = dict(clause="a<b and b<a are never both true")
                        elif not (fwd["le"] or bwd["le"]):
                            f = dict(clause="a<=b or b<=a always holds")
                if f:
                    found.append(dict(f, where="after the history and the comparisons of %d earlier pairs" % qi,
                                      pair=[i, j], a=repr(a), b=repr(b), query=qi))
                    break
    if not found:
        return None
    f = found[0]
    upto = f.pop("upto", len(plan["steps"]))
    used = sorted({x for st in plan["steps"][:upto + 1] for x in (st["a"], st.get("b")) if x is not None} | set(f["pair"]))
    f["objects"] = [_oshow_operand(plan, i) for i in used][:16]
    steps = plan["steps"][:upto + 1]
    f["history"] = [_oshow_step(st) for st in steps] if len(steps) <= 60 else "%d operations" % len(steps)
    return f


def _shrink_ostir(case, failure, ctx):
    """the failing comparison alone after a history that still makes it fail: the queried pairs before it become
    comparisons of the history, then non-copy steps are removed in shrinking chunks (every trial on fresh objects)"""
    import time

    t = case["_t"]
    plan = t["plan"]
    clause = failure.get("clause")
    steps = list(plan["steps"])
    if "query" in failure:
        for i, j in t["queries"][:failure["query"]]:
            steps += [dict(k="order", a=i, b=j, op=k) for k in OPS]
        queries = [list(failure["pair"])]
    else:
        steps = steps[:failure.get("step", len(steps)) + 1]
        queries = []

    def trial(sts):
        c = _ostir_case(ctx, dict(plan, steps=sts), [list(q) for q in queries])
        f = _oracle_ostir(c, ctx)
        return (c, f) if f and f.get("clause") == clause else None

    best = trial(steps)
    if best is None:
        return case, failure
    t0 = time.time()
    size = max(1, len(steps) // 2)
    while time.time() - t0 < 30:
        k, reduced = 0, False
        while k < len(steps) and time.time() - t0 < 30:
            chunk = [x for x in range(k, min(k + size, len(steps))) if steps[x]["k"] != "copy"]
            if chunk:
                cand = [st for x, st in enumerate(steps) if x not in chunk]
                r = trial(cand)
                if r is not None:
                    steps, best, reduced = cand, r, True
                    continue
            k += size
        if size == 1 and not reduced:
            break
        size = max(1, size // 2)
    # copies nobody refers to any more: drop them, renumbering the later pool members
    n0, k = len(plan["operands"]), 0
    while k < len(steps) and time.time() - t0 < 40:
        if steps[k]["k"] != "copy":
            k += 1
            continue
        p = n0 + sum(1 for st in steps[:k] if st["k"] == "copy")
        refs = [x for st in steps[:k] + steps[k + 1:] for x in (st["a"], st.get("b"))] + [x for q in queries for x in q]
        if p in refs:
            k += 1
            continue

        def ren(x):
            return x - 1 if x is not None and x > p else x

        cand = [dict(st, a=ren(st["a"]), **({"b": ren(st["b"])} if "b" in st else {})) for st in steps[:k] + steps[k + 1:]]
        old_q, queries = queries, [[ren(i), ren(j)] for i, j in queries]
        r = trial(cand)
        if r is not None:
            steps, best = cand, r
        else:
            queries = old_q
            k += 1
    return best



# ---------------------------------------------------------------------------------------------- setup
def setup(ctx):
    ctx.db = translate.build_db("posc")
    ctx.small = None
    ctx.small = _small()
    with _Use(ctx.db):
        ctx.pools = {"base": build_pool(ctx.db, ctx.seed, False), "wide": build_pool(ctx.db, ctx.seed, True)}
    ctx.terms = {k: [enc(o) for o in v] for k, v in ctx.pools.items()}
    cats = {}
    for name, ci in ctx.db.categories_to_quantity_types.items():
        cats.setdefault(ci.quantity_type, []).append(name)
    ctx.cats_of_type = cats
    _CTX[0] = ctx


# ---------------------------------------------------------------------------------------------- cases
def _num(x):
    return x if isinstance(x, int) else float(x).hex()


def _unnum(x):
    return x if isinstance(x, int) else float.fromhex(x)


def _cat_for(ctx, rng, qt, unit):
    """a category of the quantity type in which the unit is valid"""
    db = ctx.db
    cands = []
    for c in sorted(ctx.cats_of_type.get(qt, [])):
        vu = db.categories_to_quantity_types[c].valid_units
        if vu is None or unit in vu:
            cands.append(c)
    if qt in cands and rng.random() < 0.7:
        return qt
    return rng.choice(cands) if cands else None


def _order_case(ctx, cls, a, b, tag):
    """a, b = (value or (number, num, den), unit, category)"""

    def side(s):
        v, unit, cat = s
        d = dict(cat=str(sym(cat)), unit=str(sym(unit)))
        if cls == "scalar":
            d["value"] = qstr(exact(v))
        else:
            n, num, den = v
            d["number"] = qstr(exact(n))
            fr = F(num, den)
            d["frac"] = "%d/%d" % (fr.numerator, fr.denominator)
        return d

    def tside(s):
        v, unit, cat = s
        return dict(v=_num(v) if cls == "scalar" else [_num(v[0]), v[1], v[2]], unit=unit, cat=cat)

    return dict(op="order", db="posc", cls=cls, a=side(a), b=side(b), small=ctx.small,
                _t=dict(a=tside(a), b=tside(b), tag=tag))


def _amounts(db, rng, qt, ua, ub, x):
    """b's amounts for a's amount x: physically equal, 1e-9 beside, far"""
    try:
        eqv = db.Convert(qt, ua, ub, x)
        off = abs(db.Convert(qt, ua, ub, 0.0))
    except Exception:
        return []
    if not (math.isfinite(eqv) and math.isfinite(off)):
        return []
    scale = max(abs(eqv), off, 1e-300)
    out = [("equal", eqv), ("beside", eqv + rng.choice((1, -1)) * scale * 1e-9),
           ("far", eqv + rng.choice((1, -1)) * scale * rng.uniform(0.01, 3.0))]
    if rng.random() < 0.15:
        out.append(("ulp", math.nextafter(eqv, rng.choice((math.inf, -math.inf)))))
    return [(t, v) for t, v in out if math.isfinite(v)]


XS = (1.0, 0.0, 100.0, 2.5, -40.0, 1, 273.15, 12)


def _order_cases(ctx, salt, n_types, per_pair, all_types=False):
    db = ctx.db
    rng = ctx.fresh_rng("C08order" + salt)
    qts = sorted(q for q in db.quantity_types if len(db.quantity_types[q]) > 1)
    forced = [q for q in ("temperature", "pressure", "length") if q in db.quantity_types]
    rest = [q for q in qts if q not in forced]
    rng.shuffle(rest)
    chosen = forced + (rest if all_types else rest[:n_types])
    for qt in chosen:
        units = [i.unit for i in db.quantity_types[qt]]
        for ua in units:
            for ub in units:
                ca, cb = _cat_for(ctx, rng, qt, ua), _cat_for(ctx, rng, qt, ub)
                if ca is None or cb is None:
                    continue
                x = rng.choice(XS) if rng.random() < 0.8 else round(rng.uniform(-1e4, 1e4), 3)
                am = _amounts(db, rng, qt, ua, ub, float(x))
                rng.shuffle(am)
                for tag, vb in am[:per_pair]:
                    yield _order_case(ctx, "scalar", (x, ua, ca), (vb, ub, cb), tag)
                    # the same amounts as FractionValues: b = number + num/den
                    den = rng.choice((2, 4, 8, 3))
                    num = rng.randint(0, 5)
                    if tag == "equal" and rng.random() < 0.5:
                        nb = vb  # plain number, zero fraction: the tie stays a tie
                        num = 0
                    else:
                        nb = vb - num / den
                    na_num, na_den = rng.choice(((0, 1), (1, 2), (3, 4)))
                    yield _order_case(ctx, "fscalar", ((float(x) - na_num / na_den, na_num, na_den), ua, ca),
                                      ((nb, num, den), ub, cb), tag)
    # malformed stream: different quantity types must raise TypeError (both classes)
    for _ in range(150 if not all_types else 1500):
        qa, qb = rng.choice(qts), rng.choice(qts)
        ua = rng.choice([i.unit for i in db.quantity_types[qa]])
        ub = rng.choice([i.unit for i in db.quantity_types[qb]])
        ca, cb = _cat_for(ctx, rng, qa, ua), _cat_for(ctx, rng, qb, ub)
        if ca is None or cb is None:
            continue
        tag = "cross" if qa != qb else "sametype"
        yield _order_case(ctx, "scalar", (1.5, ua, ca), (2.5, ub, cb), tag)
        yield _order_case(ctx, "fscalar", ((1.0, 1, 2), ua, ca), ((2.0, 1, 4), ub, cb), tag)


def _eq_cases(ctx, which):
    terms = ctx.terms[which]
    pool = ctx.pools[which]
    for i in range(len(pool)):
        for j in range(len(pool)):
            yield dict(op="eqpair", a=terms[i], b=terms[j], same=pool[i] is pool[j], small=ctx.small,
                       _t=dict(pool=which, i=i, j=j))


def _basehash_cases(ctx, which):
    """`AbstractValueWithQuantityObject.__hash__(o)` called explicitly, for every pooled object"""
    for i, term in enumerate(ctx.terms[which]):
        yield dict(op="basehash", a=term, _t=dict(pool=which, i=i))


STIR_PLAN = {"quick": "stir/1", "thorough": "stir/3"}
FR_OPERANDS = [None, "a", (), 1, 0, 2, -1, 0.5, 0.25, 1.5, 0.1, 0.333, 2.0, 1e-9, 123.456]


def _frac_cases(ctx, salt, n):
    from barril.basic.fraction import Fraction

    rng = ctx.fresh_rng("C08frac" + salt)
    fracs = [(1, 2), (2, 4), (3, 1), (0, 1), (-1, 3), (1, 10), (333, 1000), (1, 1)]
    for _ in range(n):
        fracs.append((rng.randint(-20, 20), rng.randint(1, 12)))
    for a, b in fracs:
        x = F(a, b)
        xs = "%d/%d" % (x.numerator, x.denominator)
        others = list(FR_OPERANDS) + [round(rng.uniform(-3, 3), rng.choice((0, 1, 2, 4)))]
        for o in others:
            for side in ("L", "R"):
                yield dict(op="fracord", x=xs, side=side, b=enc(o), small=ctx.small,
                           _t=dict(frac=[a, b], other=_tnum(o)))
        c, d = rng.choice(fracs)
        y = F(c, d)
        yield dict(op="fracord", x=xs, side="L", b=dict(c="fraction", x="%d/%d" % (y.numerator, y.denominator)),
                   small=ctx.small, _t=dict(frac=[a, b], other=dict(frac=[c, d])))
    # Fraction(number): short decimals exactly, arbitrary doubles within rounding
    for _ in range(n * 6):
        kind = rng.choice(("short", "short", "any", "int", "tiny"))
        if kind == "short":
            q = round(rng.uniform(-1000, 1000), rng.choice((0, 1, 2, 3, 5, 7)))
        elif kind == "any":
            q = rng.uniform(-1, 1) * 10.0 ** rng.uniform(-6, 9)
        elif kind == "int":
            q = rng.randint(-10 ** 6, 10 ** 6)
        else:
            q = rng.uniform(-1, 1) * 10.0 ** rng.uniform(-12, -7)
        yield dict(op="fracof", q=qstr(exact(q)), small=ctx.small, _t=dict(q=_num(q), kind=kind))


def _tnum(o):
    if o is None:
        return dict(k="none")
    if isinstance(o, str):
        return dict(k="str", v=o)
    if isinstance(o, tuple):
        return dict(k="tuple")
    return dict(k="num", v=_num(o))


def _untnum(d):
    from barril.basic.fraction import Fraction

    if "frac" in d:
        return Fraction(*d["frac"])
    return {"none": lambda: None, "str": lambda: d["v"], "tuple": lambda: (), "num": lambda: _unnum(d["v"])}[d["k"]]()


XVALS = {"scalar": (1.5, 2.5), "fscalar": ((1.0, 1, 2), (2.0, 1, 4))}
XFIXED = (("m", "length"), ("degC", "temperature"), ("s", "time"))


def _xorder_cases(ctx, salt, n_random):
    """every ordered pair of operands {Scalar, FractionScalar} x {table units of different quantity types, the
    `<unknown>` unit of the quantity type Unknown without / with a caption, the empty quantity} x two dyadic values:
    all four operators.  Two operands of one quantity type always share the unit here, so every verdict is exact."""
    db = ctx.db
    rng = ctx.fresh_rng("C08xorder" + salt)
    quants = [dict(k="simple", unit=u, cat=c, caption=None) for u, c in XFIXED]
    seen = {db.GetQuantityType(u) for u, _c in XFIXED} | {"Unknown"}
    qts = sorted(q for q in db.quantity_types if q not in seen)
    rng.shuffle(qts)
    for qt in qts[:n_random]:
        u = rng.choice([i.unit for i in db.quantity_types[qt]])
        c = _cat_for(ctx, rng, qt, u)
        if c is not None:
            quants.append(dict(k="simple", unit=u, cat=c, caption=None))
    quants += [dict(k="unknown", unit="<unknown>", cat="Unknown", caption=cap) for cap in (None, "foo", "bar")]
    quants.append(dict(k="empty", unit="", cat="", caption=None))
    operands = []
    for q in quants:
        for cls in ("scalar", "fscalar"):
            for v in XVALS[cls]:
                operands.append(dict(q, cls=cls, v=v))

    def side(o):
        d = dict(cls=o["cls"], q=dict(k="empty") if o["k"] == "empty" else
                 dict(k="simple", cat=str(sym(o["cat"])), unit=str(sym(o["unit"]))))
        if o["cls"] == "scalar":
            d["value"] = qstr(exact(o["v"]))
        else:
            n, num, den = o["v"]
            fr = F(num, den)
            d.update(number=qstr(exact(n)), frac="%d/%d" % (fr.numerator, fr.denominator))
        return d

    for a in operands:
        for b in operands:
            yield dict(op="xorder", db="posc", small=ctx.small, a=side(a), b=side(b),
                       _t=dict(a=dict(a, v=list(a["v"]) if a["cls"] == "fscalar" else a["v"]),
                               b=dict(b, v=list(b["v"]) if b["cls"] == "fscalar" else b["v"])))


def _xmk(o):
    """the real operand of an xorder case (the private database must be the singleton)"""
    from barril.basic.fraction import FractionValue
    from barril.units import FractionScalar, GetUnknownQuantity, ObtainQuantity, Quantity, Scalar

    if o["k"] == "simple":
        q = ObtainQuantity(o["unit"], o["cat"])
    elif o["k"] == "unknown":
        q = GetUnknownQuantity(o["caption"])
    else:
        q = Quantity.CreateEmpty()
    if o["cls"] == "scalar":
        return Scalar(q, o["v"])
    n, num, den = o["v"]
    return FractionScalar(q, FractionValue(n, (num, den)))


def _xshow(o):
    v = o["v"] if o["cls"] == "scalar" else "FractionValue(%r, (%r, %r))" % tuple(o["v"])
    name = "Scalar" if o["cls"] == "scalar" else "FractionScalar"
    if o["k"] == "simple":
        return "%s(%s, %r, %r)" % (name, v, o["unit"], o["cat"])
    if o["k"] == "unknown":
        return "%s(GetUnknownQuantity(%r), %s)" % (name, o["caption"], v)
    return "%s(Quantity.CreateEmpty(), %s)" % (name, v)


def cases(ctx):
    quick = ctx.tier == "quick"
    yield from _xorder_cases(ctx, "corr", 3 if quick else 12)
    yield from _order_cases(ctx, "corr", 14 if quick else 70, 2 if quick else 4)
    yield from _eq_cases(ctx, "base" if quick else "wide")
    yield from _basehash_cases(ctx, "base" if quick else "wide")
    yield from _stir_cases(ctx, STIR_PLAN[ctx.tier])
    yield from _ostir_cases(ctx, "corr", *((4, 10, 24) if quick else (12, 60, 40)))
    yield from _frac_cases(ctx, "corr", 6 if quick else 40)


def model_line(c):
    return {k: v for k, v in c.items() if k != "_t"}


def case_key(c):
    return model_line(c)


def show(c):
    t = c["_t"]
    if c["op"] == "order":
        def s(d):
            v = d["v"]
            if c["cls"] == "scalar":
                return "Scalar(%r, %r, %r)" % (_unnum(v), d["unit"], d["cat"])
            return "FractionScalar(FractionValue(%r, (%r, %r)), %r, %r)" % (_unnum(v[0]), v[1], v[2], d["unit"], d["cat"])
        return dict(op="order", a=s(t["a"]), b=s(t["b"]), tag=t["tag"])
    if c["op"] == "xorder":
        return dict(op="xorder", a=_xshow(t["a"]), b=_xshow(t["b"]))
    if c["op"] == "eqpair":
        return dict(op="eqpair", pool=t["pool"], i=t["i"], j=t["j"], a=c["a"]["c"], b=c["b"]["c"])
    if c["op"] == "fracord":
        return dict(op="fracord", frac=t["frac"], side=c["side"], other=t["other"])
    if c["op"] == "basehash":
        return dict(op="basehash", pool=t["pool"], i=t["i"], a=c["a"]["c"])
    if c["op"] == "stir":
        p = t["plan"]
        return dict(op="stir", plan=p if isinstance(p, str) else "explicit (%d recipes, %d steps)" % (
            len(p["recipes"]), len(p["steps"])), pairs=len(t["pairs"]), first=t["pairs"][0], last=t["pairs"][-1],
            pool=len(c.get("pool", ())), history=len(c.get("script", ())))
    if c["op"] == "ostir":
        p = t["plan"]
        return dict(op="ostir", quantity_type=p["qtype"], units=p["units"], operands=[_xshow(o) for o in p["operands"]][:10],
                    history=[_oshow_step(st) for st in p["steps"]][:60], pairs=len(t["queries"]))
    return dict(op=c["op"], q=_unnum(t["q"]))


# ---------------------------------------------------------------------------------------------- the real code
def _mk(ctx, cls, d):
    from barril.basic.fraction import FractionValue
    from barril.units import FractionScalar, Scalar

    if cls == "scalar":
        return Scalar(_unnum(d["v"]), d["unit"], d["cat"])
    n, num, den = d["v"]
    return FractionScalar(FractionValue(_unnum(n), (num, den)), d["unit"], d["cat"])


def _pool_objs(c, ctx):
    t = c["_t"]
    p = ctx.pools[t["pool"]]
    return p[t["i"]], p[t["j"]]


def impl(c, ctx):
    t = c["_t"]
    try:
        if c["op"] == "order":
            with _Use(ctx.db):
                a, b = _mk(ctx, c["cls"], t["a"]), _mk(ctx, c["cls"], t["b"])
                out = dict(ord={k: _res(lambda k=k: PYOP[k](a, b)) for k in OPS},
                           eq=_res(lambda: a == b), ne=_res(lambda: a != b))
                try:
                    out["v1"] = float(a.GetValue()).hex()
                    out["v2"] = float(b.GetValue(a.GetUnit())).hex()
                except Exception as e:
                    out["getvalue"] = err_kind(e)
            return out
        if c["op"] == "xorder":
            with _Use(ctx.db):
                a, b = _xmk(t["a"]), _xmk(t["b"])
                return dict(ord={k: _res(lambda k=k: PYOP[k](a, b)) for k in OPS},
                            qta=a.GetQuantityType(), qtb=b.GetQuantityType())
        if c["op"] == "eqpair":
            a, b = _pool_objs(c, ctx)
            with _Use(ctx.db):
                ha, hb = _hash(a), _hash(b)
                return dict(eq=_res(lambda: a == b), ne=_res(lambda: a != b), ha=ha[0], hb=hb[0],
                            heq=(ha[1] == hb[1]) if ha[0] == "ok" and hb[0] == "ok" else None)
        if c["op"] == "basehash":
            from barril.units._abstractvaluewithquantity import AbstractValueWithQuantityObject

            o = ctx.pools[t["pool"]][t["i"]]
            with _Use(ctx.db):
                base = _res(lambda: AbstractValueWithQuantityObject.__hash__(o))
                own = _res(lambda: hash(o) is None)
            return dict(base=base.get("err") if isinstance(base, dict) else "ok",
                        own_exc=own.get("exc") if isinstance(own, dict) else None)
        if c["op"] == "stir":
            return _impl_stir(c, ctx)
        if c["op"] == "ostir":
            return _impl_ostir(c, ctx)
        if c["op"] == "fracord":
            from barril.basic.fraction import Fraction

            x = Fraction(*t["frac"])
            o = _untnum(t["other"])
            out = {k: _res(lambda k=k: PYOP[k](x, o) if c["side"] == "L" else PYOP[k](o, x)) for k in OPS}
            if isinstance(o, (int, float)):
                fo = Fraction(o)
                out["fo"] = "%d/%d" % (fo.numerator, fo.denominator)
            return out
        if c["op"] == "fracof":
            from barril.basic.fraction import Fraction

            fr = Fraction(_unnum(t["q"]))
            return dict(x="%d/%d" % (fr.numerator, fr.denominator))
    except Exception as e:
        return dict(err=err_kind(e), detail=repr(e)[:200])
    return dict(err="other", detail="unknown op")


def _near(v1, v2, m):
    return abs(v1 - v2) <= K * F(EPS) * max(abs(F(m)), abs(v1), abs(v2)) + F(1, 10 ** 300)


def _same_res(i, m):
    """impl result (bool or {err,exc}) vs model result (bool or {err})"""
    if isinstance(i, dict) or isinstance(m, dict):
        return isinstance(i, dict) and isinstance(m, dict) and i.get("err") == m.get("err")
    return i == m


def agree(c, io, mo, ctx):
    if "ok" not in mo:
        return "model failed: %r" % (mo,)
    m = mo["ok"]
    n = ctx.notes
    if "err" in io and c["op"] != "fracord":
        return "the wrapper around the real code failed: %r" % (io,)
    if c["op"] == "order":
        for k in ("eq", "ne"):
            if not _same_res(io[k], m[k]):
                return "%s: impl=%r model=%r" % (k, io[k], m[k])
        mord = m["ord"]
        tags = n.setdefault("order_cases_by_class_and_tag", {})
        tk = "%s/%s" % (c["cls"], c["_t"]["tag"])
        tags[tk] = tags.get(tk, 0) + 1
        if "err" in mord:
            n["order_err_" + mord["err"]] = n.get("order_err_" + mord["err"], 0) + 1
            for k in OPS:
                if not _same_res(io["ord"][k], mord):
                    return "%s: impl=%r model raises %s" % (k, io["ord"][k], mord["err"])
            return None
        for k in OPS:
            if not isinstance(io["ord"][k], bool):
                return "%s: impl=%r model=%r" % (k, io["ord"][k], mord[k])
        if "v2" not in io:
            return "GetValue failed on the real code: %r" % (io.get("getvalue"),)
        v1r, v2r = float.fromhex(io["v1"]), float.fromhex(io["v2"])
        v1, v2, mag = qparse(m["v1"]), qparse(m["v2"]), qparse(m["M"])
        if not close(v1r, v1, mag):
            return "left amount differs: real %r model %s" % (v1r, float(v1))
        if not close(v2r, v2, mag):
            return "converted right amount %r is not within K*eps*M of the exact %s" % (v2r, float(v2))
        for k in OPS:  # the real verdicts follow the real converted amounts
            if io["ord"][k] != PYOP[k](v1r, v2r):
                return "%s: real verdict %r but the real converted amounts are %r, %r" % (k, io["ord"][k], v1r, v2r)
        if c["cls"] == "fscalar" and _flush_affects(c):  # the model reproduces the approximation of the code
            n["order_fscalar_converted_numerator_altered"] = n.get("order_fscalar_converted_numerator_altered", 0) + 1
        if _near(v1, v2, mag):
            n["order_near_tie"] = n.get("order_near_tie", 0) + 1
            return None
        n["order_decided"] = n.get("order_decided", 0) + 1
        for k in OPS:
            if io["ord"][k] != mord[k]:
                return "%s: impl=%r model=%r (amounts %s vs %s)" % (k, io["ord"][k], mord[k], float(v1), float(v2))
        return None
    if c["op"] == "xorder":
        mord = m["ord"]
        for k in OPS:
            want = mord if "err" in mord else mord[k]
            if not _same_res(io["ord"][k], want):
                return "%s: impl=%r model=%r" % (k, io["ord"][k], want)
        key = ("xorder_cross_type_typeerror" if io["qta"] != io["qtb"] else
               "xorder_same_type_error" if "err" in mord else "xorder_same_type_decided")
        n[key] = n.get(key, 0) + 1
        kinds = n.setdefault("xorder_operand_kinds", {})
        kk = "%s/%s<>%s/%s" % (c["_t"]["a"]["cls"], c["_t"]["a"]["k"], c["_t"]["b"]["cls"], c["_t"]["b"]["k"])
        kinds[kk] = kinds.get(kk, 0) + 1
        return None
    if c["op"] == "eqpair":
        for k in ("eq", "ne"):
            if not _same_res(io[k], m[k]):
                return "%s: impl=%r model=%r" % (k, io[k], m[k])
        if io["ha"] != m["ha"] or io["hb"] != m["hb"]:
            return "hash: impl=%r/%r model=%r/%r" % (io["ha"], io["hb"], m["ha"], m["hb"])
        if m["hkeq"] and io["heq"] is not True:
            return "the model's hash keys are equal but the real hashes differ"
        key = "eq_%s" % ("true" if io["eq"] is True else "false")
        n[key] = n.get(key, 0) + 1
        pair = "%s==%s" % (c["a"]["c"], c["b"]["c"])
        if io["eq"] is True:
            d = n.setdefault("eq_true_by_classes", {})
            d[pair] = d.get(pair, 0) + 1
        seen = ctx.__dict__.setdefault("_class_pairs", set())
        seen.add(pair)
        n["ordered_class_pairs_compared"] = len(seen)
        if c["_t"]["i"] == c["_t"]["j"]:
            h = n.setdefault("hash_outcome_by_class", {})
            hk = "%s:%s" % (c["a"]["c"], io["ha"])
            h[hk] = h.get(hk, 0) + 1
        if m["hkeq"] and not c["same"]:
            n["equal_hash_keys_on_distinct_objects"] = n.get("equal_hash_keys_on_distinct_objects", 0) + 1
        return None
    if c["op"] == "basehash":
        if io["base"] != m["h"]:
            return "AbstractValueWithQuantityObject.__hash__(o): impl=%r model=%r" % (io["base"], m["h"])
        if (io["own_exc"] == "NotImplementedError") != m["slot_raises"]:
            return "hash(o) ends in the abstract base's __hash__: impl=%r model=%r" % (io["own_exc"], m["slot_raises"])
        n["basehash_cases"] = n.get("basehash_cases", 0) + 1
        return None
    if c["op"] == "stir":
        return _agree_stir(c, io, m, ctx)
    if c["op"] == "ostir":
        return _agree_ostir(c, io, m, ctx)
    if c["op"] == "fracord":
        if "fo" in m:
            real, mod = qparse(io["fo"]), qparse(m["fo"])
            if real != mod:
                # the float loop of Fraction(number) accumulated rounding: the operand is a near tie of the model's
                if abs(real - mod) > K * F(EPS) * max(abs(real), abs(mod)):
                    return "Fraction(number): real %s model %s" % (real, mod)
                n["fraction_of_float_rounded"] = n.get("fraction_of_float_rounded", 0) + 1
                return None
        for k in OPS:
            if not _same_res(io.get(k), m[k]):
                return "%s: impl=%r model=%r" % (k, io.get(k), m[k])
        fk = "fracord_%s" % ("typeerror" if isinstance(m["lt"], dict) else "decided")
        n[fk] = n.get(fk, 0) + 1
        return None
    if c["op"] == "fracof":
        real, mod = qparse(io["x"]), qparse(m)
        q = exact(_unnum(c["_t"]["q"]))
        if c["_t"]["kind"] == "int":
            return None if real == mod else "Fraction(%r): real %s model %s" % (float(q), real, mod)
        if real == mod:
            n["fraction_of_float_exact"] = n.get("fraction_of_float_exact", 0) + 1
        return None if abs(real - mod) <= K * F(EPS) * max(abs(q), abs(real)) else \
            "Fraction(%r): real %s model %s" % (float(q), real, mod)
    return "unknown op"


def _agree_stir(c, io, m, ctx):
    n = ctx.notes
    pairs = c["_t"]["pairs"]
    if not m["pool_kept"]:
        return "the model's history altered its pool"
    if not m["wf"]:
        return ("the pool is not well-formed: two pooled objects that are one object, or that hold one Quantity "
                "object, had different descriptors when they were created")
    if io["changed"]:
        return ("the descriptors of the pooled objects %s are not the ones they were created with: an operation of "
                "the history altered them (the model's operations leave them as they are: stir_keeps_pool)"
                % (io["changed"][:6],))
    real, mod = _unrle(io["codes"]), _unrle(m["codes"])
    if len(real) != 5 * len(pairs) or len(mod) != 5 * len(pairs):
        return "answers for %d pairs expected: impl %d model %d characters" % (len(pairs), len(real), len(mod))
    for k, (a, b) in enumerate(pairs):
        r, d = real[5 * k:5 * k + 5], mod[5 * k:5 * k + 5]
        if r[:4] != d[:4]:
            return "after the history, %s vs %s: ==, !=, hash, hash are %r on the real code, %r in the model" % (
                a, b, r[:4], d[:4])
        if d[4] == "1" and r[4] != "1":
            return "after the history, %s vs %s: the model's hash keys are equal but the real hashes differ" % (a, b)
    n["stir_pairs_compared"] = n.get("stir_pairs_compared", 0) + len(pairs)
    n["stir_pairs_equal"] = n.get("stir_pairs_equal", 0) + sum(1 for k in range(len(pairs)) if real[5 * k] == "T")
    n["stir_pairs_equal_hash_keys"] = n.get("stir_pairs_equal_hash_keys", 0) + sum(
        1 for k in range(len(pairs)) if mod[5 * k + 4] == "1")
    n["stir_memoised_quantity_hashes"] = m["memo"]
    return None


def nontrivial(c, io):
    if c["op"] == "xorder":
        return c["_t"]["a"] != c["_t"]["b"]
    if c["op"] == "order":
        return c["a"]["unit"] != c["b"]["unit"] and all(isinstance(io["ord"][k], bool) for k in OPS)
    if c["op"] == "eqpair":
        return not c["same"] and (c["a"]["c"] not in _BUILTIN or c["b"]["c"] not in _BUILTIN)
    return True


_BUILTIN = ("none", "str", "num", "tuple", "list")


# ------------------------------------------------------------- the property itself, on the real code only
def _eq_clauses(a, b):
    """== and != never raise, agree with each other, are symmetric; a == a; equal hashable objects hash equally"""
    r = {}
    for name, f in (("a==b", lambda: a == b), ("b==a", lambda: b == a), ("a!=b", lambda: a != b),
                    ("b!=a", lambda: b != a), ("a==a", lambda: a == a), ("b==b", lambda: b == b)):
        r[name] = _res(f)
        if isinstance(r[name], dict):
            return dict(clause="== / != must never raise", expr=name, raised=r[name].get("exc"))
    if r["a==b"] != r["b==a"]:
        return dict(clause="== is symmetric", a_eq_b=r["a==b"], b_eq_a=r["b==a"])
    if r["a!=b"] != (not r["a==b"]) or r["b!=a"] != (not r["b==a"]):
        return dict(clause="!= is the negation of ==", eq=r["a==b"], ne=r["a!=b"])
    if not r["a==a"] or not r["b==b"]:
        return dict(clause="== is reflexive", a_eq_a=r["a==a"], b_eq_b=r["b==b"])
    if r["a==b"]:
        ha, hb = _hash(a), _hash(b)
        if ha[0] == "ok" and hb[0] == "ok" and ha[1] != hb[1]:
            return dict(clause="equal hashable objects have equal hashes")
    return None


def _oracle_order(c, ctx):
    t = c["_t"]
    db = ctx.db
    with _Use(db):
        a, b = _mk(ctx, c["cls"], t["a"]), _mk(ctx, c["cls"], t["b"])
        f = _eq_clauses(a, b)
        if f:
            return dict(f, a=repr(a), b=repr(b))
        fwd = {k: _res(lambda k=k: PYOP[k](a, b)) for k in OPS}
        bwd = {k: _res(lambda k=k: PYOP[k](b, a)) for k in OPS}
        qa, qb = a.GetQuantityType(), b.GetQuantityType()
        if qa != qb:
            for k in OPS:
                for r in (fwd[k], bwd[k]):
                    if not (isinstance(r, dict) and r.get("exc") == "TypeError"):
                        return dict(clause="ordering values of different quantity types raises TypeError", op=k,
                                    a=repr(a), b=repr(b), got=r)
            return None
        for k in OPS:
            for r in (fwd[k], bwd[k]):
                if not isinstance(r, bool):
                    return dict(clause="ordering values of one quantity type must not raise", op=k, a=repr(a), b=repr(b), got=r)
        # the two physical amounts, through the database's own conversion to the base unit
        base = db.quantity_types[qa][0].unit
        pa = db.Convert(qa, a.GetUnit(), base, float(a.GetValue()))
        pb = db.Convert(qa, b.GetUnit(), base, float(b.GetValue()))
        z = [abs(db.Convert(qa, u, base, 0.0)) for u in (a.GetUnit(), b.GetUnit())]
        # a FractionScalar's amount is a float sum number + fraction: rounding is relative to the parts
        parts = 0.0
        if c["cls"] == "fscalar":
            for o, d in ((a, t["a"]), (b, t["b"])):
                m = abs(_unnum(d["v"][0])) + abs(d["v"][1] / d["v"][2])
                parts += abs(db.Convert(qa, o.GetUnit(), base, m) - db.Convert(qa, o.GetUnit(), base, 0.0))
        tol = 1e-11 * (abs(pa) + abs(pb) + sum(z) + parts) + 1e-300
        exact_tie = a.GetUnit() == b.GetUnit() and float(a.GetValue()) == float(b.GetValue())
        if abs(pa - pb) > tol or exact_tie:
            want = {k: PYOP[k](pa, pb) for k in OPS} if not exact_tie else dict(lt=False, le=True, gt=False, ge=True)
            for k in OPS:
                if fwd[k] != want[k]:
                    return dict(clause="order agrees with the physical amounts", op=k, a=repr(a), b=repr(b), got=fwd[k],
                                want=want[k], base_amounts=[pa, pb])
        # coherence; on a tie that the float conversions reproduce exactly it is demanded too
        float_exact = False
        try:
            float_exact = float(b.GetValue(a.GetUnit())) == float(a.GetValue()) and \
                float(a.GetValue(b.GetUnit())) == float(b.GetValue())
        except Exception:
            pass
        if abs(pa - pb) > tol or exact_tie or float_exact:
            if fwd["gt"] and bwd["gt"]:
                return dict(clause="a>b and b>a are never both true", a=repr(a), b=repr(b))
            if not (fwd["le"] or bwd["le"]):
                return dict(clause="a<=b or b<=a always holds", a=repr(a), b=repr(b))
            if fwd["lt"] and bwd["lt"]:
                return dict(clause="a<b and b<a are never both true", a=repr(a), b=repr(b))
            if not (fwd["ge"] or bwd["ge"]):
                return dict(clause="a>=b or b>=a always holds", a=repr(a), b=repr(b))
    return None


def _oracle_xorder(c, ctx):
    """== clauses, and: ordering values of different quantity types raises TypeError (all four operators, both
    operand orders).  Nothing is demanded of two operands of one quantity type here."""
    t = c["_t"]
    with _Use(ctx.db):
        a, b = _xmk(t["a"]), _xmk(t["b"])
        f = _eq_clauses(a, b)
        if f:
            return dict(f, a=_xshow(t["a"]), b=_xshow(t["b"]))
        if a.GetQuantityType() != b.GetQuantityType():
            for k in OPS:
                for x, y, xs, ys in ((a, b, t["a"], t["b"]), (b, a, t["b"], t["a"])):
                    r = _res(lambda: PYOP[k](x, y))
                    if not (isinstance(r, dict) and r.get("exc") == "TypeError"):
                        return dict(clause="ordering values of different quantity types raises TypeError", op=k,
                                    a=_xshow(xs), b=_xshow(ys), got=r,
                                    quantity_types=[x.GetQuantityType(), y.GetQuantityType()])
    return None


def oracle(c, ctx):
    try:
        if c["op"] == "xorder":
            return _oracle_xorder(c, ctx)
        if c["op"] == "order":
            return _oracle_order(c, ctx)
        if c["op"] == "eqpair":
            a, b = _pool_objs(c, ctx)
            with _Use(ctx.db):
                f = _eq_clauses(a, b)
            return dict(f, a=repr(a)[:120], b=repr(b)[:120]) if f else None
        if c["op"] == "stir":
            return _oracle_stir(c, ctx)
        if c["op"] == "ostir":
            return _oracle_ostir(c, ctx)
        if c["op"] == "basehash":
            o = ctx.pools[c["_t"]["pool"]][c["_t"]["i"]]
            with _Use(ctx.db):
                f = _eq_clauses(o, o)
            return dict(f, a=repr(o)[:120], b=repr(o)[:120]) if f else None
        if c["op"] == "fracord":
            from barril.basic.fraction import Fraction

            x, o = Fraction(*c["_t"]["frac"]), _untnum(c["_t"]["other"])
            f = _eq_clauses(x, o)
            return dict(f, a=repr(x), b=repr(o)) if f else None
    except Exception as e:
        return dict(clause="the objects of the case could not be built or compared", error=repr(e)[:300])
    return None


# ------------------------------------------------------------- known finding: the numerator of a FractionScalar
_CTX = [None]


def _flush_affects(case):
    """one operand's numerator, converted to the other's unit as an increment, is changed by `Fraction(number)`
    (relative change > 1e-12): the input class of theorem `fscalar_order_counterexample`"""
    ctx = _CTX[0]
    if ctx is None or case.get("op") != "order" or case.get("cls") != "fscalar":
        return False
    from barril.basic.fraction import Fraction
    from barril.units import ObtainQuantity

    def one(src, dst):
        num = F(src["v"][1], src["v"][2]).numerator
        try:
            with _Use(ctx.db):
                q = ObtainQuantity(src["unit"], src["cat"])
                x = q.ConvertScalarValue(num, dst["unit"]) - q.ConvertScalarValue(0.0, dst["unit"])
                y = float(Fraction(x)) if isinstance(x, float) else float(x)
        except Exception:
            return False
        return abs(y - x) > 1e-12 * abs(x)

    t = case["_t"]
    return one(t["a"], t["b"]) or one(t["b"], t["a"])


def matches_known(entry, case, failure):
    """only the recorded input class is excused: an order comparison of two FractionScalars in which a converted
    numerator does not survive `Fraction(number)`"""
    if (entry.get("matcher") or {}).get("class") != CLASS_FLUSH:
        return False
    return _flush_affects(case) and "clause" in failure and failure.get("clause") != "== / != must never raise"


def replay_finding(entry, ctx):
    if (entry.get("matcher") or {}).get("class") != CLASS_FLUSH:
        return None
    _CTX[0] = ctx
    rc = entry.get("replay_case") or {}
    a = rc.get("a", [1e-9, 0, 1, "m", "length"])
    b = rc.get("b", [0.0, 3, 1, "nm", "length"])
    c = _order_case(ctx, "fscalar", ((a[0], a[1], a[2]), a[3], a[4]), ((b[0], b[1], b[2]), b[3], b[4]), "known")
    f = oracle(c, ctx)
    return f if (f and matches_known(entry, c, f)) else None


def shrink(case, failure, ctx):
    if case.get("op") == "stir":
        return _shrink_stir(case, failure, ctx)
    if case.get("op") == "ostir":
        return _shrink_ostir(case, failure, ctx)
    return case, failure


def table_candidates(ctx):
    """after a broken table theorem: Scalar order cases on the units whose row is not well-formed any more (the rows
    are found by the model's executable predicate `UnitRow.wf`, the hypothesis of the order theorems)"""
    import engine
    from common import dumps, unsym

    db = ctx.db
    rng = ctx.fresh_rng("C08table")
    res, _ = engine.run_driver(DRIVER_EXE, [dumps(dict(op="badrows", db="posc"))])
    out = []
    for s_ in res[0].get("rows", []):
        u = unsym(int(s_))
        qt = db.GetQuantityType(u)
        if qt is None:
            continue
        units = [i.unit for i in db.quantity_types[qt]]
        for v in units[:6] + units[-2:]:
            for ua, ub in ((u, v), (v, u)):
                ca, cb = _cat_for(ctx, rng, qt, ua), _cat_for(ctx, rng, qt, ub)
                if ca is None or cb is None:
                    continue
                for x in (1.0, -3.5, 120.0):
                    for tag, vb in _amounts(db, rng, qt, ua, ub, x):
                        out.append(_order_case(ctx, "scalar", (x, ua, ca), (vb, ub, cb), tag))
    ctx.notes["cases_on_rows_failing_wf"] = len(out)
    return out


def search(ctx):
    """equality pool first, then Fraction cases, then order cases; order cases of the documented input class
    `CLASS_FLUSH` (a finding of its own, see the module docstring) come last so that they do not hide a new defect"""
    quick = ctx.tier == "quick"
    yield from _xorder_cases(ctx, "search", 10 if quick else 40)
    yield from _eq_cases(ctx, "wide")
    yield from _stir_cases(ctx, STIR_PLAN[ctx.tier])
    yield from _ostir_cases(ctx, "search", *((6, 20, 30) if quick else (20, 100, 40)))
    yield from _frac_cases(ctx, "search", 10)
    late = []
    for c in _order_cases(ctx, "search", 40 if quick else 200, 3, all_types=not quick):
        if _flush_affects(c):
            late.append(c)
        else:
            yield c
    yield from late
