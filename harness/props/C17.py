"""C17 - the unit-system manager is a registry with exactly one current system.

Decided by: Barril/Props/C17.lean (invariant of `Mgr.step` over all histories, acceptance decision
theorems, exact notification log, rejected step = identity, ConvertToCurrent spec, GetNewId fresh).
Tie: histories (bounded-exhaustive to a depth + seeded random to depth 40) run on PRIVATE
`UnitSystemManager()` instances and on the model (`drv_mgr`, one history per line); after EVERY step
the result / error kind, the ordered registry with object identities, every UnitSystem object ever
created (id, caption, ordered mapping, read-only flag, "carries the manager's listener"), the object
`GetCurrent()` returns, the template and the callback log of that step are compared.

Python-side operations (`_t["ops"]`, JSON-able lists):
  ["template", pairs, slot]      SetTemplateUnitSystemByUnitsMapping(dict(pairs)); slot: pass the caller-owned dict `slot`
  ["add", id, pairs|None, ro, slot]   AddUnitSystem(id, id.upper(), mapping, ro)
  ["remove", id]                 RemoveUnitSystem(id)
  ["setcur", ref]                SetCurrent(ref)        ref = None | ["kept", id] | ["cur"]
  ["setdef", ref, cat, unit]     ref.SetDefaultUnit(cat, unit)
  ["rmcat", ref, cat]            ref.RemoveCategory(cat)
  ["getdef", ref, cat]           ref.GetDefaultUnit(cat)
  ["eq", ref, ref2]              ref == ref2
  ["mutslot", slot, cat, unit]   the caller edits its own dict (no call; nothing may change)
  ["conv", cat, unit, xhex] ["catdef", cat] ["qdef", cat, unit] ["sconv", cat, unit, xhex]
  ["newid"] ["byid", id] ["systems"] ["getcur"]
  ["reg", cat, unit]             o = ValueObject(cat, unit); Register(o)      (objects are numbered 0, 1, ... in this order)
  ["rereg", i]                   Register(object i) again
  ["kill", i]                    the caller drops its only reference to object i (weak-reference callbacks run)
  ["objunit", i, unit]           object i .unit = unit   (the caller's own assignment)
  ["update"]                     UpdateObjects()
  ["reset"]                      ResetInstance()
  ["obscur"] ["obsunit"]         on_current.Register(observer) / on_unit_changed.Register(observer)
  ["setcap", ref, caption]       ref.SetCaption(caption)
  ["setro", ref, flag]           ref.SetReadOnly(flag)
  ["eqother", ref]               ref == "not a unit system"
  ["setclass", ok]               SetDefaultUnitSystemClass(a subclass of UnitSystem that adds nothing  |  a class without the interface)
  ["excls", name, ids]           raise NoTemplateError() / InvalidTemplateError(ids)   (the module's error classes)
A value object is what the manager uses of an AbstractValueWithQuantityObject: GetCategory() and an ASSIGNABLE
attribute `unit` (barril's own Scalar/Array have a read-only `unit` property: UpdateObjects raises on them after the
state changed - finding C17-updateobjects-readonly-unit, kept out of the generators).
["kept", id] = the object returned by the last successful AddUnitSystem(id, ...) of the history
(possibly removed since); ["cur"] = the object GetCurrent() returns now (possibly the null system).
An operation whose reference does not exist yet is skipped on both sides."""
import itertools

from common import close, err_kind, exact, qparse, qstr, sym

ID = "C17"
LEAN_MODULES = ["Barril.Props.C17"]
DRIVERS = ["drv_mgr"]
DRIVER_EXE = "drv_mgr"
RULE = ("histories of calls on a private UnitSystemManager and on the UnitSystem objects it returned: "
        "bounded-exhaustive over a 23-call alphabet (2 ids, 2 categories; every sequence of 18 state-changing "
        "calls of length depth-1 followed by any call; depth 3 quick, depth 4 thorough) + seeded random "
        "histories of length <= 40 over 3 ids (+1 unknown) x categories length/depth/time (+'' and an "
        "unregistered one) x 3 units each (+ cross-type and unknown units), mappings given / omitted / "
        "caller-owned dicts shared between calls and edited later, templates before and after adds, "
        "SetCurrent(registered / removed / null-system object / None); value objects (categories as above, own units) "
        "registered once or twice, edited by the caller, dropped, UpdateObjects(), ResetInstance() and re-registration of "
        "the observers, SetCaption/SetReadOnly, == with a non-system, SetDefaultUnitSystemClass (a subclass that adds "
        "nothing / a class without the interface), the module's two error classes; a second bounded-exhaustive alphabet of 21 "
        "state-changing calls over objects/observers/flags (+4 queries; depth 3 quick, depth 4 thorough); "
        "distinct = distinct history; "
        "non-trivial = at least one accepted state-changing call")
EXHAUSTIVE = {"quick": True, "thorough": True}   # over the stated alphabet and depth; the random part is not
ASSUMPTIONS = [
    "oop_ext Callback semantics relied on by the manager (Register idempotent per bound method, Unregister of an "
    "absent method ignored, one call per registered function) are modelled as one 'listening' bit per system",
    "listeners of on_current/on_unit_changed only record; they do not call back into the manager",
    "registered value objects are harness objects with GetCategory() and an assignable attribute `unit` (not barril "
    "Scalars: their read-only `unit` makes UpdateObjects raise, reported finding); CPython reference counting runs the "
    "weak-reference callback as soon as the harness drops its only reference",
    "the order in which UpdateObjects visits the set of wraps does not matter (objects are independent)",
    "how many wraps a live object has in _object_refs is modelled (one per Register call) but only 'at least one' and "
    "'none of a dead object' are compared with the private set",
    "SetDefaultUnitSystemClass: the class of later systems is not part of the modelled state; the accepted class of the "
    "generators is a subclass of UnitSystem that adds nothing",
    "ConvertToCurrent float results stay within K*eps*M of the exact model (checked, not proved)",
    "ConvertScalarToCurrent: CreateCopy(unit=u) is modelled as 'u belongs to the quantity type of the category' "
    "(exact for non-legacy, non-<unknown> units, the only ones generated)",
]
FINDING_SITE = "SetCurrent with an unregistered system"

IDS = ["a", "b", "system 1"]
UNKNOWN_ID = "zz"
CATS = ["length", "depth", "time"]
UNITS = {"length": ["m", "cm", "km"], "depth": ["m", "cm", "km"], "time": ["s", "min", "h"]}
SLOT_INIT = [[["length", "m"]], [["length", "cm"], ["time", "s"], ["depth", "m"]]]
MUTATING = {"setclass", "template", "add", "remove", "setcur", "setdef", "rmcat", "reg", "rereg", "kill", "objunit", "update", "reset",
            "obscur", "obsunit", "setcap", "setro"}
OBJ_UNITS = ["mm", "ft", "ms"]
FINDING_SITE_RO = "UpdateObjects on an object whose unit cannot be assigned"


# ------------------------------------------------------------------------------------------ protocol
def _s(x):
    return str(sym(x))


def _pref(ref):
    if ref is None:
        return None
    if ref[0] == "kept":
        return {"kept": _s(ref[1])}
    return {"cur": True}


def _pmap(pairs):
    return None if pairs is None else [[_s(c), _s(u)] for c, u in pairs]


def _xq(xhex):
    return qstr(exact(float.fromhex(xhex)))


def proto(op):
    k = op[0]
    if k == "template":
        return dict(k=k, map=_pmap(op[1]))
    if k == "add":
        return dict(k=k, id=_s(op[1]), cap=_s(op[1].upper()), map=_pmap(op[2]), ro=bool(op[3]))
    if k in ("remove", "byid"):
        return dict(k=k, id=_s(op[1]))
    if k == "setcur":
        return dict(k=k, ref=_pref(op[1]))
    if k == "setdef":
        return dict(k=k, ref=_pref(op[1]), cat=_s(op[2]), unit=_s(op[3]))
    if k in ("rmcat", "getdef"):
        return dict(k=k, ref=_pref(op[1]), cat=_s(op[2]))
    if k == "eq":
        return dict(k=k, ref=_pref(op[1]), ref2=_pref(op[2]))
    if k == "mutslot":
        return dict(k="noop")
    if k in ("conv", "sconv"):
        return dict(k=k, cat=_s(op[1]), unit=_s(op[2]), x=_xq(op[3]))
    if k == "catdef":
        return dict(k=k, cat=_s(op[1]))
    if k == "qdef":
        return dict(k=k, cat=_s(op[1]), unit=_s(op[2]))
    if k in ("newid", "systems", "getcur", "update", "reset", "obscur", "obsunit", "excls"):
        return dict(k=k)
    if k == "reg":
        return dict(k=k, cat=_s(op[1]), unit=_s(op[2]))
    if k in ("rereg", "kill"):
        return dict(k=k, i=int(op[1]))
    if k == "objunit":
        return dict(k=k, i=int(op[1]), unit=_s(op[2]))
    if k == "setcap":
        return dict(k=k, ref=_pref(op[1]), cap=_s(op[2]))
    if k == "setro":
        return dict(k=k, ref=_pref(op[1]), ro=bool(op[2]))
    if k == "eqother":
        return dict(k=k, ref=_pref(op[1]))
    if k == "setclass":
        return dict(k=k, ok=bool(op[1]))
    raise ValueError(op)


def _fill_slots(ops):
    """mapping arguments that are a caller-owned dict: write down what the dict contains at that moment"""
    slots = [dict(map(tuple, p)) for p in SLOT_INIT]
    out = []
    for o in ops:
        o = list(o)
        if o[0] == "mutslot":
            slots[o[1]][o[2]] = o[3]
        elif o[0] == "template" and o[2] is not None:
            o[1] = [list(p) for p in slots[o[2]].items()]
        elif o[0] == "add" and o[4] is not None:
            o[2] = [list(p) for p in slots[o[4]].items()]
        out.append(o)
    return out


def _case(ops):
    ops = _fill_slots(ops)
    return dict(op="history", ops=[proto(o) for o in ops], _t=dict(ops=ops))


def model_line(c):
    return {k: v for k, v in c.items() if not k.startswith("_")}


def case_key(c):
    return c["_t"]["ops"]


def _fmt(op):
    k = op[0]

    def r(ref):
        return "None" if ref is None else ("kept[%r]" % ref[1] if ref[0] == "kept" else "GetCurrent()")

    def mp(pairs, slot):
        if pairs is None:
            return "None"
        return ("D%d=" % slot if slot is not None else "") + repr(dict(map(tuple, pairs)))

    if k == "template":
        return "SetTemplateUnitSystemByUnitsMapping(%s)" % mp(op[1], op[2])
    if k == "add":
        return "kept[%r] = AddUnitSystem(%r, %r, %s, read_only=%r)" % (op[1], op[1], op[1].upper(), mp(op[2], op[4]), bool(op[3]))
    if k == "remove":
        return "RemoveUnitSystem(%r)" % op[1]
    if k == "setcur":
        return "SetCurrent(%s)" % r(op[1])
    if k == "setdef":
        return "%s.SetDefaultUnit(%r, %r)" % (r(op[1]), op[2], op[3])
    if k == "rmcat":
        return "%s.RemoveCategory(%r)" % (r(op[1]), op[2])
    if k == "getdef":
        return "%s.GetDefaultUnit(%r)" % (r(op[1]), op[2])
    if k == "eq":
        return "%s == %s" % (r(op[1]), r(op[2]))
    if k == "mutslot":
        return "D%d[%r] = %r   (caller's own dict)" % (op[1], op[2], op[3])
    if k == "conv":
        return "ConvertToCurrent(%r, %r, %r)" % (op[1], op[2], float.fromhex(op[3]))
    if k == "sconv":
        return "ConvertScalarToCurrent(Scalar(%r, %r, %r))" % (float.fromhex(op[3]), op[2], op[1])
    if k == "catdef":
        return "GetCategoryDefaultUnit(%r)" % op[1]
    if k == "qdef":
        return "GetQuantityDefaultUnit(ObtainQuantity(%r, %r))" % (op[2], op[1])
    if k == "byid":
        return "GetUnitSystemById(%r)" % op[1]
    if k == "reg":
        return "obj[next] = ValueObject(category=%r, unit=%r); Register(obj[next])" % (op[1], op[2])
    if k == "rereg":
        return "Register(obj[%d])" % op[1]
    if k == "kill":
        return "del obj[%d]   (the caller's only reference)" % op[1]
    if k == "objunit":
        return "obj[%d].unit = %r   (caller's own assignment)" % (op[1], op[2])
    if k == "setcap":
        return "%s.SetCaption(%r)" % (r(op[1]), op[2])
    if k == "setro":
        return "%s.SetReadOnly(%r)" % (r(op[1]), bool(op[2]))
    if k == "eqother":
        return "%s == 'not a unit system'" % r(op[1])
    if k == "excls":
        return "raise %s(%s)" % (op[1], "" if op[2] is None else repr(op[2]))
    if k == "setclass":
        return "SetDefaultUnitSystemClass(%s)" % ("class Sub(UnitSystem): pass" if op[1] else "class NoInterface: pass")
    if k in ("update", "reset", "obscur", "obsunit"):
        return {"update": "UpdateObjects()", "reset": "ResetInstance()", "obscur": "on_current.Register(observer)",
                "obsunit": "on_unit_changed.Register(observer)"}[k]
    return {"newid": "GetNewId()", "systems": "GetUnitSystems()", "getcur": "GetCurrent()"}[k]


def show(c):
    return [_fmt(o) for o in c["_t"]["ops"]]


# ------------------------------------------------------------------------------------------ real code
_CLASSES = []


def _system_classes():
    """(a subclass of UnitSystem that adds nothing, a class that does not implement IUnitSystem)"""
    if not _CLASSES:
        from barril.units.unit_system import UnitSystem

        class SubUnitSystem(UnitSystem):
            pass

        class NoInterface:
            pass

        _CLASSES.extend([SubUnitSystem, NoInterface])
    return _CLASSES


class ValueObject:
    """What UnitSystemManager.Register/UpdateObjects use of a value object."""
    __slots__ = ("category", "unit", "__weakref__")

    def __init__(self, category, unit):
        self.category = category
        self.unit = unit

    def GetCategory(self):
        return self.category


class Session:
    """One private manager, the objects it handed out (allocation order) and the callback log."""

    def __init__(self):
        from barril.units.unit_system_manager import UnitSystemManager

        self.m = UnitSystemManager()
        self.log = []
        self.objs = [self.m.GetCurrent()]          # index 0: the null system
        self.kept = {}
        self.vobjs = []                            # value objects in registration order (None once dropped)
        self.vlast = []                            # [category, unit when last seen alive]
        self.slots = [dict(map(tuple, p)) for p in SLOT_INIT]
        self._cb1 = lambda s: self.log.append(["cur", s])      # resolved to an index after the call
        self._cb2 = lambda c, u: self.log.append(["unit", _s(c), None if u is None else _s(u)])
        self.m.on_current.Register(self._cb1)
        self.m.on_unit_changed.Register(self._cb2)

    def idx(self, o):
        for i, x in enumerate(self.objs):
            if x is o:
                return i
        return -1

    def events(self, start):
        """the callback log from position `start`, systems as allocation indices"""
        return [["cur", self.idx(e[1])] if e[0] == "cur" else e for e in self.log[start:]]

    def ref(self, ref):
        """-> (exists, object)"""
        if ref is None:
            return True, None
        if ref[0] == "kept":
            return (ref[1] in self.kept), self.kept.get(ref[1])
        return True, self.m.GetCurrent()

    def mapping_arg(self, pairs, slot):
        if pairs is None:
            return None
        if slot is not None:
            return self.slots[slot]
        return dict(map(tuple, pairs))

    def listening(self, o):
        f = getattr(self.m, "_CategoryUnitChange", None)
        if f is None:
            return None
        return bool(o.on_default_unit.Contains(f))

    def vobj(self, i):
        """-> the live value object number i, or None"""
        return self.vobjs[i] if 0 <= i < len(self.vobjs) else None

    def wraps(self):
        """per value object the number of wraps in the manager's private set, and the number of wraps whose
        referent is gone; (None, None) when the private attribute is not there"""
        refs = getattr(self.m, "_object_refs", None)
        if refs is None:
            return None, None
        try:
            targets = [w.ref() for w in list(refs)]
        except Exception:
            return None, None
        per = [sum(1 for t in targets if t is o) if o is not None else 0 for o in self.vobjs]
        dead = sum(1 for t in targets if t is None)
        del targets
        return per, dead

    def objects(self):
        per, dead = self.wraps()
        out = []
        for i, o in enumerate(self.vobjs):
            if o is not None:
                self.vlast[i][1] = o.unit
            out.append([_s(self.vlast[i][0]), _s(self.vlast[i][1]) if isinstance(self.vlast[i][1], str) else repr(self.vlast[i][1]),
                        o is not None, None if per is None else per[i]])
        return out, dead

    def observers(self):
        try:
            return [bool(self.m.on_current.Contains(self._cb1)), bool(self.m.on_unit_changed.Contains(self._cb2))]
        except Exception:
            return None

    def snapshot(self):
        m = self.m
        t = m.GetUnitSystemTemplate()
        objs, dead = self.objects()
        return dict(
            objs=objs, deadrefs=dead, obs=self.observers(),
            reg=[[_s(k), self.idx(v)] for k, v in m.GetUnitSystems().items()],
            heap=[[None if o.GetId() is None else _s(o.GetId()), _s(o.GetCaption()),
                   [[_s(c), _s(u)] for c, u in o.GetUnitsMapping().items()], bool(o.IsReadOnly()), self.listening(o)]
                  for o in self.objs],
            cur=self.idx(m.GetCurrent()),
            tmpl=None if t is None else [[_s(c), _s(u)] for c, u in t.GetUnitsMapping().items()])

    def call(self, op):
        """Execute one operation; returns the protocol result ({'ok':..} | {'err':..} | {'skip':True})."""
        from barril.units import ObtainQuantity, Scalar

        m, k = self.m, op[0]
        try:
            if k == "template":
                m.SetTemplateUnitSystemByUnitsMapping(self.mapping_arg(op[1], op[2]))
                return dict(ok=None)
            if k == "add":
                o = m.AddUnitSystem(op[1], op[1].upper(), self.mapping_arg(op[2], op[4]), bool(op[3]))
                if self.idx(o) < 0:
                    self.objs.append(o)
                self.kept[op[1]] = o
                return dict(ok=dict(ref=self.idx(o)))
            if k == "remove":
                m.RemoveUnitSystem(op[1])
                return dict(ok=None)
            if k == "setcur":
                ex, o = self.ref(op[1])
                if not ex:
                    return dict(skip=True)
                m.SetCurrent(o)
                return dict(ok=None)
            if k in ("setdef", "rmcat", "getdef"):
                ex, o = self.ref(op[1])
                if not ex:
                    return dict(skip=True)
                if k == "setdef":
                    o.SetDefaultUnit(op[2], op[3])
                    return dict(ok=None)
                if k == "rmcat":
                    o.RemoveCategory(op[2])
                    return dict(ok=None)
                u = o.GetDefaultUnit(op[2])
                return dict(ok=dict(unit=None if u is None else _s(u)))
            if k == "eq":
                e1, o1 = self.ref(op[1])
                e2, o2 = self.ref(op[2])
                if not (e1 and e2):
                    return dict(skip=True)
                return dict(ok=dict(bool=bool(o1 == o2)))
            if k == "mutslot":
                self.slots[op[1]][op[2]] = op[3]
                return dict(skip=True)
            if k == "conv":
                x = float.fromhex(op[3])
                v, u = m.ConvertToCurrent(op[1], op[2], x)
                return dict(ok=dict(x=float(v).hex(), unit=_s(u), same=(v is x or v == x)))
            if k == "sconv":
                x = float.fromhex(op[3])
                s = m.ConvertScalarToCurrent(Scalar(x, op[2], op[1]))
                return dict(ok=dict(x=float(s.GetValue()).hex(), unit=_s(s.GetUnit()), cat=_s(s.GetCategory())))
            if k == "catdef":
                u = m.GetCategoryDefaultUnit(op[1])
                return dict(ok=dict(unit=None if u is None else _s(u)))
            if k == "qdef":
                u = m.GetQuantityDefaultUnit(ObtainQuantity(op[2], op[1]))
                return dict(ok=dict(unit=None if u is None else _s(u)))
            if k == "newid":
                return dict(ok=dict(newid=_s(m.GetNewId())))
            if k == "byid":
                return dict(ok=dict(ref=self.idx(m.GetUnitSystemById(op[1]))))
            if k == "systems":
                return dict(ok=dict(systems=[[_s(i), self.idx(v)] for i, v in m.GetUnitSystems().items()]))
            if k == "getcur":
                return dict(ok=dict(ref=self.idx(m.GetCurrent())))
            if k == "reg":
                o = ValueObject(op[1], op[2])
                self.vobjs.append(o)
                self.vlast.append([op[1], op[2]])
                m.Register(o)
                return dict(ok=None)
            if k in ("rereg", "kill", "objunit"):
                o = self.vobj(op[1])
                if o is None:
                    return dict(skip=True)
                if k == "rereg":
                    m.Register(o)
                elif k == "objunit":
                    o.unit = op[2]
                else:
                    self.vlast[op[1]][1] = o.unit
                    self.vobjs[op[1]] = None
                    del o                           # the last reference: the weak-reference callbacks run here
                return dict(ok=None)
            if k == "update":
                m.UpdateObjects()
                return dict(ok=None)
            if k == "reset":
                m.ResetInstance()
                return dict(ok=None)
            if k == "obscur":
                m.on_current.Register(self._cb1)
                return dict(ok=None)
            if k == "obsunit":
                m.on_unit_changed.Register(self._cb2)
                return dict(ok=None)
            if k in ("setcap", "setro", "eqother"):
                ex, o = self.ref(op[1])
                if not ex:
                    return dict(skip=True)
                if k == "setcap":
                    o.SetCaption(op[2])
                    return dict(ok=None)
                if k == "setro":
                    o.SetReadOnly(bool(op[2]))
                    return dict(ok=None)
                return dict(ok=dict(bool=bool(o == "not a unit system")))
            if k == "setclass":
                m.SetDefaultUnitSystemClass(_system_classes()[0 if op[1] else 1])
                return dict(ok=None)
            if k == "excls":
                from barril.units import unit_system_manager as usm
                if op[1] == "NoTemplateError":
                    raise usm.NoTemplateError()
                if op[2] is None:
                    raise usm.InvalidTemplateError()
                raise usm.InvalidTemplateError(list(op[2]))
            return dict(err="other", detail="unknown op")
        except Exception as e:
            return dict(err=err_kind(e), detail=type(e).__name__)


def impl(c, ctx):
    try:
        s = Session()
        steps = []
        for op in c["_t"]["ops"]:
            n = len(s.log)
            r = s.call(op)
            try:
                snap = s.snapshot()
            except Exception as e:   # the public getters themselves broke
                snap = dict(broken=repr(e))
            steps.append(dict(r=r, ev=s.events(n), s=snap))
            k = op[0] + ("!" + r["err"] if "err" in r else ("~skip" if "skip" in r and op[0] != "mutslot" else ""))
            if op[0] == "excls":
                k = "excls:" + op[1] + ("()" if op[2] is None else "(%d ids)" % len(op[2]))
            ctx.notes.setdefault("step_kinds", {})
            ctx.notes["step_kinds"][k] = ctx.notes["step_kinds"].get(k, 0) + 1
        return dict(steps=steps)
    except Exception as e:
        return dict(err="other", detail=repr(e))


def _cmp_result(ri, rm):
    ki = "err" if "err" in ri else ("skip" if "skip" in ri else "ok")
    km = "err" if "err" in rm else ("skip" if "skip" in rm else "ok")
    if ki != km:
        return "outcome differs: impl=%s model=%s" % (ri, rm)
    if ki == "err":
        return None if ri["err"] == rm["err"] else "error kinds differ: impl=%s model=%s" % (ri["err"], rm["err"])
    if ki == "skip":
        return None
    a, b = ri["ok"], rm["ok"]
    if a is None or b is None:
        return None if a is None and b is None else "result differs: impl=%s model=%s" % (a, b)
    if "x" in a or "x" in b:
        if "x" not in a or "x" not in b:
            return "result differs: impl=%s model=%s" % (a, b)
        if a["unit"] != b["unit"] or a.get("cat") != b.get("cat"):
            return "unit/category of the converted value differ: impl=%s model=%s" % (a, b)
        r, y, mg = float.fromhex(a["x"]), qparse(b["x"]), qparse(b["M"])
        if exact(r) == y or close(r, y, mg):
            return None
        return "converted value %r is not within K*eps*M of the exact %s" % (r, float(y))
    if "newid" in a:
        return None if a["newid"] == b.get("newid") else "GetNewId differs: impl=%s model=%s" % (a, b)
    return None if a == b else "result differs: impl=%s model=%s" % (a, b)


def _cmp_snap(si, sm):
    if "broken" in si:
        return "the public getters raise: %s" % si["broken"]
    for f in ("reg", "cur", "tmpl"):
        if si[f] != sm[f]:
            return "%s differs: impl=%s model=%s" % (f, si[f], sm[f])
    if len(si["heap"]) != len(sm["heap"]):
        return "number of UnitSystem objects differs: impl=%d model=%d" % (len(si["heap"]), len(sm["heap"]))
    for i, (a, b) in enumerate(zip(si["heap"], sm["heap"])):
        if a[:4] != b[:4]:
            return "object %d differs (id, caption, mapping, read_only): impl=%s model=%s" % (i, a[:4], b[:4])
        if a[4] is not None and a[4] != b[4]:
            return "object %d: manager's listener registered: impl=%s model=%s" % (i, a[4], b[4])
    if len(si["objs"]) != len(sm["objs"]):
        return "number of value objects differs: impl=%d model=%d" % (len(si["objs"]), len(sm["objs"]))
    for i, (a, b) in enumerate(zip(si["objs"], sm["objs"])):
        if a[:3] != b[:3]:
            return "value object %d differs (category, unit, alive): impl=%s model=%s" % (i, a[:3], b[:3])
        if a[3] is not None and bool(a[3]) != bool(b[3]):     # how many wraps a live object has is not compared
            return "value object %d: referenced from _object_refs: impl=%s model=%s" % (i, a[3], b[3])
    if si["deadrefs"] is not None and si["deadrefs"] != sm["deadrefs"]:
        return "wraps of dead objects left in _object_refs: impl=%s model=%s" % (si["deadrefs"], sm["deadrefs"])
    if si["obs"] is not None and si["obs"] != sm["obs"]:
        return "observer registered on (on_current, on_unit_changed): impl=%s model=%s" % (si["obs"], sm["obs"])
    return None


def agree(c, io, mo, ctx):
    if "steps" not in io:
        return "the harness could not run the history on the real code: %s" % io
    if "steps" not in mo or len(mo["steps"]) != len(io["steps"]):
        return "model answered %s" % str(mo)[:200]
    for i, (a, b) in enumerate(zip(io["steps"], mo["steps"])):
        why = _cmp_result(a["r"], b["r"])
        if why is None and a["ev"] != b["ev"]:
            why = "callback log differs: impl=%s model=%s" % (a["ev"], b["ev"])
        if why is None:
            why = _cmp_snap(a["s"], b["s"])
        if why is not None:
            return "step %d (%s): %s" % (i, _fmt(c["_t"]["ops"][i]), why)
    return None


def nontrivial(c, io):
    return any(op[0] in MUTATING and "ok" in st["r"] for op, st in zip(c["_t"]["ops"], io.get("steps", [])))


# ------------------------------------------------------------------------------------------ generators
def _alphabet():
    A, B = "a", "system 1"
    mut = [
        ["add", A, None, False, None],
        ["add", A, [["length", "m"]], False, None],
        ["add", B, [["length", "cm"], ["time", "s"]], True, None],
        ["add", B, None, False, None],
        ["remove", A], ["remove", B], ["remove", UNKNOWN_ID],
        ["template", [["length", "m"]], None],
        ["template", [["length", "m"], ["time", "s"]], None],
        ["setcur", None], ["setcur", ["kept", A]], ["setcur", ["kept", B]], ["setcur", ["cur"]],
        ["setdef", ["kept", A], "length", "km"],
        ["setdef", ["kept", B], "time", "min"],
        ["setdef", ["cur"], "length", "cm"],
        ["rmcat", ["kept", A], "length"],
        ["rmcat", ["cur"], "time"],
    ]
    qry = [["conv", "length", "m", (1500.0).hex()], ["newid"], ["byid", A], ["catdef", "time"],
           ["sconv", "length", "km", (2.5).hex()]]
    return mut, qry


def _alphabet2():
    """value objects, observers, caption / read-only flag (with just enough manager calls to move the current system)"""
    A, B = "a", "system 1"
    mut = [
        ["add", A, [["length", "m"]], False, None],
        ["add", B, [["length", "cm"], ["time", "s"]], True, None],
        ["remove", A],
        ["setcur", None], ["setcur", ["kept", A]], ["setcur", ["kept", B]],
        ["setdef", ["cur"], "length", "km"],
        ["setdef", ["kept", B], "time", "min"],
        ["rmcat", ["cur"], "length"],
        ["reg", "length", "mm"], ["reg", "time", "ms"],
        ["rereg", 0], ["kill", 0], ["objunit", 0, "ft"], ["update"],
        ["reset"], ["obscur"], ["obsunit"],
        ["setcap", ["kept", A], "X"], ["setro", ["kept", A], True], ["setro", ["cur"], False],
    ]
    qry = [["eq", ["kept", A], ["kept", B]], ["eqother", ["cur"]], ["getcur"], ["catdef", "length"]]
    return mut, qry


def _exhaustive(depth, which=(1, 2)):
    for w in which:
        mut, qry = _alphabet() if w == 1 else _alphabet2()
        for pre in itertools.product(mut, repeat=depth - 1):
            for last in mut + qry:
                yield _case(list(pre) + [last])


def _rand_pairs(rng, full_bias=0.5):
    r = rng.random()
    if r < 0.12:
        return []
    if r < full_bias:
        return [[c, rng.choice(UNITS[c])] for c in CATS]
    cats = [c for c in CATS if rng.random() < 0.5] or [rng.choice(CATS)]
    rng.shuffle(cats)
    return [[c, rng.choice(UNITS[c])] for c in cats]


def _rand_cat(rng):
    r = rng.random()
    if r < 0.05:
        return ""
    if r < 0.10:
        return "no such category"
    return rng.choice(CATS)


def _rand_unit(rng, cat):
    r = rng.random()
    if r < 0.06:
        return "nope"
    if r < 0.14:
        return rng.choice(["s", "m", "kg"])
    return rng.choice(UNITS.get(cat, ["m", "s"]))


def _rand_ref(rng, p_cur=0.3):
    if rng.random() < p_cur:
        return ["cur"]
    return ["kept", rng.choice(IDS)]


def _rand_x(rng):
    return rng.choice([0.0, 1.0, -2.5, 1500.0, rng.uniform(-1e6, 1e6), 10.0 ** rng.uniform(-9, 9)]).hex()


def _random_history(rng, maxlen, unregistered=True):
    n = rng.randint(1, maxlen)
    slots = [dict(map(tuple, p)) for p in SLOT_INIT]      # the caller's dicts, tracked without barril
    ops = []
    registered = []                                        # only a bias for the choices below
    nobj, live = 0, []                                     # value objects created / still held (a bias as well)
    p_new = rng.choice([0.0, 0.25, 0.25, 0.5])             # share of the object / observer / flag calls in this history
    for _ in range(n):
        if rng.random() < p_new:
            q = rng.random()
            if q < 0.22:
                ops.append(["reg", _rand_cat(rng), rng.choice(OBJ_UNITS + ["m", "s"])])
                live.append(nobj)
                nobj += 1
            elif q < 0.30:
                ops.append(["rereg", rng.choice(live) if live and rng.random() < 0.8 else rng.randrange(nobj + 1)])
            elif q < 0.40:
                i = rng.choice(live) if live and rng.random() < 0.8 else rng.randrange(nobj + 1)
                ops.append(["kill", i])
                if i in live:
                    live.remove(i)
            elif q < 0.48:
                ops.append(["objunit", rng.choice(live) if live and rng.random() < 0.8 else rng.randrange(nobj + 1),
                            rng.choice(OBJ_UNITS)])
            elif q < 0.58:
                ops.append(["update"])
            elif q < 0.64:
                ops.append(["reset"])
            elif q < 0.71:
                ops.append(["obscur"])
            elif q < 0.78:
                ops.append(["obsunit"])
            elif q < 0.86:
                ops.append(["setcap", _rand_ref(rng), rng.choice(["A", "B", "X", ""])])
            elif q < 0.92:
                ops.append(["setro", _rand_ref(rng), rng.random() < 0.5])
            elif q < 0.94:
                ops.append(["setclass", rng.random() < 0.6])
            elif q < 0.97:
                ops.append(["eqother", _rand_ref(rng)])
            else:
                ops.append(["eq", _rand_ref(rng), _rand_ref(rng)])
            continue
        r = rng.random()
        if r < 0.20:
            i = rng.choice(IDS)
            q = rng.random()
            if q < 0.25:
                pairs, slot = None, None
            elif q < 0.50:
                slot = rng.randrange(2)
                pairs = [list(p) for p in slots[slot].items()]
            else:
                pairs, slot = _rand_pairs(rng), None
            ops.append(["add", i, pairs, rng.random() < 0.2, slot])
            if i not in registered:
                registered.append(i)
        elif r < 0.30:
            i = rng.choice(registered) if registered and rng.random() < 0.7 else rng.choice(IDS + [UNKNOWN_ID])
            ops.append(["remove", i])
            if i in registered:
                registered.remove(i)
        elif r < 0.38:
            if rng.random() < 0.3:
                slot = rng.randrange(2)
                ops.append(["template", [list(p) for p in slots[slot].items()], slot])
            else:
                ops.append(["template", _rand_pairs(rng, 0.25), None])
        elif r < 0.50:
            q = rng.random()
            if q < 0.2:
                ref = None
            elif q < 0.3 and unregistered:
                ref = ["cur"]
            elif unregistered or not registered:
                ref = ["kept", rng.choice(IDS)]
            else:
                ref = ["kept", rng.choice(registered)]
            if not unregistered and ref is not None and ref[1] not in registered:
                ref = None
            ops.append(["setcur", ref])
        elif r < 0.64:
            c = _rand_cat(rng)
            ops.append(["setdef", _rand_ref(rng), c, _rand_unit(rng, c)])
        elif r < 0.72:
            ops.append(["rmcat", _rand_ref(rng), _rand_cat(rng)])
        elif r < 0.76:
            c = rng.choice(CATS)
            s = rng.randrange(2)
            u = rng.choice(UNITS[c])
            slots[s][c] = u
            ops.append(["mutslot", s, c, u])
        elif r < 0.84:
            c = _rand_cat(rng)
            ops.append(["conv", c, _rand_unit(rng, c), _rand_x(rng)])
        elif r < 0.88:
            c = rng.choice(CATS)
            ops.append(["sconv", c, rng.choice(UNITS[c]), _rand_x(rng)])
        elif r < 0.91:
            c = rng.choice(CATS)
            ops.append(["qdef", c, rng.choice(UNITS[c])])
        elif r < 0.93:
            ops.append(["catdef", _rand_cat(rng)])
        elif r < 0.95:
            ops.append(["newid"])
        elif r < 0.96:
            ops.append(["byid", rng.choice(IDS + [UNKNOWN_ID])])
        elif r < 0.97:
            ops.append(["systems"])
        elif r < 0.98:
            ops.append(["getcur"])
        elif r < 0.99:
            ops.append(["getdef", _rand_ref(rng), _rand_cat(rng)])
        else:
            ops.append(["eq", _rand_ref(rng), _rand_ref(rng)])
    return _case(ops)


def _scripted():
    """short scripted histories for the branches a random walk reaches rarely"""
    A, B, C = IDS
    yield _case([["add", A, None, False, None], ["remove", A], ["setcur", ["kept", A]]])              # the finding
    yield _case([["add", A, None, False, None], ["remove", A], ["setcur", ["kept", A]],
                 ["add", A, [["length", "m"]], False, None], ["remove", A], ["getcur"]])              # id comparison in Remove
    yield _case([["add", A, [], False, 0], ["add", B, [], False, 0], ["mutslot", 0, "length", "km"],
                 ["setdef", ["kept", B], "length", "cm"], ["getdef", ["kept", A], "length"]])         # shared dict: no alias
    yield _case([["template", [], 1], ["mutslot", 1, "time", "h"], ["add", A, None, False, None],
                 ["setdef", ["kept", A], "time", "min"], ["add", B, None, False, None]])              # template is a copy
    yield _case([["setcur", ["cur"]], ["add", A, None, False, None], ["setdef", ["cur"], "length", "m"],
                 ["conv", "length", "km", (1.0).hex()], ["setcur", None], ["add", B, None, False, None]])  # null object as current
    yield _case([["add", A, None, False, None], ["add", B, None, False, None], ["add", "system 2", None, False, None],
                 ["add", C, None, False, None], ["newid"], ["remove", C], ["newid"]])
    yield _case([["add", A, [["length", "m"]], False, None], ["template", [["length", "m"]], None],
                 ["rmcat", ["kept", A], "length"], ["template", [["length", "m"]], None],
                 ["add", B, [["time", "s"]], False, None], ["add", B, None, False, None], ["eq", ["kept", A], ["kept", B]]])
    yield _case([["add", A, [["length", "m"], ["time", "s"]], False, None], ["add", B, [["time", "s"], ["length", "m"]], False, None],
                 ["eq", ["kept", A], ["kept", B]], ["eq", ["kept", A], ["kept", A]], ["eq", ["cur"], ["kept", A]]])
    # the module's error classes (no call of the manager raises NoTemplateError or an InvalidTemplateError without ids)
    yield _case([["excls", "NoTemplateError", None], ["excls", "InvalidTemplateError", None],
                 ["excls", "InvalidTemplateError", []], ["excls", "InvalidTemplateError", ["a", None]]])
    # objects registered before any system exists follow the first system; a default-unit change reaches them only
    # at the next UpdateObjects / SetCurrent; a dead object is left alone
    yield _case([["reg", "length", "mm"], ["reg", "time", "ms"], ["reg", "", "ft"], ["reg", "no such category", "ft"],
                 ["add", A, [["length", "m"]], False, None], ["setdef", ["cur"], "length", "km"], ["update"],
                 ["reg", "length", "mm"], ["kill", 0], ["setdef", ["cur"], "time", "h"], ["setcur", ["cur"]],
                 ["add", B, [["length", "cm"]], False, None], ["setcur", ["kept", B]], ["setcur", None],
                 ["objunit", 4, "ft"], ["remove", B], ["remove", A], ["update"]])
    # one object, two wraps; both leave when it dies; Register brings the object to the current system each time
    yield _case([["add", A, [["length", "m"]], False, None], ["reg", "length", "mm"], ["objunit", 0, "ft"], ["rereg", 0],
                 ["rereg", 0], ["objunit", 0, "ft"], ["kill", 0], ["rereg", 0], ["objunit", 0, "mm"], ["kill", 0], ["update"]])
    # the null system holds a default while none is current: objects are not touched
    yield _case([["setdef", ["cur"], "length", "km"], ["reg", "length", "mm"], ["update"], ["setcur", None], ["setcur", ["cur"]],
                 ["update"], ["reg", "length", "ft"]])
    # ResetInstance: the observers are gone, the manager's own listener on the current system is not
    yield _case([["add", A, [["length", "m"]], False, None], ["reset"], ["setdef", ["cur"], "length", "km"], ["setcur", None],
                 ["obscur"], ["setcur", ["kept", A]], ["setdef", ["cur"], "length", "cm"], ["obsunit"], ["obsunit"],
                 ["setdef", ["cur"], "length", "m"], ["rmcat", ["cur"], "length"], ["reset"], ["reset"], ["obsunit"],
                 ["setdef", ["kept", A], "time", "s"], ["remove", A]])
    # the class of new systems: one that lacks the interface is refused; a subclass that adds nothing changes nothing
    yield _case([["setclass", False], ["add", A, [["length", "m"]], False, None], ["setclass", True], ["setclass", False],
                 ["add", B, [["length", "m"]], False, None], ["template", [["length", "m"]], None], ["add", C, None, True, None],
                 ["eq", ["kept", A], ["kept", B]], ["setcur", ["kept", C]], ["setdef", ["cur"], "length", "km"], ["remove", C]])
    # caption / read-only flag: stored, compared by ==, enforced by nothing
    yield _case([["add", A, [["length", "m"]], True, None], ["add", B, [["length", "m"]], True, None], ["eq", ["kept", A], ["kept", B]],
                 ["setcap", ["kept", B], "A"], ["eq", ["kept", A], ["kept", B]], ["setro", ["kept", B], False],
                 ["eq", ["kept", A], ["kept", B]], ["setdef", ["kept", A], "length", "km"], ["rmcat", ["kept", A], "length"],
                 ["setro", ["kept", A], False], ["setcap", ["kept", A], ""], ["eqother", ["kept", A]], ["setcur", None],
                 ["setro", ["cur"], False], ["setcap", ["cur"], "nil"], ["eqother", ["cur"]], ["eq", ["cur"], ["cur"]]])


def setup(ctx):
    ctx.notes["step_kinds"] = {}


def cases(ctx):
    quick = ctx.tier == "quick"
    yield from _scripted()
    depth = 3 if quick else 4
    n = 0
    for c in _exhaustive(depth):
        n += 1
        yield c
    ctx.notes["exhaustive_depth"] = depth
    ctx.notes["exhaustive_histories"] = n
    rng = ctx.fresh_rng("C17rand")
    nr = 1500 if quick else 6000
    for _ in range(nr):
        yield _random_history(rng, 40)
    ctx.notes["random_histories"] = nr


# ------------------------------------------------------------- the property itself, on the real code only
class _Ref:
    """Reference model written from the property text (not from the code, not from the Lean model)."""

    def __init__(self):
        self.maps = [{}]            # per object index: its mapping (0 = the null system)
        self.ids = [None]
        self.reg = []               # ordered list of (id, object index)
        self.cur = None             # object index or None
        self.tmpl = None
        self.meta = [(None, "Null", True)]     # per object index: (id, caption, read-only flag)
        self.objs = []              # value objects: dict(cat, unit, alive, alt) - alt: a second acceptable unit
        self.obs = [True, True]     # the observer is registered on on_current / on_unit_changed

    def bring(self, ob, alt_old=False):
        """the manager brings a value object to the current system"""
        if self.cur is None or not ob["alive"]:
            return
        d = self.maps[self.cur].get(ob["cat"]) if ob["cat"] else None
        if d is not None:
            if alt_old:
                ob["alt"] = ob["unit"]
            ob["unit"] = d

    def bring_all(self, alt_old=False):
        for ob in self.objs:
            self.bring(ob, alt_old)

    def registered(self, i):
        return any(o == i for _k, o in self.reg)

    def lookup(self, ident):
        for k, o in self.reg:
            if k == ident:
                return o
        return None

    def current_map(self):
        return self.maps[self.cur] if self.cur is not None else self.maps[0]


def _observe(s):
    m = s.m
    t = m.GetUnitSystemTemplate()
    return dict(reg=[(k, s.idx(v)) for k, v in m.GetUnitSystems().items()],
                maps=[dict(o.GetUnitsMapping()) for o in s.objs],
                order=[list(o.GetUnitsMapping()) for o in s.objs],
                cur=s.idx(m.GetCurrent()),
                tmpl=None if t is None else dict(t.GetUnitsMapping()),
                meta=[(o.GetId(), o.GetCaption(), bool(o.IsReadOnly())) for o in s.objs],
                objs=[(s.vlast[i][0], o.unit if o is not None else s.vlast[i][1], o is not None) for i, o in enumerate(s.vobjs)],
                nlog=len(s.log))


def _fail(i, op, clause, **kw):
    d = dict(step=i, call=_fmt(op), clause=clause)
    d.update(kw)
    return d


def oracle(c, ctx):
    """Runs the history on a private manager next to the reference model; first violated clause or None."""
    from barril.units import UnitDatabase

    ops = c["_t"]["ops"]
    try:
        s = Session()
    except Exception as e:
        return dict(clause="UnitSystemManager() raised", error=repr(e))
    R = _Ref()
    db = UnitDatabase.GetSingleton()
    for i, op in enumerate(ops):
        k = op[0]
        before = _observe(s)
        nlog = len(s.log)
        # ---- what the property requires of this call (decided before the call, on the reference state)
        reject = False             # the call must be rejected
        expect = [[]]              # acceptable callback logs of this step
        want = None                # required result (queries)
        skip = False
        unregistered_arg = False
        if k == "add":
            ident, pairs = op[1], op[2]
            if R.lookup(ident) is not None:
                reject = True
            elif R.tmpl is not None and pairs is not None and not set(p[0] for p in pairs) >= set(R.tmpl):
                reject = True
        elif k == "remove":
            reject = R.lookup(op[1]) is None
        elif k == "template":
            keys = set(p[0] for p in op[1])
            reject = any(not set(R.maps[o]) >= keys for _k, o in R.reg)
        elif k in ("setcur", "setdef", "rmcat", "getdef", "eq"):
            ex, o = s.ref(op[1])
            if k == "eq":
                ex = ex and s.ref(op[2])[0]
            if not ex:
                skip = True
            elif k == "setcur" and o is not None and not R.registered(s.idx(o)):
                unregistered_arg = True
        elif k == "byid":
            reject = R.lookup(op[1]) is None
        elif k in ("rereg", "kill", "objunit"):
            skip = s.vobj(op[1]) is None
        elif k in ("setcap", "setro", "eqother"):
            skip = not s.ref(op[1])[0]
        elif k == "setclass":
            reject = not op[1]
        elif k == "excls":
            r = s.call(op)
            if r.get("err") != "runtime":
                return _fail(i, op, "NoTemplateError and InvalidTemplateError are RuntimeErrors that can be raised",
                             observed=r)
            continue
        obs_before = list(R.obs)
        if k == "conv" or k == "sconv":
            cat, unit, x = op[1], op[2], float.fromhex(op[3])
            tu = R.current_map().get(cat) if cat else None
            if tu is None:
                want = (x, unit)
            else:
                try:
                    want = (db.Convert(cat, unit, tu, x), tu)
                except Exception:
                    reject = True
        # ---- the call
        ref_obj = s.ref(op[1])[1] if k in ("setcur", "setdef", "rmcat", "getdef", "setcap", "setro") and not skip else None
        eq_objs = [s.idx(s.ref(op[j])[1]) for j in (1, 2)] if k == "eq" and not skip else None
        r = s.call(op)
        after = _observe(s)
        new = s.events(nlog)
        if skip or k == "mutslot":
            if {x: after[x] for x in after} != {x: before[x] for x in before}:
                return _fail(i, op, "an edit of the caller's own dict changed the manager", before=before, after=after)
            continue
        failed = "err" in r
        if unregistered_arg:
            if not failed:
                return _fail(i, op, "the current system is a registered system or the null system",
                             call_site=FINDING_SITE, unregistered_argument=True,
                             observed="SetCurrent accepted a system that is not registered; GetCurrent().GetId()=%r, registered ids=%r"
                                      % (s.m.GetCurrent().GetId(), [k_ for k_, _ in after["reg"]]),
                             required="rejected, or the current system stays registered / null")
            if after != before:
                return _fail(i, op, "a rejected call changes nothing", before=before, after=after)
            continue
        if failed != reject:
            return _fail(i, op, "acceptance: the call must be %s" % ("rejected" if reject else "accepted"),
                         observed=r, template=R.tmpl, registered=[k_ for k_, _ in R.reg])
        if failed:
            if after != before:
                return _fail(i, op, "a rejected call changes nothing", error=r, before=before, after=after)
            continue
        # ---- accepted: advance the reference model
        if k == "add":
            ident, pairs = op[1], op[2]
            R.maps.append(dict(R.tmpl) if (pairs is None and R.tmpl is not None) else dict(map(tuple, pairs or [])))
            R.ids.append(ident)
            o = len(R.maps) - 1
            R.reg.append((ident, o))
            R.meta.append((ident, ident.upper(), bool(op[3])))
            if R.cur is None:
                R.cur = o
                expect = [[["cur", o]]]
                R.bring_all()
            if r["ok"]["ref"] != o:
                return _fail(i, op, "AddUnitSystem returns the new system", observed=r)
        elif k == "remove":
            o = R.lookup(op[1])
            R.reg = [(k_, o_) for k_, o_ in R.reg if k_ != op[1]]
            if R.cur == o:
                # "removing the current one selects another or none": WHICH other one is not prescribed
                if R.reg and any(o_ == after["cur"] for _k, o_ in R.reg):
                    R.cur = after["cur"]
                else:
                    R.cur = R.reg[0][1] if R.reg else None
                expect = [[["cur", R.cur if R.cur is not None else 0]]]
                R.bring_all()
        elif k == "template":
            R.tmpl = dict(map(tuple, op[1]))
        elif k == "setcur":
            o = None if ref_obj is None else s.idx(ref_obj)
            same = (o == R.cur)
            R.cur = o
            expect = [[["cur", o if o is not None else 0]]]
            if same:
                expect.append([])       # re-selecting the current system: the text does not say (don't care)
            R.bring_all(alt_old=same)
        elif k == "setdef":
            o = s.idx(ref_obj)
            R.maps[o][op[2]] = op[3]
            if R.cur == o:
                expect = [[["unit", _s(op[2]), _s(op[3])]]]
                # Register's docstring promises that the objects follow; the code waits for the next UpdateObjects:
                # either is accepted
                for ob in R.objs:
                    if ob["alive"] and ob["cat"] and ob["cat"] == op[2]:
                        ob["alt"] = op[3]
            elif R.cur is None and o == 0:
                expect = [[], [["unit", _s(op[2]), _s(op[3])]]]   # the null system while none is current: don't care
        elif k == "rmcat":
            o = s.idx(ref_obj)
            if op[2] in R.maps[o]:
                del R.maps[o][op[2]]
                if R.cur == o:
                    expect = [[["unit", _s(op[2]), None]]]
                elif R.cur is None and o == 0:
                    expect = [[], [["unit", _s(op[2]), None]]]
        elif k == "getdef":
            o = s.idx(ref_obj)
            w = R.maps[o].get(op[2]) if op[2] else None
            if r["ok"]["unit"] != (None if w is None else _s(w)):
                return _fail(i, op, "GetDefaultUnit", observed=r, required=w)
        elif k in ("conv", "sconv"):
            got = float.fromhex(r["ok"]["x"])
            tol = 1e-12 * max(abs(got), abs(want[0])) + 1e-300
            if r["ok"]["unit"] != _s(want[1]) or not abs(got - want[0]) <= tol:
                return _fail(i, op, "ConvertToCurrent re-expresses the amount in the current default unit of the "
                                    "category (unchanged when there is none)",
                             observed=(got, r["ok"]["unit"]), required=(want[0], want[1], _s(want[1])))
            if k == "sconv" and r["ok"]["cat"] != _s(op[1]):
                return _fail(i, op, "ConvertScalarToCurrent keeps the category", observed=r["ok"])
        elif k == "catdef":
            w = R.current_map().get(op[1]) if op[1] else None
            if r["ok"]["unit"] != (None if w is None else _s(w)):
                return _fail(i, op, "GetCategoryDefaultUnit", observed=r, required=w)
        elif k == "qdef":
            w = R.current_map().get(op[1]) or op[2]
            if r["ok"]["unit"] != _s(w):
                return _fail(i, op, "GetQuantityDefaultUnit", observed=r, required=w)
        elif k == "newid":
            if any(_s(k_) == r["ok"]["newid"] for k_, _ in R.reg):
                return _fail(i, op, "GetNewId returns an id that is not in use", observed=r)
        elif k == "byid":
            if r["ok"]["ref"] != R.lookup(op[1]):
                return _fail(i, op, "GetUnitSystemById returns the registered system", observed=r)
        elif k == "getcur":
            if r["ok"]["ref"] != (R.cur if R.cur is not None else 0):
                return _fail(i, op, "GetCurrent returns the current system or the null system", observed=r)
        elif k == "reg":
            R.objs.append(dict(cat=op[1], unit=op[2], alive=True, alt=None))
            R.bring(R.objs[-1])
        elif k == "rereg":
            R.bring(R.objs[op[1]])
        elif k == "kill":
            R.objs[op[1]]["alive"] = False
        elif k == "objunit":
            R.objs[op[1]]["unit"] = op[2]
        elif k == "update":
            R.bring_all()
        elif k == "reset":
            R.obs = [False, False]
        elif k == "obscur":
            R.obs[0] = True
        elif k == "obsunit":
            R.obs[1] = True
        elif k == "setcap":
            o = s.idx(ref_obj)
            R.meta[o] = (R.meta[o][0], op[2], R.meta[o][2])
        elif k == "setro":
            o = s.idx(ref_obj)
            R.meta[o] = (R.meta[o][0], R.meta[o][1], bool(op[2]))
        elif k == "eq":
            a_, b_ = eq_objs
            w = R.meta[a_] == R.meta[b_] and R.maps[a_] == R.maps[b_]
            if r["ok"]["bool"] != w:
                return _fail(i, op, "two unit systems are equal exactly when id, caption, default units and read-only "
                                    "flag are equal", observed=r, required=w)
        elif k == "eqother":
            if r["ok"]["bool"]:
                return _fail(i, op, "a unit system is not equal to something that is no unit system", observed=r)
        # ---- state and log after an accepted call
        expect = [[e for e in lg if obs_before[0 if e[0] == "cur" else 1]] for lg in expect]
        if new not in expect:
            return _fail(i, op, "listeners are notified exactly for changes of the current system and for "
                                "default-unit changes made to the current system",
                         observed_log=new, required_log=expect[0])
        if after["reg"] != R.reg:
            return _fail(i, op, "registry (ordered ids and their systems)", observed=after["reg"], required=R.reg)
        if len(set(k_ for k_, _ in after["reg"])) != len(after["reg"]) or any(
                s.objs[o].GetId() != k_ for k_, o in after["reg"] if o >= 0):
            return _fail(i, op, "ids are unique and each system is registered under its own id", observed=after["reg"])
        if after["cur"] != (R.cur if R.cur is not None else 0):
            return _fail(i, op, "current system (added while none is current -> current; removing the current one "
                                "selects another or none)", observed=after["cur"], required=R.cur)
        if after["cur"] != 0 and not any(o == after["cur"] for _k, o in after["reg"]):
            return _fail(i, op, "the current system is a registered system or the null system", observed=after["cur"])
        if after["maps"] != R.maps:
            return _fail(i, op, "default units of every system (a change to one system must not change another)",
                         observed=after["maps"], required=R.maps)
        if after["tmpl"] != R.tmpl:
            return _fail(i, op, "template", observed=after["tmpl"], required=R.tmpl)
        if after["meta"] != R.meta:
            return _fail(i, op, "id, caption and read-only flag of every system (SetCaption / SetReadOnly change one "
                                "field of one system)", observed=after["meta"], required=R.meta)
        if len(after["objs"]) != len(R.objs):
            return _fail(i, op, "registered value objects", observed=after["objs"])
        for j, (got, ob) in enumerate(zip(after["objs"], R.objs)):
            ok_units = [ob["unit"]] + ([ob["alt"]] if ob["alt"] is not None else [])
            if got[0] != ob["cat"] or got[2] != ob["alive"] or got[1] not in ok_units:
                return _fail(i, op, "registered objects follow the current system: Register, UpdateObjects and every "
                                    "selection of a current system give each live object the current default unit of its "
                                    "category (if there is one); nothing else changes an object",
                             object=j, observed=list(got), required=dict(category=ob["cat"], unit=ok_units, alive=ob["alive"]))
            ob["unit"], ob["alt"] = got[1], None
        dead = s.wraps()[1]
        if dead:
            return _fail(i, op, "an object that died is dropped from the manager's set of registered objects",
                         observed="%d weak reference(s) to dead objects are still kept" % dead)
    return None


def search(ctx):
    yield from _scripted()
    rng = ctx.fresh_rng("C17search")
    # mostly histories that never hand an unregistered system to SetCurrent (those stop at the known finding)
    for j in range(3000 if ctx.tier == "quick" else 30000):
        yield _random_history(rng, 12 if j % 2 else 30, unregistered=(j % 10 == 0))
    yield from _exhaustive(3)


def shrink(case, failure, ctx):
    """drop calls while the same clause still fails"""
    ops = [list(o) for o in case["_t"]["ops"]][: failure.get("step", len(case["_t"]["ops"]) - 1) + 1]
    best, bf = _case(ops), oracle(_case(ops), ctx)
    if not bf or bf.get("clause") != failure.get("clause"):
        return case, failure
    changed = True
    while changed:
        changed = False
        for j in range(len(ops) - 1, -1, -1):
            trial = ops[:j] + ops[j + 1:]
            if not trial:
                continue
            f = oracle(_case(trial), ctx)
            if f and f.get("clause") == bf.get("clause") and f.get("call_site") == bf.get("call_site"):
                ops, bf, best, changed = trial, f, _case(trial), True
    best["_shown"] = show(best)
    return best, bf


# ------------------------------------------------------------------------------------------ known finding
def _replay_readonly_unit():
    """Register(Scalar(1.0, 'm', 'length')); AddUnitSystem('a', 'A', {'length': 'km'}) raises AttributeError (the
    `unit` property of barril's value objects has no setter) AFTER the system was registered, made current and
    announced.  Run directly on the real code: the generators never register such an object."""
    from barril.units import Scalar
    from barril.units.unit_system_manager import UnitSystemManager

    m = UnitSystemManager()
    announced = []
    m.on_current.Register(lambda system: announced.append(system.GetId()))
    scalar = Scalar(1.0, "m", "length")
    m.Register(scalar)
    try:
        m.AddUnitSystem("a", "A", {"length": "km"})
    except Exception as e:
        if list(m.GetUnitSystems()) or m.GetCurrent().GetId() is not None or announced:
            return dict(clause="a rejected call changes nothing", call_site=FINDING_SITE_RO,
                        call="Register(Scalar(1.0, 'm', 'length')); AddUnitSystem('a', 'A', {'length': 'km'})",
                        error=repr(e), registered=list(m.GetUnitSystems()), current=m.GetCurrent().GetId(),
                        on_current=announced, unit_of_the_scalar=scalar.GetUnit())
    return None


def matches_known(entry, case, failure):
    """Excuses exactly: the first violated clause is at a SetCurrent call whose argument is a system that
    is not registered at that moment.  (The second finding, FINDING_SITE_RO, needs an object whose `unit` cannot be
    assigned; no generated history registers one, so no generated failure matches it.)"""
    site = (entry.get("matcher") or {}).get("call_site")
    if site != FINDING_SITE or not isinstance(failure, dict):
        return False
    if failure.get("call_site") != FINDING_SITE or not failure.get("unregistered_argument"):
        return False
    ops = case["_t"]["ops"]
    i = failure.get("step", -1)
    return 0 <= i < len(ops) and ops[i][0] == "setcur" and ops[i][1] is not None


def replay_finding(entry, ctx):
    """add 'a'; remove 'a'; SetCurrent(the removed system)  (the witness of
    `setCurrent_unregistered_counterexample`)"""
    if (entry.get("matcher") or {}).get("call_site") == FINDING_SITE_RO:
        return _replay_readonly_unit()
    c = _case([["add", "a", None, False, None], ["remove", "a"], ["setcur", ["kept", "a"]]])
    f = oracle(c, ctx)
    return f if (f and matches_known(entry, c, f)) else None
