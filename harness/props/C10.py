"""C10 - Array results equal elementwise Scalar results for every container kind.

Decided by Barril/Props/C10.lean over the model Barril/Model/Ops.lean (`Array._DoOperation`: length check,
vectorised branch, per-element branch, result container; `_ValueGenerator`; `Scalar._DoOperation`;
`Array.FromScalars`; `GetValues`).  Tie: Array x Array over all nine container combinations, five operators,
lengths 0..6 (equal and different), Scalar x Scalar on the same quantity pairs, FromScalars + indexing and
GetValues / GetValue, on the real code and on the model (`drv_ops`)."""
import math
from fractions import Fraction

import _ops_common as oc
from _ops_common import model_line, show  # noqa: F401
from common import err_kind, qparse, qstr, sym

ID = "C10"
LEAN_MODULES = ["Barril.Props.C10"]
DRIVERS = ["drv_ops"]
DRIVER_EXE = "drv_ops"
RULE = ("pairs of quantities of the default POSC database (identical; one quantity type with two units; two categories of "
        "one type; different types; derived normal/twin/mixed/zero-exponent; derived operands holding offset units (degC, degF, "
        "psig ...) at exponent 1 and != 1 against other units of the type; simple offset-unit operands; the empty quantity) x 3x3 container kinds x "
        "{+,-,*,/,//} x lengths 0..6, plus pairs of different lengths (0/1/n against m), int and float elements, zero "
        "divisors in float slots; Scalar op Scalar on the same pairs; Array.FromScalars (same unit, mixed units, foreign "
        "types, empty) followed by indexing every position; Array.GetValues / Scalar.GetValue to every kind of target "
        "unit.  distinct = distinct (operation, operands); non-trivial = the real code returned a result")
EXHAUSTIVE = {"quick": False, "thorough": False}
ASSUMPTIONS = [
    "float results stay within 4*K*eps*M of the exact model (K=64): checked, not proved",
    "a non-finite numpy result (division by zero) is canonicalised to the error class `other`",
    "a quotient that is an integer up to float rounding may floor to either neighbour (don't care)",
    "the quantity algebra of two derived operands (unit matching) is engine Alg's subject (C03/C04); the C10 theorems "
    "hold for ANY quantity operation because Scalar and Array call the same database function",
    "FromScalars / GetValues are modelled for simple (not derived) quantities",
]


def setup(ctx):
    oc.setup_pools(ctx)


# ------------------------------------------------------------------------------------------ generators
def _pairs(ctx, rng, n):
    """quantity pairs by relation"""
    out = []
    for i in range(n):
        r = i % 11
        q1 = oc.simple_q(ctx, rng)
        c, u, _ = q1[0]
        qt = ctx.db.GetCategoryQuantityType(c)
        if r == 0:
            q2 = [list(q1[0])]
        elif r in (1, 2):
            q2 = [[c, rng.choice(ctx.units[qt]), 1]]
        elif r == 3:
            q2 = [[rng.choice(ctx.cats[qt]), rng.choice(ctx.units[qt]), 1]]
        elif r == 4:
            q2 = oc.simple_q(ctx, rng)
        elif r == 5:
            q1 = oc.derived_q(ctx, rng, "normal")
            q2 = [list(e) for e in q1] if rng.random() < 0.5 else oc.derived_q(ctx, rng, "normal")
        elif r == 6:
            q1 = oc.derived_q(ctx, rng)
            q2 = oc.simple_q(ctx, rng) if rng.random() < 0.5 else oc.derived_q(ctx, rng)
        elif r == 7:
            q1 = oc.derived_q(ctx, rng, "normal")
            # the same dimension written with other units
            q2 = [[cc, rng.choice(ctx.units[ctx.db.GetCategoryQuantityType(cc)]), e] for cc, _u, e in q1]
        elif r in (8, 9):
            # derived operands holding a unit with an offset (degC, degF, psig ...) at exponent 1 or another one,
            # the other operand with another unit of that type: scaled, never shifted (repair 1e63d4c)
            q1 = oc.affine_q(ctx, rng, mixed=(r == 9 and rng.random() < 0.3))
            q2 = oc.other_units(ctx, rng, q1)
            if rng.random() < 0.3:
                q1, q2 = q2, q1
        else:
            # simple operands of a type with offset units: the plain conversion (shifted)
            qt = rng.choice(ctx.affine_qtypes)
            cc = rng.choice(ctx.cats[qt])
            q1 = [[cc, rng.choice(ctx.units[qt]), 1]]
            q2 = oc.other_units(ctx, rng, q1)
        out.append((q1, q2))
    out += [([], []), (oc.simple_q(ctx, rng), []), ([], oc.simple_q(ctx, rng))]  # the empty quantity
    return [(a, b) for a, b in out if oc.buildable(oc.scalar_spec(a, 1.0)) and oc.buildable(oc.scalar_spec(b, 1.0))]


def _vals(rng, n, f, divisor):
    ints = rng.random() < 0.2
    nonzero = ints or (divisor and f in ("div", "floordiv") and rng.random() < 0.97)
    return oc.rand_values(rng, n, nonzero, ints), ints


def _gen_binops(ctx, rng, npairs, lengths, n_mismatch):
    for q1, q2 in _pairs(ctx, rng, npairs):
        for f in oc.OPS:
            # the Scalar operator on this pair
            yield oc.binop_case(f, oc.scalar_spec(q1, oc.rand_value(rng)),
                                oc.scalar_spec(q2, oc.rand_value(rng, nonzero=rng.random() < 0.97)))
            for k1 in oc.KINDS:
                for k2 in oc.KINDS:
                    for n in lengths:
                        xs, i1 = _vals(rng, n, f, False)
                        ys, i2 = _vals(rng, n, f, True)
                        yield oc.binop_case(f, oc.array_spec(q1, k1, xs, i1), oc.array_spec(q2, k2, ys, i2))
            for _ in range(n_mismatch):
                k1, k2 = rng.choice(oc.KINDS), rng.choice(oc.KINDS)
                n = rng.choice([0, 1, 1, 2, 3, 5])
                m = rng.choice([x for x in (0, 1, 2, 3, 4, 6) if x != n])
                xs, i1 = _vals(rng, n, f, False)
                ys, i2 = _vals(rng, m, f, True)
                yield oc.binop_case(f, oc.array_spec(q1, k1, xs, i1), oc.array_spec(q2, k2, ys, i2))


def _simple(c, u, v):
    return dict(c=c, u=u, x=float(v).hex())


def _enc_simple(s):
    return dict(c=str(sym(s["c"])), u=str(sym(s["u"])), v=qstr(oc.exact_of(s["x"])))


def _gen_fromscalars(ctx, rng, n):
    yield dict(op="fromscalars", ss=[], _t=dict(ss=[]))
    for i in range(n):
        c, u, _ = oc.simple_q(ctx, rng)[0]
        qt = ctx.db.GetCategoryQuantityType(c)
        ss = []
        for j in range(rng.choice([1, 2, 3, 4, 6])):
            r = rng.random()
            if i % 3 == 0 or j == 0 and r < 0.5:
                ss.append(_simple(c, u, oc.rand_value(rng)))
            elif r < 0.85:
                ss.append(_simple(rng.choice(ctx.cats[qt]), rng.choice(ctx.units[qt]), oc.rand_value(rng)))
            else:
                c2, u2, _ = oc.simple_q(ctx, rng)[0]
                ss.append(_simple(c2, u2, oc.rand_value(rng)))
        yield dict(op="fromscalars", ss=[_enc_simple(s) for s in ss], _t=dict(ss=ss))


def _gen_getvalues(ctx, rng, n):
    for i in range(n):
        c, u, _ = oc.simple_q(ctx, rng)[0]
        qt = ctx.db.GetCategoryQuantityType(c)
        r = rng.random()
        to = u if r < 0.1 else rng.choice(ctx.units[qt]) if r < 0.9 else rng.choice(["no such unit", oc.simple_q(ctx, rng)[0][1]])
        vs = oc.rand_values(rng, rng.choice([0, 1, 2, 3, 5]))
        for kind in oc.KINDS:
            yield dict(op="getvalues", c=str(sym(c)), u=str(sym(u)), kind=kind, vs=[qstr(oc.exact(v)) for v in vs],
                       to=str(sym(to)), _t=dict(c=c, u=u, kind=kind, xs=[float(v).hex() for v in vs], to=to))
        if vs:
            yield dict(op="getvalue", c=str(sym(c)), u=str(sym(u)), v=qstr(oc.exact(vs[0])), to=str(sym(to)),
                       _t=dict(c=c, u=u, x=float(vs[0]).hex(), to=to))


def _gen(ctx, salt, npairs, lengths, n_mismatch, n_fs, n_gv):
    rng = ctx.fresh_rng("C10" + salt)
    yield from _gen_binops(ctx, rng, npairs, lengths, n_mismatch)
    yield from _gen_fromscalars(ctx, rng, n_fs)
    yield from _gen_getvalues(ctx, rng, n_gv)


def cases(ctx):
    if ctx.tier == "quick":
        yield from _gen(ctx, "q", 60, (0, 1, 2, 3, 5), 5, 600, 600)
    else:
        yield from _gen(ctx, "t", 320, (0, 1, 2, 3, 4, 5, 6), 10, 6000, 6000)


def case_key(c):
    return model_line(c)


# ------------------------------------------------------------------------------------------ the real side
def _run_fromscalars(t):
    from barril.units import Array, Scalar

    try:
        ss = [Scalar(oc.val(s["x"]), s["u"], s["c"]) for s in t["ss"]]
    except Exception as e:
        return dict(err="other", detail="operand does not build: %r" % (e,))
    try:
        a = Array.FromScalars(ss)
    except Exception as e:
        return dict(err=err_kind(e))
    res = oc.canon(a)
    idx = []
    for i in range(len(ss) + 1):
        try:
            idx.append(float(a[i]).hex())
        except Exception as e:
            idx.append(dict(err=err_kind(e)))
    return dict(res=res, index=idx)


def _run_getvalues(t):
    import numpy as np
    from barril.units import Array

    vs = [oc.val(x) for x in t["xs"]]
    cont = tuple(vs) if t["kind"] == "tuple" else np.array(vs, dtype=np.float64) if t["kind"] == "nd" else vs
    try:
        a = Array(cont, t["u"], t["c"])
    except Exception as e:
        return dict(err="other", detail="operand does not build: %r" % (e,))
    try:
        r = a.GetValues(t["to"])
    except Exception as e:
        return dict(err=err_kind(e))
    kind = "nd" if isinstance(r, np.ndarray) else "tuple" if isinstance(r, tuple) else "list" if isinstance(r, list) else "?"
    if not all(math.isfinite(float(v)) for v in r):
        return dict(err="other", detail="nonfinite")
    return dict(ok=dict(kind=kind, vs=[float(v).hex() for v in r]))


def _run_getvalue(t):
    from barril.units import Scalar

    try:
        s = Scalar(oc.val(t["x"]), t["u"], t["c"])
    except Exception as e:
        return dict(err="other", detail="operand does not build: %r" % (e,))
    try:
        r = s.GetValue(t["to"])
    except Exception as e:
        return dict(err=err_kind(e))
    if not math.isfinite(r):
        return dict(err="other", detail="nonfinite")
    return dict(ok=dict(vs=[float(r).hex()]))


def impl(c, ctx):
    t = c["_t"]
    if c["op"] == "binop":
        io = oc.run_binop(t["f"], t["a"], t["b"])
    elif c["op"] == "fromscalars":
        io = _run_fromscalars(t)
        if "res" in io and "err" in io["res"]:
            io = io["res"]
    elif c["op"] == "getvalues":
        io = _run_getvalues(t)
    else:
        io = _run_getvalue(t)
    oc.count(ctx, oc.branch_key(c, io))
    return io


def agree(c, io, mo, ctx):
    if c["op"] == "binop":
        return oc.agree_binop(c, io, mo)
    if c["op"] == "fromscalars":
        mres = mo.get("res", mo)
        if "err" in io or "err" in mres:
            if ("err" in io) != ("err" in mres):
                return "one side fails: impl=%s model=%s" % (io, mres)
            return None if io["err"] == mres["err"] else "error kinds differ: impl=%s model=%s" % (io, mres)
        why = oc.agree_binop(dict(_t=dict(a={}, b={})), io["res"], mres)
        if why:
            return why
        if len(io["index"]) != len(mo["index"]):
            return "index lists differ in length"
        M = qparse(mres["ok"]["M"])
        for i, (a, b) in enumerate(zip(io["index"], mo["index"])):
            if isinstance(a, dict) or isinstance(b, dict):
                if not (isinstance(a, dict) and isinstance(b, dict) and a["err"] == b["err"]):
                    return "indexing position %d: impl=%s model=%s" % (i, a, b)
            elif not oc.tol_close(oc.val(a), qparse(b), M):
                return "indexing position %d: impl=%r model=%s" % (i, oc.val(a), b)
        return None
    # getvalues / getvalue
    if "err" in io or "err" in mo:
        if ("err" in io) != ("err" in mo):
            return "one side fails: impl=%s model=%s" % (io, mo)
        return None if io["err"] == mo["err"] else "error kinds differ: impl=%s model=%s" % (io, mo)
    a, b = io["ok"], mo["ok"]
    if c["op"] == "getvalues" and a["kind"] != b["kind"]:
        return "container kinds differ: impl=%s model=%s" % (a["kind"], b["kind"])
    if c["u"] == c["to"]:
        exactly = [qstr(oc.exact_of(x)) for x in a["vs"]] == b["vs"]
        return None if exactly else "same-unit values are not returned unchanged"
    return oc.compare_values(a["vs"], b["vs"], qparse(b["M"]), False)


def nontrivial(c, io):
    return "ok" in io or "res" in io


# ------------------------------------------------------------- the property itself, on the real code only
def _tol(*mags):
    return 1e-9 * max([abs(float(m)) for m in mags] + [1e-300])


def _apply(f, x, y):
    import warnings

    import numpy as np

    with warnings.catch_warnings():
        warnings.simplefilter("ignore")
        with np.errstate(all="ignore"):
            return oc.PYOP[f](x, y)


ARITH = (ZeroDivisionError, OverflowError)


def _silently_wrong(ctx, f, q1, q2, x, y, got):
    """a zero or non-finite result although the exact one is non-zero and inside the float range"""
    if f == "floordiv":
        z = oc.exact_result(ctx, "div", q1, q2, x, y)
        if isinstance(z, Fraction) and not math.isfinite(got):
            return "the result is finite: exact operands and quotient are inside the float range"
        return None
    z = oc.exact_result(ctx, f, q1, q2, x, y)
    if not isinstance(z, Fraction):
        return None
    if not math.isfinite(got):
        return "the result is finite: exact operands and result are inside the float range"
    if got == 0.0 and z != 0 and f in ("mul", "div"):
        return "the result is not zero: the exact result is non-zero and inside the float range"
    return None


def _oracle_arith(t, ctx):
    """Scalar op Scalar: an arithmetic error or a silently zero / infinite result is legitimate only for a zero
    divisor or magnitudes that leave the float range"""
    from barril.units import Scalar  # noqa: F401

    f, a, b = t["f"], t["a"], t["b"]
    x, y = oc.val(a["x"]), oc.val(b["x"])
    form = "%s %s %s" % (oc.render(a), oc.OPSIGN[f], oc.render(b))
    try:
        A, B = oc.build(a), oc.build(b)
    except Exception:
        return None
    try:
        r = _apply(f, A, B)
    except ARITH as e:
        z = oc.exact_result(ctx, f, a["q"], b["q"], x, y)
        if isinstance(z, Fraction):
            return dict(clause="the operation is defined: exact operands and result are non-zero and inside the float range",
                        form=form, raised=repr(e), exact=float(z))
        return None
    except Exception:
        return None
    why = _silently_wrong(ctx, f, a["q"], b["q"], x, y, r.value) if hasattr(r, "value") else None
    return dict(clause=why, form=form, got=r.value) if why else None


def _oracle_binop(t, ctx):
    import numpy as np
    from barril.units import Array, Scalar

    f, a, b = t["f"], t["a"], t["b"]
    if a["t"] == "scalar" and b["t"] == "scalar":
        return _oracle_arith(t, ctx)
    if a["t"] != "array" or b["t"] != "array":
        return None
    try:
        A, B = oc.build(a), oc.build(b)
    except Exception:
        return None
    form = "%s %s %s" % (oc.render(a), oc.OPSIGN[f], oc.render(b))
    xs, ys = [oc.val(x) for x in a["xs"]], [oc.val(y) for y in b["xs"]]
    try:
        r = _apply(f, A, B)
        raised = None
    except Exception as e:
        r, raised = None, e
    if len(xs) != len(ys):
        if raised is None:
            return dict(clause="operands of different lengths are rejected", form=form, got=repr(r)[:200],
                        lengths=[len(xs), len(ys)])
        return None
    # the same operation on the corresponding Scalars (and on 1.0, 1.0 for the quantity of an empty result)
    qa, qb = A.GetQuantity(), B.GetQuantity()
    pairs = list(zip(xs, ys)) + ([] if xs else [(1.0, 1.0)])
    scal, scal_err, err_pair = [], None, None
    for x, y in pairs:
        try:
            scal.append(_apply(f, Scalar.CreateWithQuantity(qa, value=float(x)), Scalar.CreateWithQuantity(qb, value=float(y))))
        except Exception as e:
            scal_err, err_pair = e, (x, y)
            break
    if scal_err is not None:
        if isinstance(scal_err, ARITH):
            # legitimate only for a zero divisor / magnitudes that leave the float range (exact, from the table slopes)
            z = oc.exact_result(ctx, f, a["q"], b["q"], err_pair[0], err_pair[1])
            if isinstance(z, Fraction):
                return dict(clause="the operation is defined: exact operands and result are non-zero and inside the float range",
                            form=form, elements=[float(err_pair[0]), float(err_pair[1])], raised=repr(scal_err), exact=float(z))
            return None
        if raised is None:
            return dict(clause="the Scalar operation fails, the Array operation does not", form=form, scalar_error=repr(scal_err))
        return None
    for (x, y), sc in zip(pairs, scal):
        why = _silently_wrong(ctx, f, a["q"], b["q"], x, y, sc.value)
        if why:
            return dict(clause=why, form=form, elements=[float(x), float(y)], got=sc.value)
    if any(not math.isfinite(s.value) for s in scal):
        return None
    if raised is not None:
        if isinstance(raised, ARITH):
            if all(isinstance(oc.exact_result(ctx, f, a["q"], b["q"], x, y), Fraction) for x, y in pairs):
                return dict(clause="every Scalar operation succeeds, the Array operation raises", form=form, raised=repr(raised))
            return None
        return dict(clause="every Scalar operation succeeds, the Array operation raises", form=form, raised=repr(raised))
    if not isinstance(r, Array):
        return dict(clause="the result is an Array", form=form, got=type(r).__name__)
    got = list(r.values)
    if r.GetQuantity() != scal[0].GetQuantity() or r.GetUnit() != scal[0].GetUnit():
        return dict(clause="the result's quantity equals the Scalar result's quantity", form=form,
                    got=oc.entries(r.GetQuantity()), want=oc.entries(scal[0].GetQuantity()))
    if len(got) != len(xs):
        return dict(clause="one result element per element pair", form=form, got=len(got), want=len(xs))
    for i in range(len(xs)):
        g, w = float(got[i]), scal[i].value
        if not math.isfinite(g):
            continue
        tol = _tol(g, w, xs[i], ys[i])
        if abs(g - w) > tol and not (f == "floordiv" and abs(g - w) <= 1.0 + tol):
            return dict(clause="each element equals the Scalar result", form=form, index=i, got=g, want=w)
    # container independence: the same values in plain lists
    try:
        base = _apply(f, Array.CreateWithQuantity(qa, values=[float(x) for x in xs]),
                      Array.CreateWithQuantity(qb, values=[float(y) for y in ys]))
    except Exception as e:
        if isinstance(e, ZeroDivisionError):
            return None
        return dict(clause="the outcome does not depend on the container kind", form=form, with_lists=repr(e))
    if base.GetQuantity() != r.GetQuantity() or len(base.values) != len(got):
        return dict(clause="the outcome does not depend on the container kind", form=form,
                    got=oc.entries(r.GetQuantity()), with_lists=oc.entries(base.GetQuantity()))
    for i, (g, w) in enumerate(zip(got, base.values)):
        g, w = float(g), float(w)
        if math.isfinite(g) and math.isfinite(w) and abs(g - w) > _tol(g, w, xs[i], ys[i]) and not (
                f == "floordiv" and abs(g - w) <= 1.0 + _tol(g, w)):
            return dict(clause="the outcome does not depend on the container kind", form=form, index=i, got=g, with_lists=w)
    return None


def _oracle_fromscalars(t, ctx):
    from barril.units import Array, Scalar

    try:
        ss = [Scalar(oc.val(s["x"]), s["u"], s["c"]) for s in t["ss"]]
    except Exception:
        return None
    if len({s.GetQuantityType() for s in ss}) > 1:
        return None
    form = "Array.FromScalars([%s])" % ", ".join("Scalar(%r, %r, %r)" % (oc.val(s["x"]), s["u"], s["c"]) for s in t["ss"])
    try:
        a = Array.FromScalars(ss)
    except Exception as e:
        return dict(clause="FromScalars of Scalars of one quantity type", form=form, raised=repr(e))
    if len(a) != len(ss):
        return dict(clause="FromScalars keeps every Scalar", form=form, got=len(a), want=len(ss))
    for i, s in enumerate(ss):
        try:
            back = Scalar(float(a[i]), a.GetUnit(), a.GetCategory()).GetValue(s.GetUnit())
            want_in_array_unit = s.GetValue(a.GetUnit())
        except Exception as e:
            return dict(clause="FromScalars then indexing returns the original amounts", form=form, index=i, raised=repr(e))
        if not (math.isfinite(back) and math.isfinite(want_in_array_unit)):
            continue
        if abs(float(a[i]) - want_in_array_unit) > _tol(a[i], want_in_array_unit) and abs(back - s.value) > _tol(back, s.value):
            return dict(clause="FromScalars then indexing returns the original amounts", form=form, index=i,
                        got=float(a[i]), unit=a.GetUnit(), want=want_in_array_unit)
    return None


def _oracle_getvalues(t, ctx):
    import numpy as np
    from barril.units import Array, Scalar

    vs = [oc.val(x) for x in t["xs"]]
    form = "Array(%s of %r, %r, %r).GetValues(%r)" % (t["kind"], vs, t["u"], t["c"], t["to"])
    try:
        want = [Scalar(v, t["u"], t["c"]).GetValue(t["to"]) for v in vs]
    except Exception:
        return None
    outs = {}
    for kind in oc.KINDS:
        cont = tuple(vs) if kind == "tuple" else np.array(vs, dtype=np.float64) if kind == "nd" else list(vs)
        try:
            outs[kind] = Array(cont, t["u"], t["c"]).GetValues(t["to"])
        except Exception as e:
            if not vs:
                continue
            return dict(clause="unit conversion of an Array equals the conversion of the Scalars", form=form, kind=kind, raised=repr(e))
        got = [float(v) for v in outs[kind]]
        if len(got) != len(want):
            return dict(clause="unit conversion keeps the length", form=form, kind=kind, got=len(got), want=len(want))
        for i, (g, w) in enumerate(zip(got, want)):
            if math.isfinite(g) and math.isfinite(w) and abs(g - w) > _tol(g, w, vs[i]):
                return dict(clause="unit conversion of an Array equals the conversion of the Scalars", form=form, kind=kind,
                            index=i, got=g, want=w)
    return None


def oracle(c, ctx):
    t = c["_t"]
    if c["op"] == "binop":
        return _oracle_binop(t, ctx)
    if c["op"] == "fromscalars":
        return _oracle_fromscalars(t, ctx)
    if c["op"] == "getvalues":
        return _oracle_getvalues(t, ctx)
    return None


def search(ctx):
    yield from _gen(ctx, "search", 24, (0, 1, 2, 3, 5), 6, 300, 200)
