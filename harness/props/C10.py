"""C10 - Array results equal elementwise Scalar results for every container kind.

Decided by Barril/Props/C10.lean over the model Barril/Model/Ops.lean (`Array._DoOperation`: length check,
vectorised branch, per-element branch, result container; `_ValueGenerator`; `Scalar._DoOperation`;
`Array.FromScalars`; `GetValues`).  Tie: Array x Array over all nine container combinations, five operators,
lengths 0..6 (equal and different), Scalar x Scalar on the same quantity pairs, FromScalars + indexing and
GetValues / GetValue, on the real code and on the model (`drv_ops`)."""
import math
from fractions import Fraction

import _ops_common as oc
from _ops_common import model_line, show  # noqa: F401
from common import err_kind, qparse, qstr, sym

ID = "C10"
LEAN_MODULES = ["Barril.Props.C10"]
DRIVERS = ["drv_ops"]
DRIVER_EXE = "drv_ops"
RULE = ("pairs of quantities of the default POSC database (identical; one quantity type with two units; two categories of "
        "one type; different types; derived normal/twin/mixed/zero-exponent; derived operands holding offset units (degC, degF, "
        "psig ...) at exponent 1 and != 1 against other units of the type; simple offset-unit operands; the empty quantity) x 3x3 container kinds x "
        "{+,-,*,/,//} x lengths 0..6, plus pairs of different lengths (0/1/n against m), int and float elements, zero "
        "divisors in float slots; Scalar op Scalar on the same pairs; Array.FromScalars (same unit, mixed units, foreign "
        "types, empty) followed by indexing every position; Array.FromScalars with every keyword form (unit and / or category "
        "given: of the type, of another type, unknown, empty string, a category name in the unit slot; list / tuple / generator "
        "of Scalars; no Scalar at all) over Scalars of simple, derived (unit string naming a table unit or not, one item with an "
        "exponent) and empty quantities; Array.GetValues / Scalar.GetValue to every kind of target unit; GetValues of Arrays "
        "over lists / tuples of tuples (ragged and empty rows); str(Array) over tuples and numbers; two-step histories: "
        "UnitDatabase.RegisterAdditionalConversionType for subclasses of ndarray (also MaskedArray, a subclass of a subclass), "
        "list, tuple, float and unrelated classes (1-3 registrations, a class twice), THEN Array op Array over list / tuple / "
        "ndarray containers and GetValues / CreateCopy(unit=) of every container kind (registry restored afterwards).  "
        "distinct = distinct (operation, operands); non-trivial = the real code returned a result")
EXHAUSTIVE = {"quick": False, "thorough": False}
ASSUMPTIONS = [
    "float results stay within 4*K*eps*M of the exact model (K=64): checked, not proved",
    "a non-finite numpy result (division by zero) is canonicalised to the error class `other`",
    "a quotient that is an integer up to float rounding may floor to either neighbour (don't care)",
    "the quantity algebra of two derived operands (unit matching) is engine Alg's subject (C03/C04); the C10 theorems "
    "hold for ANY quantity operation because Scalar and Array call the same database function",
    "GetValues is modelled for simple (not derived) quantities; FromScalars for Scalars of simple, derived and empty "
    "quantities (unit and category strings of a derived quantity through engine Str's renderers); legacy unit spellings are "
    "modelled (`obtainSimple`) but not generated as keyword arguments",
    "str(Array): the texts of the single elements (`str(v)`, `FormatFloat('%g', v)`) are computed by Python and handed to the "
    "model, which decides the branch (first element a tuple), joins and appends the unit suffix",
    "registry of additional conversion types: a registered function is modelled by what it does to plain amounts (`std` = "
    "ConvertNumpyArray, `scaled k` = the number conversion times k); the import-time entries are read from the live registry "
    "(numpy.ndarray -> std, every other class unrelated to the value containers); no class registered is a base class of float; "
    "Arrays whose values are instances of a registered ndarray SUBCLASS are not generated (the property speaks of numpy arrays)",
    "value-less list / tuple operands whose division is computed on dummy amounts that cancel to 0 (1 atm = 0 Pa(g)) are kept "
    "out of the generators until the known-finding entry exists (CLASS_PROBE; matcher and replay are in this module)",
]


def setup(ctx):
    oc.setup_pools(ctx)


# ------------------------------------------------------------------------------------------ generators
def _pairs(ctx, rng, n):
    """quantity pairs by relation"""
    out = []
    for i in range(n):
        r = i % 11
        q1 = oc.simple_q(ctx, rng)
        c, u, _ = q1[0]
        qt = ctx.db.GetCategoryQuantityType(c)
        if r == 0:
            q2 = [list(q1[0])]
        elif r in (1, 2):
            q2 = [[c, rng.choice(ctx.units[qt]), 1]]
        elif r == 3:
            q2 = [[rng.choice(ctx.cats[qt]), rng.choice(ctx.units[qt]), 1]]
        elif r == 4:
            q2 = oc.simple_q(ctx, rng)
        elif r == 5:
            q1 = oc.derived_q(ctx, rng, "normal")
            q2 = [list(e) for e in q1] if rng.random() < 0.5 else oc.derived_q(ctx, rng, "normal")
        elif r == 6:
            q1 = oc.derived_q(ctx, rng)
            q2 = oc.simple_q(ctx, rng) if rng.random() < 0.5 else oc.derived_q(ctx, rng)
        elif r == 7:
            q1 = oc.derived_q(ctx, rng, "normal")
            # the same dimension written with other units
            q2 = [[cc, rng.choice(ctx.units[ctx.db.GetCategoryQuantityType(cc)]), e] for cc, _u, e in q1]
        elif r in (8, 9):
            # derived operands holding a unit with an offset (degC, degF, psig ...) at exponent 1 or another one,
            # the other operand with another unit of that type: scaled, never shifted (repair 1e63d4c)
            q1 = oc.affine_q(ctx, rng, mixed=(r == 9 and rng.random() < 0.3))
            q2 = oc.other_units(ctx, rng, q1)
            if rng.random() < 0.3:
                q1, q2 = q2, q1
        else:
            # simple operands of a type with offset units: the plain conversion (shifted)
            qt = rng.choice(ctx.affine_qtypes)
            cc = rng.choice(ctx.cats[qt])
            q1 = [[cc, rng.choice(ctx.units[qt]), 1]]
            q2 = oc.other_units(ctx, rng, q1)
        out.append((q1, q2))
    out += [([], []), (oc.simple_q(ctx, rng), []), ([], oc.simple_q(ctx, rng))]  # the empty quantity
    # 1.0 of the divisor's unit is 0 of the dividend's unit: only value-less list / tuple operands may still fail
    out += [([["pressure", "Pa(g)", 1]], [["pressure", "atm", 1]]), ([["pressure", "Pa(g)", 1]], [["force per area", "atm", 1]])]
    return [(a, b) for a, b in out if oc.buildable(oc.scalar_spec(a, 1.0)) and oc.buildable(oc.scalar_spec(b, 1.0))]


def _vals(rng, n, f, divisor):
    ints = rng.random() < 0.2
    nonzero = ints or (divisor and f in ("div", "floordiv") and rng.random() < 0.97)
    return oc.rand_values(rng, n, nonzero, ints), ints


CLASS_PROBE = ("value-less list/tuple Arrays divided: the dummy amount 1.0 of the divisor's unit is 0 of the unit it "
               "is matched to")


def _probe_zero(ctx, q1, q2):
    """the input class of the candidate known finding: both quantities simple and of one quantity type, in
    different units, and the amount 1.0 of the divisor's unit is exactly 0 of the dividend's unit (1 atm = 0 Pa(g)):
    `Array._DoOperation` computes the quantity of value-less list / tuple operands on the dummy amounts (1.0, 1.0)"""
    if len(q1) != 1 or len(q2) != 1 or int(q1[0][2]) != 1 or int(q2[0][2]) != 1 or q1[0][1] == q2[0][1]:
        return False
    try:
        qt = ctx.db.GetCategoryQuantityType(q1[0][0])
        if ctx.db.GetCategoryQuantityType(q2[0][0]) != qt:
            return False
        return float(ctx.db.Convert(qt, q2[0][1], q1[0][1], 1.0)) == 0.0
    except Exception:
        return False


def _gen_binops(ctx, rng, npairs, lengths, n_mismatch):
    for q1, q2 in _pairs(ctx, rng, npairs):
        for f in oc.OPS:
            # the Scalar operator on this pair
            yield oc.binop_case(f, oc.scalar_spec(q1, oc.rand_value(rng)),
                                oc.scalar_spec(q2, oc.rand_value(rng, nonzero=rng.random() < 0.97)))
            for k1 in oc.KINDS:
                for k2 in oc.KINDS:
                    for n in lengths:
                        if n == 0 and f in ("div", "floordiv") and "nd" not in (k1, k2) and _probe_zero(ctx, q1, q2):
                            # kept out until the known-finding entry exists (reported, CLASS_PROBE): value-less list /
                            # tuple Arrays are computed on the dummy amounts (1.0, 1.0), and 1.0 of the divisor's unit
                            # can be 0 of the matched unit (1 atm = 0 Pa(g)): ZeroDivisionError although every Scalar
                            # quotient has a quantity.  (With values the amounts are no longer used: repair 4829052.)
                            continue
                        xs, i1 = _vals(rng, n, f, False)
                        ys, i2 = _vals(rng, n, f, True)
                        yield oc.binop_case(f, oc.array_spec(q1, k1, xs, i1), oc.array_spec(q2, k2, ys, i2))
            for _ in range(n_mismatch):
                k1, k2 = rng.choice(oc.KINDS), rng.choice(oc.KINDS)
                n = rng.choice([0, 1, 1, 2, 3, 5])
                m = rng.choice([x for x in (0, 1, 2, 3, 4, 6) if x != n])
                xs, i1 = _vals(rng, n, f, False)
                ys, i2 = _vals(rng, m, f, True)
                yield oc.binop_case(f, oc.array_spec(q1, k1, xs, i1), oc.array_spec(q2, k2, ys, i2))


def _simple(c, u, v):
    return dict(c=c, u=u, x=float(v).hex())


def _enc_simple(s):
    return dict(c=str(sym(s["c"])), u=str(sym(s["u"])), v=qstr(oc.exact_of(s["x"])))


def _gen_fromscalars(ctx, rng, n):
    yield dict(op="fromscalars", ss=[], _t=dict(ss=[]))
    for i in range(n):
        c, u, _ = oc.simple_q(ctx, rng)[0]
        qt = ctx.db.GetCategoryQuantityType(c)
        ss = []
        for j in range(rng.choice([1, 2, 3, 4, 6])):
            r = rng.random()
            if i % 3 == 0 or j == 0 and r < 0.5:
                ss.append(_simple(c, u, oc.rand_value(rng)))
            elif r < 0.85:
                ss.append(_simple(rng.choice(ctx.cats[qt]), rng.choice(ctx.units[qt]), oc.rand_value(rng)))
            else:
                c2, u2, _ = oc.simple_q(ctx, rng)[0]
                ss.append(_simple(c2, u2, oc.rand_value(rng)))
        yield dict(op="fromscalars", ss=[_enc_simple(s) for s in ss], _t=dict(ss=ss))


def _gen_getvalues(ctx, rng, n):
    for i in range(n):
        c, u, _ = oc.simple_q(ctx, rng)[0]
        qt = ctx.db.GetCategoryQuantityType(c)
        r = rng.random()
        to = u if r < 0.1 else rng.choice(ctx.units[qt]) if r < 0.9 else rng.choice(["no such unit", oc.simple_q(ctx, rng)[0][1]])
        vs = oc.rand_values(rng, rng.choice([0, 1, 2, 3, 5]))
        for kind in oc.KINDS:
            yield dict(op="getvalues", c=str(sym(c)), u=str(sym(u)), kind=kind, vs=[qstr(oc.exact(v)) for v in vs],
                       to=str(sym(to)), _t=dict(c=c, u=u, kind=kind, xs=[float(v).hex() for v in vs], to=to))
        if vs:
            yield dict(op="getvalue", c=str(sym(c)), u=str(sym(u)), v=qstr(oc.exact(vs[0])), to=str(sym(to)),
                       _t=dict(c=c, u=u, x=float(vs[0]).hex(), to=to))


# ---- Array.FromScalars(scalars, unit=..., category=...): every argument form, simple / derived / empty quantities
_FS_UNITS = {"length": ["m", "cm", "km", "ft", "in"], "time": ["s", "min", "h", "d"], "mass": ["kg", "g", "lbm"],
             "volume": ["m3", "L", "ft3"], "area": ["m2", "ft2"]}
_FS_SHAPES = [((1,), ), ((2,), ), ((3,), ), ((1, -1), ), ((1, 1), ), ((1, -2), ), ((1, -3), )]


def _named_derived(ctx):
    """derived quantities (dicts over favourite categories) whose unit string, as the library renders it, is the
    name of a table unit of a quantity type that has categories: [(q, unit string, [categories...])]"""
    if getattr(ctx, "_named_derived", None) is not None:
        return ctx._named_derived
    from barril.units import ObtainQuantity
    from collections import OrderedDict

    db, out = ctx.db, []
    cats = [c for c in sorted(_FS_UNITS) if c in db.categories_to_quantity_types]
    for (exps,) in _FS_SHAPES:
        for c1 in cats:
            for c2 in (cats if len(exps) == 2 else [None]):
                if c2 == c1:
                    continue
                for u1 in _FS_UNITS[c1]:
                    for u2 in (_FS_UNITS[c2] if c2 else [None]):
                        q = [[c1, u1, exps[0]]] + ([[c2, u2, exps[1]]] if c2 else [])
                        try:
                            us = ObtainQuantity(OrderedDict((c, [u, e]) for c, u, e in q)).GetUnit()
                            info = db.unit_to_unit_info.get(us)
                        except Exception:
                            continue
                        if info is None:
                            continue
                        cs = sorted(c for c, ci in db.categories_to_quantity_types.items() if ci.quantity_type == info.quantity_type)
                        if cs:
                            out.append((q, us, cs))
    ctx._named_derived = out
    return out


def _fs2_case(ss, unit, category, it="list"):
    enc = [dict(q=[[str(sym(c)), str(sym(u)), str(int(e))] for c, u, e in s_["q"]], v=qstr(oc.exact_of(s_["x"]))) for s_ in ss]
    return dict(op="fromscalars2", ss=enc, unit=None if unit is None else str(sym(unit)),
                category=None if category is None else str(sym(category)), _t=dict(ss=ss, unit=unit, category=category, it=it))


def _qs(q, v):
    return dict(q=q, x=float(v).hex())


def _gen_fromscalars2(ctx, rng, n):
    db = ctx.db
    all_cats = sorted(db.categories_to_quantity_types)
    bad_units, bad_cats = ["no such unit", "", "m.cm"], ["no such category", ""]
    # no Scalar at all: the four keyword combinations
    # ("length", "volume per time": category names in the unit slot - no default category, but GetCategoryInfo finds them)
    for unit in [None, "", "m", "no such unit", "degC", "m3/d", "length", "volume per time"] + [oc.simple_q(ctx, rng)[0][1] for _ in range(12)]:
        for category in [None, "length", "", "no such category", oc.simple_q(ctx, rng)[0][0]]:
            yield _fs2_case([], unit, category, rng.choice(["list", "tuple", "gen"]))
    named = _named_derived(ctx)
    for i in range(n):
        r = i % 10
        it = rng.choice(["list", "list", "tuple", "gen"])
        if r < 6:
            # Scalars of simple quantities
            c, u, _ = oc.simple_q(ctx, rng)[0]
            qt = db.GetCategoryQuantityType(c)
            ss = [_qs([[c, u, 1]], oc.rand_value(rng))]
            for _j in range(rng.choice([0, 1, 2, 3, 5])):
                w = rng.random()
                if w < 0.3:
                    ss.append(_qs([[c, u, 1]], oc.rand_value(rng)))
                elif w < 0.9:
                    ss.append(_qs([[rng.choice(ctx.cats[qt]), rng.choice(ctx.units[qt]), 1]], oc.rand_value(rng)))
                elif w < 0.95:
                    ss.append(_qs(oc.simple_q(ctx, rng), oc.rand_value(rng)))
                else:
                    ss.append(_qs([], oc.rand_value(rng)))   # a Scalar of the empty quantity
            w = rng.random()
            unit = None if w < 0.3 else rng.choice(ctx.units[qt]) if w < 0.85 else u if w < 0.9 else rng.choice(
                bad_units + [oc.simple_q(ctx, rng)[0][1]])
            w = rng.random()
            category = None if w < 0.4 else rng.choice(ctx.cats[qt]) if w < 0.85 else rng.choice(
                bad_cats + [rng.choice(all_cats)])
            yield _fs2_case(ss, unit, category, it)
        elif r < 8 and named:
            # Scalars of derived quantities whose unit string names a table unit: accepted with that unit
            # (or no unit) and a category of that unit's quantity type
            q, us, cs = rng.choice(named)
            ss = [_qs(q, oc.rand_value(rng))]
            qt2 = db.GetCategoryQuantityType(cs[0])
            for _j in range(rng.choice([0, 1, 2])):
                w = rng.random()
                if w < 0.4:
                    ss.append(_qs(q, oc.rand_value(rng)))
                elif w < 0.6:
                    q2, us2, _cs2 = rng.choice(named)
                    ss.append(_qs(q2, oc.rand_value(rng)))
                else:
                    ss.append(_qs([[rng.choice(cs), rng.choice([us, us, rng.choice(ctx.units[qt2])]), 1]], oc.rand_value(rng)))
            if rng.random() < 0.3:
                ss.reverse()
            w = rng.random()
            unit = None if w < 0.4 else us if w < 0.8 else rng.choice(ctx.units[qt2] + bad_units)
            w = rng.random()
            category = rng.choice(cs) if w < 0.8 else None if w < 0.9 else rng.choice(bad_cats + all_cats[:40])
            yield _fs2_case(ss, unit, category, it)
        else:
            # any derived / empty quantity
            q = rng.choice([oc.derived_q(ctx, rng), oc.derived_q(ctx, rng, "normal"), [], [[oc.simple_q(ctx, rng)[0][0], oc.simple_q(ctx, rng)[0][1], 2]]])
            if q and not oc.buildable(oc.scalar_spec(q, 1.0)):
                q = []
            ss = [_qs(q, oc.rand_value(rng))]
            for _j in range(rng.choice([0, 1, 2])):
                ss.append(_qs(rng.choice([q, q, oc.simple_q(ctx, rng), []]), oc.rand_value(rng)))
            if rng.random() < 0.3:
                ss.reverse()
            w = rng.random()
            unit = None if w < 0.5 else rng.choice(bad_units + [oc.simple_q(ctx, rng)[0][1], "m", "m2"])
            w = rng.random()
            category = None if w < 0.5 else rng.choice(bad_cats + [rng.choice(all_cats), "length", "area"])
            yield _fs2_case(ss, unit, category, it)


# ---- Array over a list / tuple of tuples: GetValues(unit); Array.__str__
def _gen_rows(ctx, rng, n):
    for i in range(n):
        c, u, _ = oc.simple_q(ctx, rng)[0]
        qt = ctx.db.GetCategoryQuantityType(c)
        r = rng.random()
        to = u if r < 0.1 else rng.choice(ctx.units[qt]) if r < 0.9 else rng.choice(["no such unit", oc.simple_q(ctx, rng)[0][1]])
        width = rng.choice([0, 1, 2, 3])
        rows = [oc.rand_values(rng, width if rng.random() < 0.8 else rng.choice([0, 1, 2])) for _ in range(rng.choice([1, 2, 3]))]
        outer = rng.choice(["list", "tuple"])
        yield dict(op="getvaluesrows", c=str(sym(c)), u=str(sym(u)), to=str(sym(to)),
                   rows=[[qstr(oc.exact(v)) for v in row] for row in rows],
                   _t=dict(c=c, u=u, to=to, outer=outer, rows=[[float(v).hex() for v in row] for row in rows]))


def _elem_text(v):
    from barril.basic.format_float import FormatFloat

    if isinstance(v, tuple):
        return dict(tup=True, s=str(v), g="")
    return dict(tup=False, s=str(v), g=FormatFloat("%g", v))


def _str_values(t):
    vs = [tuple(oc.val(x) for x in e) if isinstance(e, list) else oc.val(e) for e in t["elems"]]
    return tuple(vs) if t["outer"] == "tuple" else vs


def _gen_str(ctx, rng, n):
    """`str(Array)`: values that are tuples (list / tuple of tuples: `str(v)` of every element) or numbers
    (`FormatFloat("%g", v)`), followed by the unit suffix; simple, derived and empty quantities"""
    for i in range(n):
        q = rng.choice([oc.simple_q(ctx, rng), oc.simple_q(ctx, rng), oc.derived_q(ctx, rng, "normal"), oc.derived_q(ctx, rng), []])
        if q and not oc.buildable(oc.scalar_spec(q, 1.0)):
            q = []
        num = lambda: oc.enc(rng.choice([rng.randint(-9, 99), oc.rand_value(rng), round(rng.uniform(-50, 50), 2)]))
        if i % 3 == 2:
            elems = [num() for _ in range(rng.choice([0, 1, 2, 4]))]
        else:
            elems = [[num() for _ in range(rng.choice([0, 1, 2, 2, 3]))] for _ in range(rng.choice([1, 2, 3]))]
        t = dict(q=q, outer=rng.choice(["list", "tuple"]), elems=elems)
        yield dict(op="str", q=[[str(sym(c)), str(sym(u)), str(int(e))] for c, u, e in q],
                   elems=[_elem_text(v) for v in _str_values(t)], _t=t)


# ---- a database on which additional conversion types have been registered (two-step histories)
# class name -> (tag, tags of all proper base classes); tags 0 object, 1 float, 2 list, 3 tuple, 4 numpy.ndarray
REG_CLASSES = {"ndsub": (10, [4, 0]), "listsub": (11, [2, 0]), "tuplesub": (12, [3, 0]), "ndsub2": (13, [10, 4, 0]),
               "floatsub": (14, [1, 0]), "masked": (15, [4, 0]), "other": (101, [0]), "other2": (102, [0])}
_REG_PY = {}
_REG_FN = {}


def _reg_class(name):
    """the Python class of a registry case (created once per process)"""
    import numpy as np

    if not _REG_PY:
        _REG_PY["ndsub"] = type("NdSub", (np.ndarray,), {})
        _REG_PY["ndsub2"] = type("NdSub2", (_REG_PY["ndsub"],), {})
        _REG_PY["listsub"] = type("ListSub", (list,), {})
        _REG_PY["tuplesub"] = type("TupleSub", (tuple,), {})
        _REG_PY["floatsub"] = type("FloatSub", (float,), {})
        _REG_PY["masked"] = np.ma.MaskedArray
        _REG_PY["other"] = type("Other", (object,), {})
        _REG_PY["other2"] = type("Other2", (object,), {})
    return _REG_PY[name]


def _reg_fn(name, k):
    """the conversion function registered for class `name`: written for another representation of the amounts, on
    plain amounts it answers the number conversion times k (one function object per (class, k): registering the
    same function twice is accepted, another one for the same class is refused)"""
    key = (name, k)
    if key not in _REG_FN:
        factor = oc.val(k)

        def fn(db, quantity_type, from_unit, to_unit, value):
            this = db.GetInfo(quantity_type, from_unit, fix_unknown=True)
            other = db.GetInfo(quantity_type, to_unit, fix_unknown=True)
            if isinstance(value, (list, tuple)):
                return type(value)(other.frombase(this.tobase(v)) * factor for v in value)
            return other.frombase(this.tobase(value)) * factor

        _REG_FN[key] = fn
    return _REG_FN[key]


class _registered:
    """run a block on a database on which `regs` have been registered through the public
    `UnitDatabase.RegisterAdditionalConversionType`; the registry (a class attribute shared by every database of the
    process) is put back exactly as it was"""

    def __init__(self, regs):
        self.regs = regs

    def __enter__(self):
        from barril.units.unit_database import UnitDatabase

        self.saved = list(UnitDatabase._additional_conversions.items())
        for r in self.regs:
            try:
                UnitDatabase.RegisterAdditionalConversionType(_reg_class(r["cls"]), _reg_fn(r["cls"], r["k"]))
            except AssertionError:
                pass   # a second function for a registered class is refused; the registry stays as it was
        return self

    def __exit__(self, *exc):
        from barril.units.unit_database import UnitDatabase

        d = UnitDatabase._additional_conversions
        d.clear()
        d.update(self.saved)
        return False


def _base_registry():
    """the registry as it is now (after import): numpy.ndarray with ConvertNumpyArray (`std`), then classes
    unrelated to every value container (FractionValue, ...; what their functions do never matters)"""
    import numpy as np
    from barril.units.unit_database import UnitDatabase

    out = []
    for i, (cls, _fn) in enumerate(UnitDatabase._additional_conversions.items()):
        if cls is np.ndarray:
            out.append(dict(cls="4", fn="std"))
        else:
            known = [n for n, pc in sorted(_REG_PY.items()) if pc is cls]
            out.append(dict(cls=str(REG_CLASSES[known[0]][0] if known else 200 + i), fn="scaled", k="1/1"))
    return out


def _enc_regs(regs):
    return [dict(cls=str(REG_CLASSES[r["cls"]][0]), fn="scaled", k=qstr(oc.exact_of(r["k"]))) for r in regs]


_NDC = dict(tag="4", bases=["0"])


def _rand_regs(rng):
    """registrations: mostly an ndarray subclass (the class a plain ndarray must never be served by), also subclasses
    of list / tuple / float, unrelated classes, several at once, the same class twice"""
    names = sorted(REG_CLASSES)
    regs = []
    for _ in range(rng.choice([1, 1, 1, 2, 2, 3])):
        name = rng.choice(["ndsub", "ndsub", "ndsub", "masked", "ndsub2"]) if rng.random() < 0.6 else rng.choice(names)
        regs.append(dict(cls=name, k=oc.enc(rng.choice([2.0, 0.5, -1.0, 3.0, 1.0, 10.0, 0.25]))))
    return regs


def _gen_registry(ctx, rng, npairs, n_gv):
    base = _base_registry()
    for q1, q2 in _pairs(ctx, rng, npairs):
        for f in oc.OPS:
            for _ in range(3):
                regs = _rand_regs(rng)
                k1, k2 = rng.choice([("nd", "nd"), ("nd", "list"), ("list", "nd"), ("tuple", "nd"), ("nd", "tuple"),
                                     ("list", "list"), ("tuple", "tuple"), ("list", "tuple")])
                n = rng.choice([0, 1, 2, 3, 3, 5])
                xs, i1 = _vals(rng, n, f, False)
                ys, i2 = _vals(rng, n if rng.random() < 0.95 else n + 1, f, True)
                if n == 0 and f in ("div", "floordiv") and "nd" not in (k1, k2) and _probe_zero(ctx, q1, q2):
                    continue
                a, b = oc.array_spec(q1, k1, xs, i1), oc.array_spec(q2, k2, ys, i2)
                yield dict(op="regbinop", f=f, base=base, regs=_enc_regs(regs), ndc=_NDC, a=oc.model_operand(a),
                           b=oc.model_operand(b), _t=dict(f=f, a=a, b=b, regs=regs))
    for i in range(n_gv):
        c, u, _ = oc.simple_q(ctx, rng)[0]
        qt = ctx.db.GetCategoryQuantityType(c)
        r = rng.random()
        to = u if r < 0.05 else rng.choice(ctx.units[qt]) if r < 0.95 else rng.choice(["no such unit", oc.simple_q(ctx, rng)[0][1]])
        vs = oc.rand_values(rng, rng.choice([0, 1, 2, 3, 5]))
        regs = _rand_regs(rng)
        for kind in oc.KINDS:
            yield dict(op="reggetvalues", base=base, regs=_enc_regs(regs), ndc=_NDC, c=str(sym(c)), u=str(sym(u)), kind=kind,
                       vs=[qstr(oc.exact(v)) for v in vs], to=str(sym(to)),
                       _t=dict(c=c, u=u, kind=kind, xs=[float(v).hex() for v in vs], to=to, regs=regs))


def _gen(ctx, salt, npairs, lengths, n_mismatch, n_fs, n_gv):
    rng = ctx.fresh_rng("C10" + salt)
    yield from _gen_binops(ctx, rng, npairs, lengths, n_mismatch)
    yield from _gen_fromscalars(ctx, rng, n_fs)
    yield from _gen_getvalues(ctx, rng, n_gv)
    rng2 = ctx.fresh_rng("C10ext" + salt)
    yield from _gen_fromscalars2(ctx, rng2, 3 * n_fs)
    yield from _gen_rows(ctx, rng2, n_gv // 2)
    yield from _gen_str(ctx, rng2, n_gv // 2)
    yield from _gen_registry(ctx, ctx.fresh_rng("C10reg" + salt), max(6, npairs // 3), max(40, n_gv // 4))


def cases(ctx):
    if ctx.tier == "quick":
        yield from _gen(ctx, "q", 60, (0, 1, 2, 3, 5), 5, 600, 600)
    else:
        yield from _gen(ctx, "t", 320, (0, 1, 2, 3, 4, 5, 6), 10, 6000, 6000)


def case_key(c):
    return model_line(c)


# ------------------------------------------------------------------------------------------ the real side
def _run_fromscalars(t):
    from barril.units import Array, Scalar

    try:
        ss = [Scalar(oc.val(s["x"]), s["u"], s["c"]) for s in t["ss"]]
    except Exception as e:
        return dict(err="other", detail="operand does not build: %r" % (e,))
    try:
        a = Array.FromScalars(ss)
    except Exception as e:
        return dict(err=err_kind(e))
    res = oc.canon(a)
    idx = []
    for i in range(len(ss) + 1):
        try:
            idx.append(float(a[i]).hex())
        except Exception as e:
            idx.append(dict(err=err_kind(e)))
    # the sequence protocol next to indexing: len(a) and iteration
    try:
        seq = dict(n=len(a), it=[float(v).hex() for v in a])
    except Exception as e:
        seq = dict(err=err_kind(e))
    return dict(res=res, index=idx, seq=seq)


def _run_getvalues(t, copy=False):
    import numpy as np
    from barril.units import Array

    vs = [oc.val(x) for x in t["xs"]]
    cont = tuple(vs) if t["kind"] == "tuple" else np.array(vs, dtype=np.float64) if t["kind"] == "nd" else vs
    try:
        a = Array(cont, t["u"], t["c"])
    except Exception as e:
        return dict(err="other", detail="operand does not build: %r" % (e,))
    try:
        r = a.GetValues(t["to"])
    except Exception as e:
        return dict(err=err_kind(e))
    kind = "nd" if isinstance(r, np.ndarray) else "tuple" if isinstance(r, tuple) else "list" if isinstance(r, list) else "?"
    if not all(math.isfinite(float(v)) for v in r):
        return dict(err="other", detail="nonfinite")
    out = dict(ok=dict(kind=kind, vs=[float(v).hex() for v in r]))
    if copy:
        # Array.CreateCopy(unit=...) converts through the same call (a category may refuse the unit: then nothing to compare)
        try:
            cp = a.CreateCopy(unit=t["to"]).GetValues()
            if all(math.isfinite(float(v)) for v in cp):
                out["ok"]["copy"] = [float(v).hex() for v in cp]
        except Exception:
            pass
    return out


def _run_getvalue(t):
    from barril.units import Scalar

    try:
        s = Scalar(oc.val(t["x"]), t["u"], t["c"])
    except Exception as e:
        return dict(err="other", detail="operand does not build: %r" % (e,))
    try:
        r = s.GetValue(t["to"])
    except Exception as e:
        return dict(err=err_kind(e))
    if not math.isfinite(r):
        return dict(err="other", detail="nonfinite")
    return dict(ok=dict(vs=[float(r).hex()]))


def _fs2_build(t):
    from barril.units import Scalar

    ss = [Scalar.CreateWithQuantity(oc.quantity(s_["q"]), value=oc.val(s_["x"])) for s_ in t["ss"]]
    it = tuple(ss) if t["it"] == "tuple" else (s_ for s_ in ss) if t["it"] == "gen" else ss
    kw = {}
    if t["unit"] is not None:
        kw["unit"] = t["unit"]
    if t["category"] is not None:
        kw["category"] = t["category"]
    return ss, it, kw


def _run_fromscalars2(t):
    from barril.units import Array

    try:
        ss, it, kw = _fs2_build(t)
    except Exception as e:
        return dict(err="other", detail="operand does not build: %r" % (e,))
    try:
        a = Array.FromScalars(it, **kw)
    except Exception as e:
        return dict(err=err_kind(e), exc=type(e).__name__)
    res = oc.canon(a)
    idx = []
    for i in range(len(ss) + 1):
        try:
            idx.append(float(a[i]).hex())
        except Exception as e:
            idx.append(dict(err=err_kind(e)))
    # the sequence protocol next to indexing: len(a) and iteration
    try:
        seq = dict(n=len(a), it=[float(v).hex() for v in a])
    except Exception as e:
        seq = dict(err=err_kind(e))
    return dict(res=res, index=idx, seq=seq)


def _rows_array(t):
    from barril.units import Array

    rows = [tuple(oc.val(x) for x in row) for row in t["rows"]]
    return Array(tuple(rows) if t["outer"] == "tuple" else rows, t["u"], t["c"])


def _run_getvaluesrows(t):
    try:
        a = _rows_array(t)
    except Exception as e:
        return dict(err="other", detail="operand does not build: %r" % (e,))
    try:
        r = a.GetValues(t["to"])
    except Exception as e:
        return dict(err=err_kind(e))
    outer = "tuple" if isinstance(r, tuple) else "list" if isinstance(r, list) else "?"
    if not all(isinstance(row, tuple) for row in r):
        return dict(err="other", detail="a row is not a tuple")
    if not all(math.isfinite(float(v)) for row in r for v in row):
        return dict(err="other", detail="nonfinite")
    return dict(ok=dict(outer=outer, rows=[[float(v).hex() for v in row] for row in r]))


def _run_str(t):
    from barril.units import Array

    try:
        a = Array.CreateWithQuantity(oc.quantity(t["q"]), values=_str_values(t))
    except Exception as e:
        return dict(err="other", detail="operand does not build: %r" % (e,))
    try:
        return dict(ok=dict(text=list(str(a).encode("utf8"))))
    except Exception as e:
        return dict(err=err_kind(e))


def impl(c, ctx):
    t = c["_t"]
    if c["op"] == "binop":
        io = oc.run_binop(t["f"], t["a"], t["b"])
    elif c["op"] == "fromscalars2":
        io = _run_fromscalars2(t)
        if "res" in io and "err" in io["res"]:
            io = io["res"]
        oc.count(ctx, "fromscalars2 %s unit=%s category=%s -> %s" % (
            "no scalar" if not t["ss"] else "simple" if all(len(s_["q"]) == 1 and int(s_["q"][0][2]) == 1 for s_ in t["ss"]) else "derived/empty",
            "given" if t["unit"] is not None else "-", "given" if t["category"] is not None else "-",
            io.get("err", "ok")))
        return io
    elif c["op"] == "getvaluesrows":
        io = _run_getvaluesrows(t)
    elif c["op"] in ("regbinop", "reggetvalues"):
        with _registered(t["regs"]):
            io = oc.run_binop(t["f"], t["a"], t["b"]) if c["op"] == "regbinop" else _run_getvalues(t, copy=True)
        oc.count(ctx, "%s after registering %s -> %s" % (
            c["op"], "+".join(sorted({r["cls"] for r in t["regs"]})), io.get("err", "ok")))
        return io
    elif c["op"] == "str":
        io = _run_str(t)
    elif c["op"] == "fromscalars":
        io = _run_fromscalars(t)
        if "res" in io and "err" in io["res"]:
            io = io["res"]
    elif c["op"] == "getvalues":
        io = _run_getvalues(t)
    else:
        io = _run_getvalue(t)
    oc.count(ctx, oc.branch_key(c, io))
    return io


def agree(c, io, mo, ctx):
    if c["op"] in ("binop", "regbinop"):
        return oc.agree_binop(c, io, mo)
    if c["op"] == "str":
        if "err" in io:
            return "str(Array) raised: %s" % io
        return None if io["ok"]["text"] == mo["ok"]["text"] else "texts differ: impl=%r model=%r" % (
            bytes(io["ok"]["text"]).decode("utf8", "replace"), bytes(mo["ok"]["text"]).decode("utf8", "replace"))
    if c["op"] == "getvaluesrows":
        if "err" in io or "err" in mo:
            if ("err" in io) != ("err" in mo):
                return "one side fails: impl=%s model=%s" % (io, mo)
            return None if io["err"] == mo["err"] else "error kinds differ: impl=%s model=%s" % (io, mo)
        a, b = io["ok"], mo["ok"]
        if a["outer"] != c["_t"]["outer"]:
            return "the container of the rows changed: %s -> %s" % (c["_t"]["outer"], a["outer"])
        if len(a["rows"]) != len(b["rows"]):
            return "numbers of rows differ"
        for i, (ra, rb) in enumerate(zip(a["rows"], b["rows"])):
            if c["u"] == c["to"]:
                if [qstr(oc.exact_of(x)) for x in ra] != rb:
                    return "row %d: same-unit values are not returned unchanged" % i
                continue
            why = oc.compare_values(ra, rb, qparse(b["M"]), False)
            if why:
                return "row %d: %s" % (i, why)
        return None
    if c["op"] in ("fromscalars", "fromscalars2"):
        mres = mo.get("res", mo)
        if "err" in io or "err" in mres:
            if ("err" in io) != ("err" in mres):
                return "one side fails: impl=%s model=%s" % (io, mres)
            return None if io["err"] == mres["err"] else "error kinds differ: impl=%s model=%s" % (io, mres)
        why = oc.agree_binop(dict(_t=dict(a={}, b={})), io["res"], mres)
        if why:
            return why
        if len(io["index"]) != len(mo["index"]):
            return "index lists differ in length"
        seq = io.get("seq") or {}
        if "err" in seq or seq.get("n") != len(io["res"]["ok"]["vs"]) or seq.get("it") != [
                float(oc.val(v)).hex() for v in io["res"]["ok"]["vs"]]:
            return "len() / iteration of the Array do not give its values: %s" % (seq,)
        M = qparse(mres["ok"]["M"])
        for i, (a, b) in enumerate(zip(io["index"], mo["index"])):
            if isinstance(a, dict) or isinstance(b, dict):
                if not (isinstance(a, dict) and isinstance(b, dict) and a["err"] == b["err"]):
                    return "indexing position %d: impl=%s model=%s" % (i, a, b)
            elif not oc.tol_close(oc.val(a), qparse(b), M):
                return "indexing position %d: impl=%r model=%s" % (i, oc.val(a), b)
        return None
    # getvalues / getvalue
    if "err" in io or "err" in mo:
        if ("err" in io) != ("err" in mo):
            return "one side fails: impl=%s model=%s" % (io, mo)
        return None if io["err"] == mo["err"] else "error kinds differ: impl=%s model=%s" % (io, mo)
    a, b = io["ok"], mo["ok"]
    if c["op"] in ("getvalues", "reggetvalues") and a["kind"] != b["kind"]:
        return "container kinds differ: impl=%s model=%s" % (a["kind"], b["kind"])
    if c["u"] == c["to"]:
        exactly = [qstr(oc.exact_of(x)) for x in a["vs"]] == b["vs"]
        return None if exactly else "same-unit values are not returned unchanged"
    if a.get("copy") is not None:
        why = oc.compare_values(a["copy"], b["vs"], qparse(b["M"]), False)
        if why:
            return "CreateCopy(unit=...): " + why
    return oc.compare_values(a["vs"], b["vs"], qparse(b["M"]), False)


def nontrivial(c, io):
    return "ok" in io or "res" in io


# ------------------------------------------------------------- the property itself, on the real code only
def _tol(*mags):
    return 1e-9 * max([abs(float(m)) for m in mags] + [1e-300])


def _apply(f, x, y):
    import warnings

    import numpy as np

    with warnings.catch_warnings():
        warnings.simplefilter("ignore")
        with np.errstate(all="ignore"):
            return oc.PYOP[f](x, y)


ARITH = (ZeroDivisionError, OverflowError)


def _silently_wrong(ctx, f, q1, q2, x, y, got):
    """a zero or non-finite result although the exact one is non-zero and inside the float range"""
    if f == "floordiv":
        z = oc.exact_result(ctx, "div", q1, q2, x, y)
        if isinstance(z, Fraction) and not math.isfinite(got):
            return "the result is finite: exact operands and quotient are inside the float range"
        return None
    z = oc.exact_result(ctx, f, q1, q2, x, y)
    if not isinstance(z, Fraction):
        return None
    if not math.isfinite(got):
        return "the result is finite: exact operands and result are inside the float range"
    if got == 0.0 and z != 0 and f in ("mul", "div"):
        return "the result is not zero: the exact result is non-zero and inside the float range"
    return None


def _oracle_arith(t, ctx):
    """Scalar op Scalar: an arithmetic error or a silently zero / infinite result is legitimate only for a zero
    divisor or magnitudes that leave the float range"""
    from barril.units import Scalar  # noqa: F401

    f, a, b = t["f"], t["a"], t["b"]
    x, y = oc.val(a["x"]), oc.val(b["x"])
    form = "%s %s %s" % (oc.render(a), oc.OPSIGN[f], oc.render(b))
    try:
        A, B = oc.build(a), oc.build(b)
    except Exception:
        return None
    try:
        r = _apply(f, A, B)
    except ARITH as e:
        z = oc.exact_result(ctx, f, a["q"], b["q"], x, y)
        if isinstance(z, Fraction):
            return dict(clause="the operation is defined: exact operands and result are non-zero and inside the float range",
                        form=form, raised=repr(e), exact=float(z))
        return None
    except Exception:
        return None
    why = _silently_wrong(ctx, f, a["q"], b["q"], x, y, r.value) if hasattr(r, "value") else None
    return dict(clause=why, form=form, got=r.value) if why else None


def _oracle_binop(t, ctx):
    import numpy as np
    from barril.units import Array, Scalar

    f, a, b = t["f"], t["a"], t["b"]
    if a["t"] == "scalar" and b["t"] == "scalar":
        return _oracle_arith(t, ctx)
    if a["t"] != "array" or b["t"] != "array":
        return None
    try:
        A, B = oc.build(a), oc.build(b)
    except Exception:
        return None
    form = "%s %s %s" % (oc.render(a), oc.OPSIGN[f], oc.render(b))
    xs, ys = [oc.val(x) for x in a["xs"]], [oc.val(y) for y in b["xs"]]
    try:
        r = _apply(f, A, B)
        raised = None
    except Exception as e:
        r, raised = None, e
    if len(xs) != len(ys):
        if raised is None:
            return dict(clause="operands of different lengths are rejected", form=form, got=repr(r)[:200],
                        lengths=[len(xs), len(ys)])
        return None
    # the same operation on the corresponding Scalars (and on 1.0, 1.0 for the quantity of an empty result)
    qa, qb = A.GetQuantity(), B.GetQuantity()
    pairs = list(zip(xs, ys)) + ([] if xs else [(1.0, 1.0)])
    scal, scal_err, err_pair = [], None, None
    for x, y in pairs:
        try:
            scal.append(_apply(f, Scalar.CreateWithQuantity(qa, value=float(x)), Scalar.CreateWithQuantity(qb, value=float(y))))
        except Exception as e:
            scal_err, err_pair = e, (x, y)
            break
    if scal_err is not None and not xs and isinstance(scal_err, ARITH) and f in ("div", "floordiv") and "nd" not in (a["kind"], b["kind"]):
        # no values: the quantity of the Scalar quotient is the one of ANY amounts; when the dummy amounts (1.0, 1.0)
        # divide by zero only because 1.0 of the divisor's unit is 0 of the matched unit, other amounts show it
        try:
            other = _apply(f, Scalar.CreateWithQuantity(qa, value=2.0), Scalar.CreateWithQuantity(qb, value=3.0))
        except Exception:
            other = None
        if other is not None:
            if raised is not None:
                return {"clause": "the result's quantity equals the Scalar result's quantity (value-less operands)", "form": form,
                        "raised": repr(raised), "scalar_quantity": oc.entries(other.GetQuantity()), "class": CLASS_PROBE}
            if r.GetQuantity() != other.GetQuantity():
                return dict(clause="the result's quantity equals the Scalar result's quantity", form=form,
                            got=oc.entries(r.GetQuantity()), want=oc.entries(other.GetQuantity()))
            return None
    if scal_err is not None:
        if isinstance(scal_err, ARITH):
            # legitimate only for a zero divisor / magnitudes that leave the float range (exact, from the table slopes)
            z = oc.exact_result(ctx, f, a["q"], b["q"], err_pair[0], err_pair[1])
            if isinstance(z, Fraction):
                return dict(clause="the operation is defined: exact operands and result are non-zero and inside the float range",
                            form=form, elements=[float(err_pair[0]), float(err_pair[1])], raised=repr(scal_err), exact=float(z))
            return None
        if raised is None:
            return dict(clause="the Scalar operation fails, the Array operation does not", form=form, scalar_error=repr(scal_err))
        return None
    for (x, y), sc in zip(pairs, scal):
        why = _silently_wrong(ctx, f, a["q"], b["q"], x, y, sc.value)
        if why:
            return dict(clause=why, form=form, elements=[float(x), float(y)], got=sc.value)
    if any(not math.isfinite(s.value) for s in scal):
        return None
    if raised is not None:
        if isinstance(raised, ARITH):
            if all(isinstance(oc.exact_result(ctx, f, a["q"], b["q"], x, y), Fraction) for x, y in pairs):
                return dict(clause="every Scalar operation succeeds, the Array operation raises", form=form, raised=repr(raised))
            return None
        return dict(clause="every Scalar operation succeeds, the Array operation raises", form=form, raised=repr(raised))
    if not isinstance(r, Array):
        return dict(clause="the result is an Array", form=form, got=type(r).__name__)
    got = list(r.values)
    if r.GetQuantity() != scal[0].GetQuantity() or r.GetUnit() != scal[0].GetUnit():
        return dict(clause="the result's quantity equals the Scalar result's quantity", form=form,
                    got=oc.entries(r.GetQuantity()), want=oc.entries(scal[0].GetQuantity()))
    if len(got) != len(xs):
        return dict(clause="one result element per element pair", form=form, got=len(got), want=len(xs))
    for i in range(len(xs)):
        g, w = float(got[i]), scal[i].value
        if not math.isfinite(g):
            continue
        tol = _tol(g, w, xs[i], ys[i])
        if abs(g - w) > tol and not (f == "floordiv" and abs(g - w) <= 1.0 + tol):
            return dict(clause="each element equals the Scalar result", form=form, index=i, got=g, want=w)
    # container independence: the same values in plain lists
    try:
        base = _apply(f, Array.CreateWithQuantity(qa, values=[float(x) for x in xs]),
                      Array.CreateWithQuantity(qb, values=[float(y) for y in ys]))
    except Exception as e:
        if isinstance(e, ZeroDivisionError):
            return None
        return dict(clause="the outcome does not depend on the container kind", form=form, with_lists=repr(e))
    if base.GetQuantity() != r.GetQuantity() or len(base.values) != len(got):
        return dict(clause="the outcome does not depend on the container kind", form=form,
                    got=oc.entries(r.GetQuantity()), with_lists=oc.entries(base.GetQuantity()))
    for i, (g, w) in enumerate(zip(got, base.values)):
        g, w = float(g), float(w)
        if math.isfinite(g) and math.isfinite(w) and abs(g - w) > _tol(g, w, xs[i], ys[i]) and not (
                f == "floordiv" and abs(g - w) <= 1.0 + _tol(g, w)):
            return dict(clause="the outcome does not depend on the container kind", form=form, index=i, got=g, with_lists=w)
    return None


def _oracle_fromscalars(t, ctx):
    from barril.units import Array, Scalar

    try:
        ss = [Scalar(oc.val(s["x"]), s["u"], s["c"]) for s in t["ss"]]
    except Exception:
        return None
    if len({s.GetQuantityType() for s in ss}) > 1:
        return None
    form = "Array.FromScalars([%s])" % ", ".join("Scalar(%r, %r, %r)" % (oc.val(s["x"]), s["u"], s["c"]) for s in t["ss"])
    try:
        a = Array.FromScalars(ss)
    except Exception as e:
        return dict(clause="FromScalars of Scalars of one quantity type", form=form, raised=repr(e))
    if len(a) != len(ss):
        return dict(clause="FromScalars keeps every Scalar", form=form, got=len(a), want=len(ss))
    for i, s in enumerate(ss):
        try:
            back = Scalar(float(a[i]), a.GetUnit(), a.GetCategory()).GetValue(s.GetUnit())
            want_in_array_unit = s.GetValue(a.GetUnit())
        except Exception as e:
            return dict(clause="FromScalars then indexing returns the original amounts", form=form, index=i, raised=repr(e))
        if not (math.isfinite(back) and math.isfinite(want_in_array_unit)):
            continue
        if abs(float(a[i]) - want_in_array_unit) > _tol(a[i], want_in_array_unit) and abs(back - s.value) > _tol(back, s.value):
            return dict(clause="FromScalars then indexing returns the original amounts", form=form, index=i,
                        got=float(a[i]), unit=a.GetUnit(), want=want_in_array_unit)
    return None


def _oracle_getvalues(t, ctx):
    import numpy as np
    from barril.units import Array, Scalar

    vs = [oc.val(x) for x in t["xs"]]
    form = "Array(%s of %r, %r, %r).GetValues(%r)" % (t["kind"], vs, t["u"], t["c"], t["to"])
    try:
        want = [Scalar(v, t["u"], t["c"]).GetValue(t["to"]) for v in vs]
    except Exception:
        return None
    outs = {}
    for kind in oc.KINDS:
        cont = tuple(vs) if kind == "tuple" else np.array(vs, dtype=np.float64) if kind == "nd" else list(vs)
        try:
            outs[kind] = Array(cont, t["u"], t["c"]).GetValues(t["to"])
        except Exception as e:
            if not vs:
                continue
            return dict(clause="unit conversion of an Array equals the conversion of the Scalars", form=form, kind=kind, raised=repr(e))
        got = [float(v) for v in outs[kind]]
        if len(got) != len(want):
            return dict(clause="unit conversion keeps the length", form=form, kind=kind, got=len(got), want=len(want))
        for i, (g, w) in enumerate(zip(got, want)):
            if math.isfinite(g) and math.isfinite(w) and abs(g - w) > _tol(g, w, vs[i]):
                return dict(clause="unit conversion of an Array equals the conversion of the Scalars", form=form, kind=kind,
                            index=i, got=g, want=w)
    return None


def _oracle_fromscalars2(t, ctx):
    """FromScalars followed by indexing returns the original amounts, re-expressed in the Array's unit.  Success is
    demanded where the arguments leave no doubt: Scalars of simple quantities of one quantity type, `unit` (if
    given) a unit of that type, `category` (if given) a category of that type.  Whenever an Array comes back,
    every position is judged: a Scalar of a simple quantity against its own conversion; a Scalar of a derived
    quantity is accepted only under its own unit string, so its amount must come back unchanged.  (Scalars of the
    empty quantity carry a bare number: nothing is demanded of them.)"""
    from barril.units import Array, Scalar

    try:
        ss, it, kw = _fs2_build(t)
    except Exception:
        return None
    form = "Array.FromScalars(%s of [%s]%s)" % (t["it"], ", ".join(oc.render(oc.scalar_spec(s_["q"], oc.val(s_["x"]))) for s_ in t["ss"]),
                                                "".join(", %s=%r" % kv for kv in sorted(kw.items())))
    simple = [len(s_["q"]) == 1 and int(s_["q"][0][2]) == 1 for s_ in t["ss"]]
    must = bool(ss) and all(simple) and len({s_.GetQuantityType() for s_ in ss}) == 1
    if must:
        qt = ss[0].GetQuantityType()
        if "unit" in kw and kw["unit"] and kw["unit"] not in ctx.units.get(qt, []):
            must = False
        if "category" in kw and kw["category"]:
            try:
                must = must and ctx.db.GetCategoryQuantityType(kw["category"]) == qt
            except Exception:
                must = False
    try:
        a = Array.FromScalars(it, **kw)
    except Exception as e:
        if must:
            return dict(clause="FromScalars of Scalars of one quantity type (unit / category of that type)", form=form, raised=repr(e))
        return None
    if not ss:
        if len(a) != 0:
            return dict(clause="FromScalars of no Scalar is an empty Array", form=form, got=len(a))
        if "unit" in kw and kw["unit"] and a.GetUnit() != kw["unit"]:
            return dict(clause="FromScalars keeps the unit asked for", form=form, got=a.GetUnit())
        return None
    if len(a) != len(ss):
        return dict(clause="FromScalars keeps every Scalar", form=form, got=len(a), want=len(ss))
    if "unit" in kw and kw["unit"] and a.GetUnit() != kw["unit"]:
        return dict(clause="FromScalars keeps the unit asked for", form=form, got=a.GetUnit())
    if "category" in kw and kw["category"] and a.GetCategory() != kw["category"]:
        return dict(clause="FromScalars keeps the category asked for", form=form, got=a.GetCategory())
    for i, (s_, smp) in enumerate(zip(ss, simple)):
        if not t["ss"][i]["q"]:
            continue
        got = float(a[i])
        if s_.GetUnit() == a.GetUnit():
            if got != s_.value and not (math.isnan(got) and math.isnan(s_.value)):
                return dict(clause="FromScalars then indexing returns the original amounts", form=form, index=i, got=got,
                            want=s_.value, unit=a.GetUnit())
            continue
        if not smp:
            return dict(clause="FromScalars then indexing returns the original amounts", form=form, index=i, got=got,
                        note="a Scalar of a derived quantity in %r was taken into an Array in %r" % (s_.GetUnit(), a.GetUnit()))
        try:
            want = s_.GetValue(a.GetUnit())
            back = Scalar(got, a.GetUnit(), a.GetCategory()).GetValue(s_.GetUnit())
        except Exception as e:
            return dict(clause="FromScalars then indexing returns the original amounts", form=form, index=i, raised=repr(e))
        if not (math.isfinite(back) and math.isfinite(want)):
            continue
        if abs(got - want) > _tol(got, want) and abs(back - s_.value) > _tol(back, s_.value):
            return dict(clause="FromScalars then indexing returns the original amounts", form=form, index=i,
                        got=got, unit=a.GetUnit(), want=want)
    return None


def _oracle_getvaluesrows(t, ctx):
    from barril.units import Scalar

    rows = [[oc.val(x) for x in row] for row in t["rows"]]
    form = "Array(%s of tuples %r, %r, %r).GetValues(%r)" % (t["outer"], rows, t["u"], t["c"], t["to"])
    try:
        want = [[Scalar(v, t["u"], t["c"]).GetValue(t["to"]) for v in row] for row in rows]
    except Exception:
        return None
    try:
        got = _rows_array(t).GetValues(t["to"])
    except Exception as e:
        if not any(rows):
            return None
        return dict(clause="unit conversion of an Array equals the conversion of the Scalars", form=form, raised=repr(e))
    if len(got) != len(want) or any(len(g) != len(w) for g, w in zip(got, want)):
        return dict(clause="unit conversion keeps the length", form=form, got=[len(g) for g in got], want=[len(w) for w in want])
    for i, (gr, wr) in enumerate(zip(got, want)):
        for j, (g, w) in enumerate(zip(gr, wr)):
            g, w = float(g), float(w)
            if math.isfinite(g) and math.isfinite(w) and abs(g - w) > _tol(g, w, rows[i][j]):
                return dict(clause="unit conversion of an Array equals the conversion of the Scalars", form=form,
                            index=[i, j], got=g, want=w)
    return None


def _oracle_registry(c, t, ctx):
    """the property on a database on which somebody has registered additional conversion types: the same demands
    (elements = Scalar results, the Scalar result's quantity, no dependence on the container kind), judged while the
    registrations are in place; CreateCopy(unit=...) is the unit conversion too"""
    import numpy as np
    from barril.units import Array, Scalar

    with _registered(t["regs"]):
        fl = _oracle_binop(t, ctx) if c["op"] == "regbinop" else _oracle_getvalues(t, ctx)
        if fl is None and c["op"] == "reggetvalues":
            vs = [oc.val(x) for x in t["xs"]]
            try:
                want = [Scalar(v, t["u"], t["c"]).GetValue(t["to"]) for v in vs]
            except Exception:
                want = None
            for kind in oc.KINDS if want is not None else ():
                cont = tuple(vs) if kind == "tuple" else np.array(vs, dtype=np.float64) if kind == "nd" else list(vs)
                try:
                    got = [float(v) for v in Array(cont, t["u"], t["c"]).CreateCopy(unit=t["to"]).GetValues()]
                except Exception:
                    continue
                for i, (g, w) in enumerate(zip(got, want)):
                    if math.isfinite(g) and math.isfinite(w) and abs(g - w) > _tol(g, w, vs[i]):
                        fl = dict(clause="unit conversion of an Array equals the conversion of the Scalars", kind=kind, index=i,
                                  form="Array(%s of %r, %r, %r).CreateCopy(unit=%r).GetValues()" % (kind, vs, t["u"], t["c"], t["to"]),
                                  got=g, want=w)
                        break
                if fl:
                    break
    if fl:
        seen, after = {}, []
        for r in t["regs"]:
            refused = seen.setdefault(r["cls"], r["k"]) != r["k"]
            after.append("UnitDatabase.RegisterAdditionalConversionType(<class %s>, <its conversion: the number conversion times %r>)%s"
                         % (_reg_class(r["cls"]).__name__, oc.val(r["k"]), " (refused: AssertionError, the class has a function)" if refused else ""))
        fl["after"] = after
    return fl


def oracle(c, ctx):
    t = c["_t"]
    if c["op"] in ("regbinop", "reggetvalues"):
        return _oracle_registry(c, t, ctx)
    if c["op"] == "fromscalars2":
        return _oracle_fromscalars2(t, ctx)
    if c["op"] == "getvaluesrows":
        return _oracle_getvaluesrows(t, ctx)
    if c["op"] == "str":
        return None
    if c["op"] == "binop":
        return _oracle_binop(t, ctx)
    if c["op"] == "fromscalars":
        return _oracle_fromscalars(t, ctx)
    if c["op"] == "getvalues":
        return _oracle_getvalues(t, ctx)
    return None


def matches_known(entry, case, failure):
    """Only the recorded input class: `Array / Array` or `Array // Array`, both over a list or a tuple (no ndarray),
    both WITHOUT values, simple quantities of one quantity type in different units where 1.0 of the divisor's unit is
    exactly 0 of the dividend's unit, failing because the operation raises although the Scalar quotient has a
    quantity.  Everything else stays a violation."""
    if (entry.get("matcher") or {}).get("class") != CLASS_PROBE or not failure or failure.get("class") != CLASS_PROBE:
        return False
    if case.get("op") != "binop":
        return False
    t = case["_t"]
    a, b = t["a"], t["b"]
    if t["f"] not in ("div", "floordiv") or a["t"] != "array" or b["t"] != "array":
        return False
    if a["xs"] or b["xs"] or "nd" in (a["kind"], b["kind"]):
        return False

    class _C:
        pass

    from barril.units.unit_database import UnitDatabase

    c_ = _C()
    c_.db = UnitDatabase.GetSingleton()
    return _probe_zero(c_, a["q"], b["q"])


CLASS_NPSCALAR = "array-op-array: list/tuple container whose elements are numpy scalars, units differ"


def _replay_npscalar(entry):
    """the recorded input of C10-list-of-numpy-scalars-unit-matching on the real code (list elements are plain
    Python numbers in the generators: element types inside lists are not modelled)"""
    import numpy

    from barril.units import Array, Scalar

    rc = entry.get("replay_case") or {}
    elem = getattr(numpy, rc.get("right_elem", "int64"))(1)
    lu, ru = rc.get("left_unit", "m"), rc.get("right_unit", "cm")
    want = (Scalar(rc.get("left", [1.0])[0], lu) + Scalar(elem, ru)).value
    try:
        got = (Array(list(rc.get("left", [1.0])), lu) + Array([elem], ru)).values[0]
    except TypeError as e:
        return dict(clause="each element equals the Scalar result", raised=repr(e), scalar_result=want,
                    **{"class": CLASS_NPSCALAR})
    return None if abs(got - want) <= 1e-12 * max(1.0, abs(want)) else dict(
        clause="each element equals the Scalar result", got=got, want=want, **{"class": CLASS_NPSCALAR})


def replay_finding(entry, ctx):
    if (entry.get("matcher") or {}).get("class") == CLASS_NPSCALAR:
        return _replay_npscalar(entry)
    if (entry.get("matcher") or {}).get("class") != CLASS_PROBE:
        return None
    rc = entry.get("replay_case") or {}
    q1 = [[c, u, int(e)] for c, u, e in rc.get("dividend", [["pressure", "Pa(g)", 1]])]
    q2 = [[c, u, int(e)] for c, u, e in rc.get("divisor", [["pressure", "atm", 1]])]
    f = {"/": "div", "//": "floordiv"}[rc.get("op", "/")]
    c = oc.binop_case(f, oc.array_spec(q1, rc.get("kind1", "list"), []), oc.array_spec(q2, rc.get("kind2", "tuple"), []))
    fl = oracle(c, ctx)
    return fl if (fl and matches_known(entry, c, fl)) else None


def search(ctx):
    yield from _gen_registry(ctx, ctx.fresh_rng("C10regsearch"), 12, 60)
    yield from _gen(ctx, "search", 24, (0, 1, 2, 3, 5), 6, 300, 200)
