"""C11 - size invariants: FixedArray dimension (>= 2) and Curve image/domain length.

Decided by: Barril/Props/C11.lean over the hand-written model Barril/Model/Fixed.lean (the internal
constructor as an automaton over class default / instance attribute / dimension keyword /
len(values); every entry route; CreateCopy, arithmetic, pickling, ChangingIndex, IndexAsScalar;
Curve setters; the rest of the public surface: len / iteration / indexing / slicing / the public CheckValues / == /
FromScalars / extra keywords of CreateCopy on a FixedArray, curve[i] / curve[a:b:c] / GetLength() / repr on a Curve).
Tie: every construction route and every single operation, exhaustively over
dimensions -1..5 x containers (list, tuple, ndarray) of length 0..6, plus seeded random chains of
operations over a store of arrays and Curve call sequences, each run on the real code and on the
model (driver drv_fixed)."""
import copy
import pickle

from common import close, err_kind, exact, qparse, qstr, sym

ID = "C11"
LEAN_MODULES = ["Barril.Props.C11"]
DRIVERS = ["drv_fixed"]
DRIVER_EXE = "drv_fixed"
RULE = ("exhaustive: dimensions -1..5 x value containers (list, tuple, ndarray; None; an object without len) of "
        "length 0..6 x every construction route (positional forms value-first / category-first / quantity-first, "
        "category only, malformed forms, CreateWithQuantity with and without the dimension keyword and with the "
        "value/values keywords, CreateEmptyArray, the internal constructor on an object of a class without the "
        "_dimension attribute) x classes (FixedArray, subclasses pinning _dimension to 3 and to 1); every single "
        "operation (CreateCopy with new values / unit / category, pickle round trip, copy, assignment to the read-only "
        "properties, + - * / // with numbers on "
        "both sides, with bare ndarrays of length 0..6 on both sides, with Array / FixedArray operands of length "
        "0..6 in m/cm/ft/kg/no unit, ChangingIndex and IndexAsScalar for every index -7..6 and every value form) on "
        "source arrays of dimension 2..4 in three containers and three quantities; seeded random chains of 1..8 "
        "operations over a store of arrays (each step compared on the real pre-state, the whole chain compared "
        "structurally through the model's history function); Curve constructor (positional and keyword forms) and histories of SetImage / SetDomain / SetValues / "
        "assignment to curve.image and curve.domain / copy / deepcopy, with every read route checked after each step, over arrays of every container shape (flat list / tuple / "
        "1-D ndarray, FixedArray, list or tuple of pairs / triples, 2-D ndarray), exhaustively for all ordered pairs of a "
        "34-array pool and randomly around colliding counts (same number of scalars, other number of points). "
        "distinct = distinct request; non-trivial = the request involves a size decision (a length, a dimension "
        "or an index is checked) and both sides answered.  Added: containers of POINTS (list / tuple of pairs or triples, "
        "2-D ndarray) of 0..4 points through every construction route (only their count matters); the unknown quantity "
        "through every form; FixedArray.FromScalars on every class (0..3 Scalars x units / categories); on every source "
        "of the grid: CreateCopy with the extra keywords dimension= / value= / unit_database= and with positional "
        "arguments, CreateCopyInstance, len, iteration, array[i] for i in -7..6, array[a:b:c] for 384 slices (None / "
        "negative / out-of-range bounds, steps None, 1, 2, -1, -2, 0), the public CheckValues with and without its "
        "dimension keyword for containers of length 0..6, == and != against things that are not a FixedArray and (in "
        "chains) against arrays of the store, __rdiv__; * / // with Array / FixedArray operands of length 0..6 and with "
        "numbers / bare ndarrays on the left, whose result is a DERIVED quantity (class, dimension, length and container "
        "compared through the model's doOperation with a size-only operation_func); sources with a DERIVED quantity "
        "(m2, m.kg, m/kg, m/cm) x pickle / copies / CreateCopy / indexing / IndexAsScalar / ChangingIndex with a number / "
        "+ - with numbers and bare ndarrays; Curve reads: curve[i] for every i in -n-2..n+1, slices, GetLength(), repr "
        "(parsed back: units, the pairs shown, the ellipsis) on curves of 0..4 points over every pair of 7 container "
        "shapes, fresh and after an accepted and a rejected setter, on curves of 20 / 21 / 22 / 30 points, and mixed "
        "into the random call sequences.  Added: ndarray containers of an INTEGER dtype (int32, int64) and of float32 (dimension "
        "2..4, m / cm / ft / no unit) x every index -n-1..n x ChangingIndex with FRACTIONAL amounts as a number, (v,), (v, unit), "
        "(v, unit, category), (None, unit), a Scalar in the array's own and in another unit, use_value_unit True / False / default, "
        "each also followed by IndexAsScalar of the changed index (with and without a quantity); IndexAsScalar with and without a "
        "target quantity on them; 30% of the random chains start from such a container (operations that stay clear of "
        "array-with-array arithmetic and CreateCopy with a unit).  A number the real code holds as numpy.float32, or computed from "
        "such numbers, is compared within K*eps(float32)*M; the element ChangingIndex stores is a Python float today and is "
        "compared within the float64 bound")
EXHAUSTIVE = {"quick": True, "thorough": True}
ASSUMPTIONS = [
    "FixedArray part: values are 1-D containers of finite numbers (list, tuple, 1-D ndarray of float64 - and, through ChangingIndex / "
    "IndexAsScalar / same-unit operations, of int32 / int64 / float32); containers of "
    "points (list / tuple of tuples, 2-D ndarray) are taken through the construction routes only, where nothing but "
    "their count matters - the Curve part takes them everywhere, with their numbers; a str or another n-D ndarray in a "
    "FixedArray values slot is outside the modelled domain (e.g. a (3,) FixedArray plus a (2,1) ndarray broadcasts to a 2x3 "
    "array that the code accepts as a FixedArray of dimension 2: len(values) == dimension still holds)",
    "quantities are the empty quantity or simple (one category, one unit); of arithmetic whose result is a derived "
    "quantity (array*array, array/array, number/array) the theorems cover everything (any operation_func), the "
    "correspondence class, dimension, length, container and the ValueError cases; its numbers and quantity are the "
    "Alg engine's (C03/C04).  A source with a derived quantity is modelled as an opaque (category, unit) pair and only "
    "taken through operations that stay in its own unit (pickle, copies, CreateCopy without unit, indexing, + - with numbers)",
    "indices are ints and slices of ints / None (a float, str or bool index is numpy's or the list's own TypeError / "
    "IndexError); the digits in repr(curve) are Python's float printing (read back, not modelled); Curve.__eq__, "
    "FixedArray.__repr__ / __str__ are not modelled (C08 / formatting)",
    "float results stay within K*eps*M (K=64) of the exact model: checked on every run, not proved",
    "numpy's elementwise arithmetic and 1-D broadcasting rule, Python's index normalisation, pickle and copy are "
    "modelled, not verified",
    "objects are immutable values in the model; that no operation writes into its source is checked by the "
    "correspondence/oracle on every case (aliasing of stored containers is C13)",
]

UNITS_OK = ("m", "cm", "ft")
CATS_OK = ("length", "depth")
K_LIST, K_TUPLE, K_ND = "list", "tuple", "ndarray"
KINDS = (K_LIST, K_TUPLE, K_ND)
_TRACE = {}
K32 = 64 * 2 ** 29      # K * eps(float32) / eps(float64): the bound of `common.close` for a numpy.float32 element
DTYPES = ("int32", "int64", "float32")


# ------------------------------------------------------------------------------------------ encoding
def enc(x):
    """a number as a JSON-able exact token"""
    if isinstance(x, bool):
        raise ValueError("bool")
    if isinstance(x, int):
        return x
    return float(x).hex()


def dec(t):
    return t if isinstance(t, int) else float.fromhex(t)


def vspec(kind, nums, dt=None):
    """`dt`: the dtype of an ndarray container other than float64 ("int32", "int64", "float32"); the numbers are then
    ints / float32-representable, so the container holds exactly them"""
    d = dict(k=kind, v=[enc(x) for x in nums])
    if dt is not None:
        d["dt"] = dt
    return d


def pspec(kind, nums_, w):
    """a container of POINTS: a list / tuple of `w`-tuples or a 2-D ndarray with `w` columns; `len()` of it is the
    number of points, which is all the constructor looks at"""
    return dict(k=kind, v=[enc(x) for x in nums_], w=w)


def mk_vals(spec):
    import numpy

    if spec is None:
        return None
    if spec == "unsized":
        return 5.0
    xs = [dec(t) for t in spec["v"]]
    if spec.get("w"):
        rows = [tuple(float(x) + j for j in range(spec["w"])) for x in xs]
        if spec["k"] == K_LIST:
            return rows
        if spec["k"] == K_TUPLE:
            return tuple(rows)
        return numpy.array(rows, dtype=float).reshape(len(rows), spec["w"])
    if spec["k"] == K_LIST:
        return xs
    if spec["k"] == K_TUPLE:
        return tuple(xs)
    return numpy.array(xs, dtype=spec.get("dt") or float)


def vals_line(spec):
    if spec is None:
        return None
    if spec == "unsized":
        return "unsized"
    if spec.get("w"):   # points: the model sees one placeholder per point (only the count matters)
        return dict(k=spec["k"], xs=["0/1" for _ in spec["v"]])
    return dict(k=spec["k"], xs=[qstr(exact(dec(t))) for t in spec["v"]])


def mk_qty(q):
    from barril.units import ObtainQuantity, Quantity

    if q == "empty":
        return Quantity.CreateEmpty()
    return ObtainQuantity(q["unit"], q["cat"])


def qty_line(q):
    if q is None:
        return None
    if q == "empty":
        return "empty"
    return dict(cat=str(sym(q["cat"])), unit=str(sym(q["unit"])))


def s_(x):
    return None if x is None else str(sym(x))


def classes():
    from barril.units import FixedArray

    global _CLASSES
    try:
        return _CLASSES
    except NameError:
        pass

    class V3(FixedArray):
        _dimension = 3

    class V1(FixedArray):
        _dimension = 1

    class Bare:  # a class WITHOUT the `_dimension` class attribute, borrowing the methods the constructor calls
        _InternalCreateWithQuantity = FixedArray._InternalCreateWithQuantity
        CheckValues = FixedArray.CheckValues

    _CLASSES = {"none": FixedArray, "v3": V3, "v1": V1, "missing": Bare}
    return _CLASSES


def cls_line(name):
    return {"none": "none", "missing": "missing", "v3": {"val": 3}, "v1": {"val": 1}}[name]


def cls_name(obj):
    for name, c in classes().items():
        if type(obj) is c:
            return name
    return "?"


def num_exact(v):
    import numpy

    if isinstance(v, (bool, numpy.bool_)):
        raise ValueError("bool value")
    if isinstance(v, (int, numpy.integer)):
        return exact(int(v))
    return exact(float(v))


def canon(obj, points=False):
    """What the public API shows of a FixedArray-like object (dimension, container, numbers, unit, category).
    `points`: the values are a container of points; one placeholder stands for each."""
    import numpy

    raw = obj._value if not hasattr(obj, "values") else obj.values
    if points and isinstance(raw, (list, tuple, numpy.ndarray)) and (not isinstance(raw, numpy.ndarray) or raw.ndim == 2):
        k, seq, n = _kind_of(raw), [0] * len(raw), len(raw)
        if not all(isinstance(p, (tuple, numpy.ndarray)) for p in raw):
            k += "?"
    elif isinstance(raw, numpy.ndarray):
        k = K_ND if raw.ndim == 1 else "ndarray%dd" % raw.ndim
        seq = list(raw.ravel()) if raw.ndim != 1 else list(raw)
        n = len(raw) if raw.ndim >= 1 else -1
    elif isinstance(raw, list):
        k, seq, n = K_LIST, raw, len(raw)
    elif isinstance(raw, tuple):
        k, seq, n = K_TUPLE, raw, len(raw)
    else:
        k, seq, n = type(raw).__name__, [], -1
    try:
        xs = [qstr(num_exact(v)) for v in seq]
    except Exception:
        xs, k = [], k + "?"
    dim = obj._dimension if not hasattr(obj, "dimension") else obj.dimension
    q = getattr(obj, "_quantity", None)
    out = dict(dim=dim if isinstance(dim, int) and not isinstance(dim, bool) else repr(dim), k=k, len=n, xs=xs,
               unit=str(sym(q.GetUnit())) if q is not None else "?", cat=str(sym(q.GetCategory())) if q is not None else "?")
    f32 = [i for i, v in enumerate(seq) if isinstance(v, numpy.float32)]
    if f32:   # elements the real code holds in single precision: their float bound is float32's
        out["f32"] = f32
    return out


def state_line(st):
    """a canonical state as the model's `FixedArr`"""
    return dict(dim=st["dim"], k=st["k"], xs=st["xs"],
                q="empty" if (st["cat"] == "0" and st["unit"] == "0") else dict(cat=st["cat"], unit=st["unit"]))


def snapshot(obj):
    """Everything observable of a source, to check that an operation did not change it."""
    c = canon(obj)
    return (c["dim"], c["k"], c["len"], tuple(c["xs"]), c["unit"], c["cat"], id(obj._value), id(obj._quantity))


# ------------------------------------------------------------------------------------------ real code
def run_route(r):
    """Runs one construction route on the real code; returns the object or raises."""
    cs = classes()
    cls = cs[r["cls"]]
    kind = r["route"]
    if kind == "init":
        if r["form"] == "cat":
            c = r["c"]
            first = c["str"] if "str" in c else mk_qty(c["qty"])
            args = [first, mk_vals(r.get("values")), r.get("unit")]
        else:
            args = [mk_vals(r.get("values")), r.get("unit"), r.get("category")]
        args = args[:r.get("nargs", 3)]
        return cls(r["dim"], *args)
    if kind == "cwq":
        kw = {}
        if r.get("dimension") is not None:
            kw["dimension"] = r["dimension"]
        if r.get("value") is not None:
            kw["value"] = mk_vals(r["value"])
        if r.get("values") is not None:
            if r.get("positional"):
                return cls.CreateWithQuantity(mk_qty(r["q"]), mk_vals(r["values"]), **kw)
            kw["values"] = mk_vals(r["values"])
        return cls.CreateWithQuantity(mk_qty(r["q"]), **kw)
    if kind == "cea":
        if r.get("values") is not None:
            return cls.CreateEmptyArray(r["dimension"], mk_vals(r["values"]))
        return cls.CreateEmptyArray(r["dimension"])
    if kind == "internal":
        # `_InternalCreateWithQuantity` on a fresh object of a class without the `_dimension` class attribute
        obj = cls()
        if r.get("inst") is not None:
            obj._dimension = r["inst"]
        kw = {}
        if r.get("dimension") is not None:
            kw["dimension"] = r["dimension"]
        if r.get("value") is not None:
            kw["value"] = mk_vals(r["value"])
        if r.get("values") is not None:
            kw["values"] = mk_vals(r["values"])
        cls._InternalCreateWithQuantity(obj, mk_qty(r["q"]), **kw)
        return obj
    if kind == "fromScalars":
        from barril.units import Scalar

        scalars = [Scalar(mk_qty(x["q"]), dec(x["v"])) for x in r["scalars"]]
        if r.get("as_iter"):
            scalars = iter(scalars)
        kw = {k: r[k] for k in ("unit", "category") if r.get(k) is not None}
        return cls.FromScalars(scalars, **kw)
    if kind == "derived":
        # a FixedArray with a DERIVED quantity, obtained the only way there is: real arithmetic on two arrays
        return _PYOP[r["aop"]](run_route(r["a"]), run_route(r["b"]))
    raise ValueError(kind)


def route_line(r):
    kind = r["route"]
    d = dict(op=kind, cls=cls_line(r["cls"]))
    if kind == "init":
        d.update(dim=r["dim"], form=r["form"], values=vals_line(r.get("values")), unit=s_(r.get("unit")))
        n = r.get("nargs", 3)
        if r["form"] == "cat":
            c = r["c"]
            d["c"] = {"str": str(sym(c["str"]))} if "str" in c else {"qty": qty_line(c["qty"])}
            if n < 3:
                d["unit"] = None
            if n < 2:
                d["values"] = None
        else:
            d["category"] = s_(r.get("category"))
            if n < 3:
                d["category"] = None
            if n < 2:
                d["unit"] = None
    elif kind in ("cwq", "internal"):
        d.update(q=qty_line(r["q"]), values=vals_line(r.get("values")), dimension=r.get("dimension"),
                 value=vals_line(r.get("value")))
        if kind == "internal":
            d["inst"] = r.get("inst")
    elif kind == "cea":
        d.update(dimension=r["dimension"], values=vals_line(r.get("values")))
    elif kind == "fromScalars":
        d.update(scalars=[dict(q=qty_line(x["q"]), v=qstr(exact(float(dec(x["v"]))))) for x in r["scalars"]],
                 unit=s_(r.get("unit")), category=s_(r.get("category")))
    elif kind == "derived":
        d = dict(op="derived")  # never sent: a derived source only ever appears as the pre-state of a single step
    return d


def mk_operand(a):
    from barril.units import Array, FixedArray

    vals = mk_vals(dict(k=a["k"], v=a["v"]))
    if a.get("cls") == "FixedArray":
        return FixedArray(len(vals), mk_qty(a["q"]), vals)
    return Array(mk_qty(a["q"]), vals)


def mk_curve_array(a):
    """An array handed to a Curve: flat (list / tuple / 1-D ndarray of numbers, possibly a FixedArray) or, with a
    width `w`, a sequence of points (list of tuples, tuple of tuples, 2-D ndarray of shape (rows, w))."""
    import numpy
    from barril.units import Array

    if a.get("w") is None:
        return mk_operand(a)
    rows = [tuple(float(dec(t)) for t in row) for row in a["v"]]
    if a["k"] == K_LIST:
        vals = rows
    elif a["k"] == K_TUPLE:
        vals = tuple(rows)
    else:
        vals = numpy.array(rows, dtype=float).reshape(len(rows), a["w"])
    return Array(mk_qty(a["q"]), vals)


def points_of(a):
    """number of points of a curve array, known from how it was built (never asked of the library)"""
    return len(a["v"])


def shape_name(a):
    return "flat" if a.get("w") is None else "points"


_PYOP = {"sum": lambda a, b: a + b, "sub": lambda a, b: a - b, "mul": lambda a, b: a * b, "div": lambda a, b: a / b,
         "floordiv": lambda a, b: a // b}
# properties of a FixedArray without a setter: the only "mutators" one could try
RO_ATTRS = ("dimension", "values", "unit", "category", "quantity_type")


class Plain:
    """a result that is neither a FixedArray nor a Scalar: ("int", n), ("num", x), ("seq", (kind, numbers)),
    ("bool", b), ("none", None)"""

    def __init__(self, tag, value):
        self.tag, self.value = tag, value


def _kind_of(v):
    import numpy

    return K_LIST if isinstance(v, list) else K_TUPLE if isinstance(v, tuple) else K_ND if isinstance(v, numpy.ndarray) else type(v).__name__


def mk_foreign(src, what):
    """something that is not a FixedArray, to compare one with"""
    from barril.units import Array

    if what == "array":   # a plain Array with the very same values and quantity
        return Array(src.GetQuantity(), src.values)
    if what == "values":
        return src.values
    return {"number": 3.0, "none": None, "str": "FixedArray"}[what]


def run_op(src, o, store=None):
    """One operation on the real object `src`; returns the result (FixedArray or Scalar) or raises."""
    import numpy
    from barril.units import Scalar

    do = o["do"]
    if do == "copy":
        return {"copy": copy.copy, "deepcopy": copy.deepcopy, "Copy": lambda x: x.Copy(),
                "CreateCopyInstance": lambda x: x.CreateCopyInstance()}[o.get("how", "copy")](src)
    if do in ("createCopy", "createCopyKw"):
        kw = {}
        if o.get("values") is not None:
            kw["values"] = mk_vals(o["values"])
        if o.get("unit") is not None:
            kw["unit"] = o["unit"]
        if o.get("category") is not None:
            kw["category"] = o["category"]
        if do == "createCopyKw":
            from barril.units import UnitDatabase

            kw[o["extra"]] = {"dimension": o.get("n", src.dimension), "value": [0.0] * o.get("n", src.dimension),
                              "unit_database": UnitDatabase.GetSingleton()}[o["extra"]]
        if o.get("pos"):  # the same call with positional arguments
            return src.CreateCopy(mk_vals(o.get("values")), o.get("unit"), o.get("category"))
        return src.CreateCopy(**kw)
    if do == "len":
        return Plain("int", len(src))
    if do == "iter":
        return Plain("seq", (K_LIST, list(iter(src))))
    if do == "getItem":
        return Plain("num", src[o["index"]])
    if do == "getSlice":
        got = src[slice(*o["slice"])]
        return Plain("seq", (_kind_of(got), list(got)))
    if do == "checkValues":
        kw = {} if o.get("dimension") is None else {"dimension": o["dimension"]}
        return Plain("none", src.CheckValues(mk_vals(o["values"]), **kw))
    if do == "eq":
        how = o.get("how", "==")
        other = store[o["other"]] if o["other"] != "foreign" else mk_foreign(src, o.get("foreign", "array"))
        return Plain("bool", (src == other) if how == "==" else (not (src != other)))
    if do == "pickle":
        return pickle.loads(pickle.dumps(src))
    if do == "arith":
        f = _PYOP[o["aop"]]
        rhs = o["rhs"]
        if "other" in rhs:
            return f(src, store[rhs["other"]])
        if "arr" in rhs:
            return f(src, mk_operand(rhs["arr"]))
        other = dec(rhs["num"]) if "num" in rhs else numpy.array([dec(t) for t in rhs["nd"]], dtype=float)
        if rhs.get("how") == "rdiv":   # the Python-2 name of the reflected division, still a public method
            return src.__rdiv__(other)
        return f(src, other) if rhs["left"] else f(other, src)
    if do == "changingIndex":
        v = o["value"]
        if "num" in v:
            value = dec(v["num"])
        elif "tup" in v:
            value = tuple((dec(t) if (i == 0 and t is not None) else t) for i, t in enumerate(v["tup"]))
        else:
            value = Scalar(mk_qty(v["scalar"]["q"]), dec(v["scalar"]["v"]))
        return src.ChangingIndex(o["index"], value, o["uvu"]) if "uvu" in o else src.ChangingIndex(o["index"], value)
    if do == "indexAsScalar":
        if o.get("quantity") is not None:
            return src.IndexAsScalar(o["index"], mk_qty(o["quantity"]))
        return src.IndexAsScalar(o["index"])
    if do == "assign":
        # `array.<attr> = value`: must raise; if it does not, the (possibly changed) source is the outcome
        value = {"dimension": o.get("n", 5), "values": [0.0] * o.get("n", 5), "unit": "cm", "category": "depth",
                 "quantity_type": "length"}[o["attr"]]
        setattr(src, o["attr"], value)
        return src
    raise ValueError(do)


def _is_empty_state(st):
    return st["cat"] == "0" and st["unit"] == "0"


def arith_in_domain(o, src_state, store_states=None):
    """Mirror of the driver's `arithInDomain` (the quantities for which the model computes numbers and quantity of an
    arithmetic result); outside it the request is sent as `arithShape` and only class / dimension / length /
    container are compared."""
    rhs = o["rhs"]
    if "other" in rhs:
        other_empty, left = _is_empty_state(store_states[rhs["other"]]), True
    elif "arr" in rhs:
        other_empty, left = rhs["arr"]["q"] == "empty", True
    else:
        other_empty, left = True, rhs["left"]
    q1e, q2e = (_is_empty_state(src_state), other_empty) if left else (other_empty, _is_empty_state(src_state))
    aop = o["aop"]
    if aop in ("sum", "sub"):
        return True
    if aop == "mul":
        return q1e or q2e
    return q2e


def op_line(o, src_state, src_cls, store_states=None):
    do = o["do"]
    d = dict(op=do, cls=cls_line(src_cls), src=state_line(src_state))
    if do == "copy":
        d["op"] = "createCopy"  # the object itself: checked on the Python side; the model line is a plain CreateCopy()
        d.update(values=None, unit=None, category=None)
    elif do == "createCopy":
        d.update(values=vals_line(o.get("values")), unit=s_(o.get("unit")), category=s_(o.get("category")))
    elif do == "createCopyKw":
        d.update(values=vals_line(o.get("values")), unit=s_(o.get("unit")), category=s_(o.get("category")), extra=o["extra"])
    elif do == "getItem":
        d.update(index=o["index"])
    elif do == "getSlice":
        d.update(slice=dict(zip(("start", "stop", "step"), o["slice"])))
    elif do == "checkValues":
        d.update(values=vals_line(o["values"]), dimension=o.get("dimension"))
    elif do == "eq":
        if o["other"] == "foreign":
            d.update(other="foreign")
        else:   # the model's store for this request is just the array compared with
            st = store_states[o["other"]]
            d.update(other=0, others=[dict(cls="none", src=state_line(st))])
    elif do == "arith":
        rhs = o["rhs"]
        d["aop"] = o["aop"]
        if not arith_in_domain(o, src_state, store_states):
            d["op"] = "arithShape"   # a derived result: the model predicts class, dimension, length and container
        if "other" in rhs:
            st = store_states[rhs["other"]]
            d["rhs"] = dict(arr=dict(k=st["k"], xs=st["xs"], q=state_line(st)["q"]))
        elif "arr" in rhs:
            a = rhs["arr"]
            d["rhs"] = dict(arr=dict(k=a["k"], xs=[qstr(exact(dec(t))) for t in a["v"]], q=qty_line(a["q"])))
        elif "num" in rhs:
            d["rhs"] = dict(num=qstr(exact(dec(rhs["num"]))), left=rhs["left"])
        else:
            d["rhs"] = dict(nd=[qstr(exact(float(dec(t)))) for t in rhs["nd"]], left=rhs["left"])
    elif do == "changingIndex":
        v = o["value"]
        if "num" in v:
            mv = dict(num=qstr(exact(float(dec(v["num"])))))
        elif "tup" in v:
            t = list(v["tup"]) + [None] * (3 - len(v["tup"]))
            mv = dict(tup=dict(v=None if t[0] is None else qstr(exact(float(dec(t[0])))), unit=s_(t[1]), category=s_(t[2])))
        else:
            mv = dict(scalar=dict(q=qty_line(v["scalar"]["q"]), v=qstr(exact(float(dec(v["scalar"]["v"]))))))
        d.update(index=o["index"], value=mv, uvu=o.get("uvu", True))
    elif do == "indexAsScalar":
        d.update(index=o["index"], quantity=qty_line(o.get("quantity")))
    elif do == "assign":
        d.update(attr=o["attr"])
    return d


def canon_result(r, points=False):
    from barril.units import Scalar

    if isinstance(r, Scalar):
        return dict(scalar=dict(unit=str(sym(r.GetUnit())), cat=str(sym(r.GetCategory())), v=qstr(exact(float(r.GetValue())))))
    if points:
        return dict(ok=canon(r, True), cls=cls_name(r))
    if isinstance(r, Plain):
        if r.tag == "int":
            return dict(plain=dict(int=int(r.value)) if isinstance(r.value, int) and not isinstance(r.value, bool) else dict(odd=repr(r.value)))
        if r.tag == "num":
            return dict(plain=dict(num=qstr(num_exact(r.value))))
        if r.tag == "seq":
            return dict(plain=dict(seq=r.value[0], xs=[qstr(num_exact(v)) for v in r.value[1]]))
        if r.tag == "bool":
            return dict(plain=dict(bool=r.value) if isinstance(r.value, bool) else dict(odd=repr(r.value)))
        return dict(plain=dict(none=True) if r.value is None else dict(odd=repr(r.value)))
    return dict(ok=canon(r), cls=cls_name(r))


def attempt(f):
    try:
        return f(), None
    except Exception as e:  # noqa
        return None, e


# ------------------------------------------------------------------------------------------ generators
def nums(rng, n, nonzero=False):
    out = []
    for _ in range(n):
        r = rng.random()
        if r < 0.4:
            x = rng.randint(-9, 9)
        elif r < 0.8:
            x = round(rng.uniform(-100, 100), 3)
        else:
            x = rng.uniform(-1e4, 1e4)
        if nonzero and x == 0:
            x = 1.5
        out.append(x)
    return out


QU = dict(cat="Unknown", unit="<unknown>")      # the unknown quantity: a category of its own with one unit
QL = dict(cat="length", unit="m")
QD = dict(cat="depth", unit="ft")
QC = dict(cat="length", unit="cm")
QK = dict(cat="mass", unit="kg")
QTYS = (QL, QD, "empty")
DIMS = (-1, 0, 1, 2, 3, 4, 5)
LENS = (0, 1, 2, 3, 4, 5, 6)


def construction_cases(ctx, rng):
    """Every construction route x dimension x container x length (the exhaustive part)."""
    clsnames = ("none", "v3", "v1")

    def containers():
        for k in KINDS:
            for n in LENS:
                yield vspec(k, nums(rng, n))

    for cls in clsnames:
        for d in DIMS:
            # forms without values: category only, category+unit keyword, quantity only
            for r in (dict(form="cat", c={"str": "length"}, nargs=1), dict(form="cat", c={"str": "depth"}, unit="ft"),
                      dict(form="cat", c={"str": "length"}, unit="cm"), dict(form="cat", c={"qty": QD}, nargs=1),
                      dict(form="cat", c={"qty": "empty"}, nargs=1), dict(form="cat", c={"qty": QL}, unit="m"),
                      dict(form="cat", c={"str": "nope"}, nargs=1), dict(form="cat", c={"str": "length"}, unit="kg"),
                      dict(form="cat", c={"str": "length"}, unit="nope"), dict(form="val", nargs=1),
                      dict(form="val", unit="m"), dict(form="val", unit="m", category="length"),
                      dict(form="val", category="depth"), dict(form="val", unit="", category=""),
                      dict(form="cat", c={"str": ""}, nargs=1)):
                yield dict(op="make", _t=dict(route="init", cls=cls, dim=d, **r))
            yield dict(op="make", _t=dict(route="cea", cls=cls, dimension=d))
            for v in list(containers()) + ["unsized"]:
                for r in (dict(form="val", values=v, unit="m"), dict(form="val", values=v, unit="cm", category="depth"),
                          dict(form="cat", c={"str": "length"}, values=v, unit="ft"), dict(form="cat", c={"qty": QD}, values=v, nargs=2),
                          dict(form="cat", c={"qty": "empty"}, values=v, nargs=2)):
                    yield dict(op="make", _t=dict(route="init", cls=cls, dim=d, **r))
                yield dict(op="make", _t=dict(route="cea", cls=cls, dimension=d, values=v))
                yield dict(op="make", _t=dict(route="cwq", cls=cls, q=rng.choice(QTYS), values=v, dimension=d))
                yield dict(op="make", _t=dict(route="cwq", cls=cls, q=rng.choice(QTYS), value=v, dimension=d))
            # malformed forms on a container of the right, a wrong and a zero length
            for n in (max(d, 0), 2, 0):
                v = vspec(rng.choice(KINDS), nums(rng, n))
                for r in (dict(form="val", values=v, nargs=1), dict(form="val", values=v, category="length"),
                          dict(form="cat", c={"str": "length"}, values=v, nargs=2), dict(form="cat", c={"qty": QL}, values=v, unit="m"),
                          dict(form="val", values=v, unit="nope"), dict(form="val", values=v, unit="kg", category="length"),
                          dict(form="val", values=v, unit="m", category="nope"), dict(form="cat", c={"str": "nope"}, values=v, unit="m"),
                          dict(form="val", values=v, unit=""), dict(form="val", values=v, unit="kg")):
                    yield dict(op="make", _t=dict(route="init", cls=cls, dim=d, **r))
        # CreateWithQuantity without the dimension keyword: the class default or len(values) decides
        for v in list(containers()) + ["unsized"]:
            for q in QTYS:
                yield dict(op="make", _t=dict(route="cwq", cls=cls, q=q, values=v, positional=True))
            yield dict(op="make", _t=dict(route="cwq", cls=cls, q=QL, values=v))
            yield dict(op="make", _t=dict(route="cwq", cls=cls, q=QD, value=v))
            yield dict(op="make", _t=dict(route="cwq", cls=cls, q=QL, value=v, values=v))
        yield dict(op="make", _t=dict(route="cwq", cls=cls, q=QL))
        yield dict(op="make", _t=dict(route="cwq", cls=cls, q=QL, dimension=3))
        # containers of points (list / tuple of tuples, 2-D ndarray): the number of POINTS is the length
        for d in DIMS:
            for k in KINDS:
                for n in (0, 1, 2, 3, 4):
                    for w in (2, 3):
                        v = pspec(k, nums(rng, n), w)
                        for r in (dict(form="val", values=v, unit="m"), dict(form="cat", c={"str": "length"}, values=v, unit="ft"),
                                  dict(form="cat", c={"qty": QD}, values=v, nargs=2)):
                            yield dict(op="make", _t=dict(route="init", cls=cls, dim=d, **r))
                        yield dict(op="make", _t=dict(route="cea", cls=cls, dimension=d, values=v))
                        yield dict(op="make", _t=dict(route="cwq", cls=cls, q=rng.choice(QTYS), values=v, dimension=d))
        for k in KINDS:
            for n in (0, 1, 2, 3, 4):
                for w in (2, 3):
                    v = pspec(k, nums(rng, n), w)
                    yield dict(op="make", _t=dict(route="cwq", cls=cls, q=rng.choice(QTYS), values=v, positional=True))
                    yield dict(op="make", _t=dict(route="cwq", cls=cls, q=QL, value=v))
        # the unknown quantity through every form
        for d in DIMS:
            v = vspec(rng.choice(KINDS), nums(rng, max(d, 0)))
            for r in (dict(form="cat", c={"str": "Unknown"}, nargs=1), dict(form="cat", c={"qty": QU}, nargs=1),
                      dict(form="val", values=v, unit="<unknown>"), dict(form="cat", c={"str": "Unknown"}, values=v, unit="<unknown>"),
                      dict(form="cat", c={"qty": QU}, values=v, nargs=2), dict(form="val", values=v, unit="m", category="Unknown")):
                yield dict(op="make", _t=dict(route="init", cls=cls, dim=d, **r))
            yield dict(op="make", _t=dict(route="cwq", cls=cls, q=QU, values=v, dimension=d))
        # FixedArray.FromScalars (inherited from Array): no route to a FixedArray
        for n in (0, 1, 2, 3):
            for sq in ((QL,), (QL, QC), (QD, QL), (QL, QK), ("empty",), (QC, "empty")):
                scalars = [dict(q=sq[i % len(sq)], v=enc(x)) for i, x in enumerate(nums(rng, n))]
                for kw in ({}, dict(unit="cm"), dict(category="depth"), dict(unit="ft", category="depth"), dict(unit="kg"),
                           dict(unit="nope"), dict(unit=""), dict(unit="m", category="nope")):
                    yield dict(op="make", _t=dict(route="fromScalars", cls=cls, scalars=scalars, as_iter=(n == 2), **kw))
    # the internal constructor on an object of a class without the `_dimension` class attribute
    for v in [vspec(k, nums(rng, n)) for k in KINDS for n in LENS] + ["unsized", None]:
        for dimension in (None,) + DIMS:
            for inst in (None, 1, 3):
                yield dict(op="make", _t=dict(route="internal", cls="missing", q=rng.choice(QTYS), values=v,
                                              dimension=dimension, inst=inst))


def typed_nums(rng, n, dt):
    """numbers an ndarray of dtype `dt` holds exactly: small non-zero ints, or float32-representable fractions"""
    import numpy

    if dt != "float32":
        return [rng.choice((-1, 1)) * rng.randint(1, 9) for _ in range(n)]
    return [float(numpy.float32(x if x != 0 else 1.5)) for x in (round(rng.uniform(-100, 100), 3) for _ in range(n))]


def frac(rng):
    """a FRACTIONAL amount (no int / float32 container can hold it): small, below one, negative, long mantissa"""
    r = rng.random()
    x = (rng.choice((0.5, 0.25, -2.75, 0.1, -0.3, 1.5)) if r < 0.3 else round(rng.uniform(-1, 1), 3) if r < 0.55 else
         round(rng.uniform(-100, 100), 3) if r < 0.85 else rng.uniform(-1e4, 1e4))
    return x if x != int(x) else x + 0.37


def typed_source(rng, dim, dt, q, cls="none"):
    return dict(route="init", cls=cls, dim=dim, form="cat", c={"qty": q}, values=vspec(K_ND, typed_nums(rng, dim, dt), dt), nargs=2)


def make_source(rng, dim=None, kind=None, q=None, cls=None, typed=False):
    if typed and rng.random() < 0.3:   # an ndarray container of an integer dtype / of float32
        cls = "none" if rng.random() < 0.85 else "v3"
        return typed_source(rng, 3 if cls == "v3" else rng.choice((2, 3, 3, 4)), rng.choice(DTYPES), rng.choice((QL, QL, QD, QC, "empty")), cls)
    dim = dim or rng.choice((2, 2, 3, 3, 3, 4, 5))
    cls = cls or rng.choice(("none",) * 6 + ("v3",))
    if cls == "v3":
        dim = 3
    q = q or rng.choice((QL, QL, QD, QC, "empty"))
    kind = kind or rng.choice(KINDS)
    return dict(route="init", cls=cls, dim=dim, form="cat", c={"qty": q}, values=vspec(kind, nums(rng, dim, nonzero=True)), nargs=2)


def arr_operand(rng, n, k=None, q=None, cls=None):
    q = q or rng.choice((QL, QC, QD, QK, "empty"))
    cls = cls or ("FixedArray" if (n >= 2 and rng.random() < 0.5) else "Array")
    return dict(cls=cls, k=k or rng.choice(KINDS), v=[enc(x) for x in nums(rng, n, nonzero=True)], q=q)


CI_SCALARS = (QL, QC, QD, QK, "empty", dict(cat="depth", unit="cm"))


def single_op_cases(ctx, rng):
    """Every operation on a grid of sources (the exhaustive part, one step)."""
    for dim in (2, 3, 4):
        for kind in KINDS:
            for q in (QL, QD, "empty", QU):
                for cls in (("none", "v3") if dim == 3 else ("none",)):
                    if q is QU and (dim == 4 or cls == "v3"):
                        continue
                    src = make_source(rng, dim, kind, q, cls)

                    def one(o):
                        return dict(op="step", _t=dict(src=src, o=o))

                    yield one(dict(do="pickle"))
                    for how in ("copy", "deepcopy", "Copy", "CreateCopyInstance"):
                        yield one(dict(do="copy", how=how))
                    yield one(dict(do="createCopy"))
                    yield from extra_single_ops(rng, src, dim, kind, one)
                    for k in KINDS:
                        for n in LENS:
                            v = vspec(k, nums(rng, n))
                            yield one(dict(do="createCopy", values=v))
                            yield one(dict(do="createCopy", values=v, unit=rng.choice(("cm", "ft", "m", "kg", "nope"))))
                            for aop in ("sum", "sub"):
                                for oq in (QL, QC, QD, QK, "empty"):
                                    yield one(dict(do="arith", aop=aop, rhs=dict(arr=arr_operand(rng, n, k, oq))))
                        yield one(dict(do="createCopy", values="unsized"))
                    for u in ("m", "cm", "ft", "kg", "nope", ""):
                        yield one(dict(do="createCopy", unit=u))
                        for c in ("length", "depth", "mass", "nope"):
                            yield one(dict(do="createCopy", unit=u, category=c))
                    yield one(dict(do="createCopy", category="depth"))
                    for attr in RO_ATTRS:
                        for n in (dim, dim + 1, 1):
                            yield one(dict(do="assign", attr=attr, n=n))
                    for aop in ("sum", "sub", "mul", "div", "floordiv"):
                        for left in ((True, False) if aop not in ("div", "floordiv") else (True,)):
                            for x in nums(rng, 2, nonzero=True) + ([0] if aop not in ("div", "floordiv") or kind != K_ND else []):
                                yield one(dict(do="arith", aop=aop, rhs=dict(num=enc(x), left=left)))
                            for n in LENS:
                                yield one(dict(do="arith", aop=aop, rhs=dict(nd=[enc(float(x)) for x in nums(rng, n, nonzero=True)], left=left)))
                    for index in range(-7, 7):
                        yield one(dict(do="indexAsScalar", index=index))
                        for oq in CI_SCALARS:
                            yield one(dict(do="indexAsScalar", index=index, quantity=oq))
                        x = nums(rng, 1)[0]
                        yield one(dict(do="changingIndex", index=index, value=dict(num=enc(x))))
                        yield one(dict(do="changingIndex", index=index, value=dict(num=enc(x)), uvu=False))
                        for uvu in (True, False):
                            for sq in CI_SCALARS:
                                yield one(dict(do="changingIndex", index=index, uvu=uvu,
                                               value=dict(scalar=dict(q=sq, v=enc(nums(rng, 1)[0])))))
                            for tup in ([], [enc(x)], [enc(x), "cm"], [None, "ft"], [enc(x), "cm", "depth"], [enc(x), None, "depth"],
                                        [enc(x), "kg"], [enc(x), "m", "length"], [enc(x), "nope"], [enc(x), "kg", "mass"], [None, None, None]):
                                yield one(dict(do="changingIndex", index=index, uvu=uvu, value=dict(tup=tup)))


def typed_ci_cases(ctx, rng):
    """ChangingIndex / IndexAsScalar on ndarray containers of an INTEGER dtype and of float32, with FRACTIONAL amounts in
    every form (number, (v,), (v, unit), (v, unit, category), Scalar in the same and in another unit, both settings of
    use_value_unit and the default), for every index of the array and one on each side outside it; then
    IndexAsScalar(index) of the result (a two-step chain), which must give the supplied amount back."""
    for dt in DTYPES:
        for dim, q in ((2, QL), (3, QL), (3, QC), (3, "empty"), (4, QD)):
            own = None if q == "empty" else q
            for index in range(-dim - 1, dim + 1):
                src = typed_source(rng, dim, dt, q)

                def one(o):
                    return dict(op="step", _t=dict(src=src, o=o))

                yield one(dict(do="indexAsScalar", index=index))
                for oq in ((QL, QC, QD) if q != "empty" else ("empty", QL)):
                    yield one(dict(do="indexAsScalar", index=index, quantity=oq))
                values = [dict(num=enc(frac(rng))), dict(tup=[enc(frac(rng))])]
                if own is not None:
                    other = QC if own["unit"] != "cm" else QL
                    values += [dict(tup=[enc(frac(rng)), own["unit"]]), dict(tup=[enc(frac(rng)), other["unit"]]),
                               dict(tup=[enc(float(rng.randint(1, 9))), "cm" if own["unit"] == "m" else "m"]),
                               dict(tup=[None, other["unit"]]), dict(tup=[enc(frac(rng)), other["unit"], other["cat"]]),
                               dict(scalar=dict(q=own, v=enc(frac(rng)))), dict(scalar=dict(q=other, v=enc(frac(rng)))),
                               dict(scalar=dict(q=other, v=enc(float(rng.randint(1, 9))))), dict(scalar=dict(q=QD, v=enc(frac(rng)))),
                               dict(scalar=dict(q=QK, v=enc(frac(rng))))]
                else:
                    values += [dict(scalar=dict(q="empty", v=enc(frac(rng)))), dict(scalar=dict(q=QL, v=enc(frac(rng)))),
                               dict(tup=[enc(frac(rng)), "m"])]
                for value in values:
                    for uvu in (True, False, None):
                        o = dict(do="changingIndex", index=index, value=value)
                        if uvu is not None:
                            o["uvu"] = uvu
                        yield one(o)
                        if uvu is not False or "num" in value:   # ... and reading the new element back
                            yield dict(op="chain", _t=dict(cmds=[dict(make=src), dict(src=0, o=o), dict(src=0, o=dict(do="indexAsScalar", index=index)),
                                                                 dict(src=0, o=dict(do="indexAsScalar", index=index, quantity=own or "empty"))]))


SLICE_PARTS = (None, None, 0, 1, 2, 3, -1, -2, -3, 5, -5, 9, -9)
SLICE_STEPS = (None, None, 1, 2, 3, -1, -2, -3, 0, 7, -7)


def all_slices():
    for a in (None, 0, 1, 2, -1, -2, 5, -5):
        for b in (None, 0, 1, 3, -1, -3, 5, -5):
            for c in (None, 1, 2, -1, -2, 0):
                yield [a, b, c]


def random_slice(rng):
    return [rng.choice(SLICE_PARTS), rng.choice(SLICE_PARTS), rng.choice(SLICE_STEPS)]


def derived_sources(rng):
    """FixedArrays with a derived quantity (m2, m/s, 1/m, m.kg ...), obtained by real arithmetic"""
    for dim in (2, 3):
        for kind in KINDS:
            a = make_source(rng, dim, kind, QL, "none")
            for aop, qb in (("mul", QL), ("mul", QK), ("div", QK), ("div", QC), ("floordiv", QK)):
                b = make_source(rng, dim, rng.choice(KINDS), qb, "none")
                yield dict(route="derived", cls="none", aop=aop, a=a, b=b), dim


def extra_single_ops(rng, src, dim, kind, one):
    """the rest of the public surface: keywords of CreateCopy, len / iter / indexing / slicing, the public
    CheckValues, ==, and arithmetic whose result is a derived quantity (class, dimension, length, container)"""
    v = vspec(rng.choice(KINDS), nums(rng, dim))
    for extra in ("dimension", "value", "unit_database"):
        for n in (dim, dim + 1):
            yield one(dict(do="createCopyKw", extra=extra, n=n))
            yield one(dict(do="createCopyKw", extra=extra, n=n, values=v))
            yield one(dict(do="createCopyKw", extra=extra, n=n, values=vspec(K_LIST, nums(rng, dim + 1)), unit="cm"))
            yield one(dict(do="createCopyKw", extra=extra, n=n, unit="ft", category="depth"))
    for kw in (dict(values=v), dict(values=v, unit="cm"), dict(values=v, unit="ft", category="depth"), dict(unit="cm"),
               dict(category="depth"), dict(values=vspec(K_TUPLE, nums(rng, dim - 1)))):
        yield one(dict(do="createCopy", pos=True, **kw))
    yield one(dict(do="len"))
    yield one(dict(do="iter"))
    for index in range(-7, 7):
        yield one(dict(do="getItem", index=index))
    for sl in all_slices():
        yield one(dict(do="getSlice", slice=sl))
    for k in KINDS:
        for n in LENS:
            yield one(dict(do="checkValues", values=vspec(k, nums(rng, n))))
            yield one(dict(do="checkValues", values=vspec(k, nums(rng, n)), dimension=rng.choice((n, n, dim, 0, 1, -1, 3))))
    yield one(dict(do="checkValues", values="unsized"))
    yield one(dict(do="checkValues", values="unsized", dimension=dim))
    for what in ("array", "values", "number", "none", "str"):
        for how in ("==", "!="):
            yield one(dict(do="eq", other="foreign", foreign=what, how=how))
    # arithmetic with a derived result: every operator x Array / FixedArray operands of length 0..6 x numbers and bare
    # ndarrays on the left of / and //
    for aop in ("mul", "div", "floordiv"):
        for n in LENS:
            for oq in (QL, QK, QC):
                yield one(dict(do="arith", aop=aop, rhs=dict(arr=arr_operand(rng, n, None, oq))))
        for x in nums(rng, 2, nonzero=True):
            yield one(dict(do="arith", aop=aop, rhs=dict(num=enc(x), left=False)))
        for n in LENS:
            yield one(dict(do="arith", aop=aop, rhs=dict(nd=[enc(float(x)) for x in nums(rng, n, nonzero=True)], left=False)))
    yield one(dict(do="arith", aop="div", rhs=dict(num=enc(nums(rng, 1, nonzero=True)[0]), left=False, how="rdiv")))
    yield one(dict(do="arith", aop="div", rhs=dict(nd=[enc(float(x)) for x in nums(rng, dim, nonzero=True)], left=False, how="rdiv")))


def derived_op_cases(ctx, rng):
    """operations that stay in the array's own unit, on sources whose quantity is DERIVED: pickle (`__reduce__` hands
    the derived Quantity to the constructor), copies, CreateCopy with and without new values, indexing, IndexAsScalar,
    ChangingIndex with a plain number, + and - with numbers / bare ndarrays"""
    for src, dim in derived_sources(rng):
        def one(o):
            return dict(op="step", _t=dict(src=src, o=o))

        yield one(dict(do="pickle"))
        for how in ("copy", "deepcopy", "Copy", "CreateCopyInstance"):
            yield one(dict(do="copy", how=how))
        yield one(dict(do="createCopy"))
        for k in KINDS:
            for n in (0, 1, dim, dim + 1):
                yield one(dict(do="createCopy", values=vspec(k, nums(rng, n))))
        yield one(dict(do="createCopyKw", extra="unit_database"))
        yield one(dict(do="len"))
        yield one(dict(do="iter"))
        for index in range(-4, 4):
            yield one(dict(do="getItem", index=index))
            yield one(dict(do="indexAsScalar", index=index))
            yield one(dict(do="changingIndex", index=index, value=dict(num=enc(nums(rng, 1)[0]))))
            yield one(dict(do="changingIndex", index=index, value=dict(num=enc(nums(rng, 1)[0])), uvu=False))
        for _ in range(6):
            yield one(dict(do="getSlice", slice=random_slice(rng)))
        for n in (dim - 1, dim, dim + 1):
            yield one(dict(do="checkValues", values=vspec(rng.choice(KINDS), nums(rng, n))))
        for aop in ("sum", "sub"):
            for left in (True, False):
                yield one(dict(do="arith", aop=aop, rhs=dict(num=enc(nums(rng, 1)[0]), left=left)))
                for n in (1, dim, dim + 1):
                    yield one(dict(do="arith", aop=aop, rhs=dict(nd=[enc(float(x)) for x in nums(rng, n)], left=left)))


def random_op(rng, store_size):
    r = rng.random()
    if r < 0.05:
        k = rng.random()
        if k < 0.2:
            return dict(do="len")
        if k < 0.3:
            return dict(do="iter")
        if k < 0.5:
            return dict(do="getItem", index=rng.randint(-6, 5))
        if k < 0.7:
            return dict(do="getSlice", slice=random_slice(rng))
        if k < 0.85:
            o = dict(do="checkValues", values=vspec(rng.choice(KINDS), nums(rng, rng.choice((1, 2, 3, 3, 4)))))
            if rng.random() < 0.3:
                o["dimension"] = rng.choice((2, 3, 4))
            return o
        if store_size > 0 and k < 0.97:
            return dict(do="eq", other=rng.randrange(store_size), how=rng.choice(("==", "!=")))
        return dict(do="createCopyKw", extra=rng.choice(("dimension", "value", "unit_database")))
    if r < 0.06:
        return dict(do="copy", how=rng.choice(("copy", "deepcopy", "Copy", "CreateCopyInstance")))
    if r < 0.12:
        return dict(do="pickle")
    if r < 0.32:
        o = dict(do="createCopy")
        if rng.random() < 0.6:
            o["values"] = vspec(rng.choice(KINDS), nums(rng, rng.choice((0, 1, 2, 2, 3, 3, 3, 4, 5)), nonzero=True))
        if rng.random() < 0.5:
            o["unit"] = rng.choice(("m", "cm", "ft", "ft", "cm", "kg", "nope"))
            if rng.random() < 0.3:
                o["category"] = rng.choice(("length", "depth", "depth", "mass"))
        elif rng.random() < 0.05:
            o["category"] = "depth"
        return o
    if r < 0.62:
        aop = rng.choice(("sum", "sub", "sum", "sub", "mul", "div", "floordiv"))
        k = rng.random()
        if k < 0.04:
            return dict(do="assign", attr=rng.choice(RO_ATTRS), n=rng.choice((1, 2, 3, 4)))
        if k < 0.3:
            return dict(do="arith", aop=aop, rhs=dict(num=enc(nums(rng, 1, nonzero=True)[0]), left=(aop in ("div", "floordiv") or rng.random() < 0.6)))
        if k < 0.5:
            n = rng.choice((1, 2, 3, 3, 3, 4, 0))
            return dict(do="arith", aop=aop, rhs=dict(nd=[enc(float(x)) for x in nums(rng, n, nonzero=True)], left=(aop in ("div", "floordiv") or rng.random() < 0.6)))
        aop = rng.choice(("sum", "sub"))
        if k < 0.75 and store_size > 0:
            return dict(do="arith", aop=aop, rhs=dict(other=rng.randrange(store_size)))
        return dict(do="arith", aop=aop, rhs=dict(arr=arr_operand(rng, rng.choice((2, 3, 3, 3, 4, 1)))))
    index = rng.choice((0, 1, 2, -1, -2, rng.randint(-7, 6)))
    x = nums(rng, 1)[0] if rng.random() < 0.6 else frac(rng)
    k = rng.random()
    if k < 0.12:
        return dict(do="indexAsScalar", index=index, **({} if rng.random() < 0.5 else dict(quantity=rng.choice(CI_SCALARS))))
    if k < 0.3:
        value = dict(num=enc(x))
    elif k < 0.65:
        value = dict(scalar=dict(q=rng.choice(CI_SCALARS[:3] + CI_SCALARS), v=enc(x)))
    else:
        value = dict(tup=rng.choice(([], [enc(x)], [enc(x), "cm"], [enc(x), "ft"], [None, "cm"], [enc(x), "cm", "depth"],
                                     [enc(x), None, "depth"], [enc(x), "kg"], [enc(x), "m", "length"])))
    o = dict(do="changingIndex", index=index, value=value)
    if rng.random() < 0.7:
        o["uvu"] = rng.random() < 0.5
    return o


def typed_chain_op(rng, store_size):
    """an operation for a chain that starts from an int / float32 ndarray container: everything but array-with-array
    arithmetic and CreateCopy with a unit / category.  Those re-express a list / tuple ELEMENT BY ELEMENT through
    `UnitDatabase._ConvertMatchingExp`, which takes a numpy.float32 / numpy.int32 element (what ChangingIndex leaves
    in its tuple) for a sequence and raises TypeError - a defect of the unit algebra (C03/C04), reported, kept out here."""
    while True:
        o = random_op(rng, store_size)
        if o["do"] == "arith" and ("arr" in o["rhs"] or "other" in o["rhs"]):
            continue
        if o["do"] in ("createCopy", "createCopyKw") and (o.get("unit") is not None or o.get("category") is not None):
            continue
        return o


def chain_cases(ctx, rng, n):
    for i in range(n):
        cmds = [dict(make=make_source(rng, typed=True))]
        if "dt" in cmds[0]["make"]["values"]:
            for _ in range(rng.randint(1, 8)):
                cmds.append(dict(src=0 if rng.random() < 0.7 else rng.randrange(len(cmds)), o=typed_chain_op(rng, len(cmds))))
            yield dict(op="chain", _t=dict(cmds=cmds))
            continue
        if rng.random() < 0.5:
            r = rng.choice((dict(route="cea", cls="none", dimension=rng.choice((1, 2, 3, 3))),
                            dict(route="fromScalars", cls=rng.choice(("none", "v3")), scalars=[dict(q=rng.choice((QL, QC, QD)), v=enc(x)) for x in nums(rng, rng.choice((0, 2, 3)))]),
                            dict(route="cwq", cls=rng.choice(("none", "v3")), q=rng.choice(QTYS), positional=True,
                                 values=vspec(rng.choice(KINDS), nums(rng, rng.choice((1, 2, 3, 3)), nonzero=True))),
                            make_source(rng)))
            cmds.append(dict(make=r))
        for _ in range(rng.randint(1, 8)):
            # `src` and `other` count back from the newest array of the store (0 = newest), modulo its size
            src = 0 if rng.random() < 0.7 else rng.randrange(len(cmds))
            cmds.append(dict(src=src, o=random_op(rng, len(cmds))))
        yield dict(op="chain", _t=dict(cmds=cmds))


def curve_array(rng, rows, w=None, kind=None, fixed=None):
    q = rng.choice((QL, QD, "empty"))
    if w is None:
        if fixed is None:
            fixed = rows >= 2 and rng.random() < 0.4
        return dict(cls="FixedArray" if fixed else "Array", k=kind or rng.choice(KINDS), v=[enc(x) for x in nums(rng, rows)], q=q)
    return dict(cls="Array", k=kind or rng.choice(KINDS), w=w, v=[[enc(float(x)) for x in nums(rng, w)] for _ in range(rows)], q=q)


def random_curve_read(rng, p):
    k = rng.random()
    if k < 0.4:
        return dict(get=rng.choice((0, -1, 1, p - 1, p, -p, -p - 1, rng.randint(-8, 8))))
    if k < 0.75:
        return dict(slice=random_slice(rng))
    return dict(length=True) if k < 0.85 else dict(repr=True)


def curve_read_cases(ctx):
    """Reading a Curve: `curve[i]` for every index -n-2..n+1, every slice of a small grid, GetLength() and repr(), on
    curves of 0..4 points over every pair of container shapes, on curves of 20 / 21 / 22 / 30 points (the repr stops
    after 21 pairs) - fresh, and again after an accepted and after a rejected setter."""
    rng = ctx.fresh_rng("C11curveread")
    shapes = [(None, K_LIST), (None, K_TUPLE), (None, K_ND), (None, "fixed"), (2, K_LIST), (3, K_TUPLE), (2, K_ND)]

    def arr(rows, w, k):
        if k == "fixed":
            return curve_array(rng, rows, None, rng.choice(KINDS), fixed=rows >= 2)
        return curve_array(rng, rows, w, k, fixed=False) if w is None else curve_array(rng, rows, w, k)

    for n in (0, 1, 2, 3, 4):
        for wi, ki in shapes:
            for wd, kd in shapes:
                arrs = [arr(n, wi, ki), arr(n, wd, kd), arr(n + 1, None, K_LIST), arr(n, None, K_TUPLE)]
                reads = [dict(get=i) for i in range(-n - 2, n + 2)] + [dict(length=True), dict(repr=True)]
                reads += [dict(slice=sl) for sl in all_slices() if rng.random() < 0.12]
                yield dict(op="curve", _t=dict(arrs=arrs, image=0, domain=1, ops=reads))
                # the same reads after a rejected and an accepted setter
                yield dict(op="curve", _t=dict(arrs=arrs, image=0, domain=1, ctor=rng.choice(CURVE_CTORS), ops=[
                    dict(set="image", via="method", a=2), dict(get=-1), dict(slice=random_slice(rng)), dict(length=True),
                    dict(set="domain", via="attr", a=3), dict(get=0), dict(get=n), dict(slice=random_slice(rng)), dict(repr=True)]))
    for n in (20, 21, 22, 30):
        for wi, ki in ((None, K_LIST), (None, K_ND), (2, K_LIST)):
            for wd, kd in ((None, K_TUPLE), (None, K_ND), (2, K_ND)):
                arrs = [arr(n, wi, ki), arr(n, wd, kd)]
                yield dict(op="curve", _t=dict(arrs=arrs, image=0, domain=1, ops=[
                    dict(repr=True), dict(length=True), dict(get=n - 1), dict(get=-n), dict(get=n), dict(get=21), dict(slice=[None, None, 7]),
                    dict(slice=[-1, None, -9]), dict(slice=[19, 23, None])]))


def curve_cases(ctx, rng, n):
    """Curves over arrays of every container shape.  Around a base count `p` the pool holds flat arrays and arrays
    of pairs / triples with `p` points, and - the interesting collisions - arrays with the same number of SCALARS
    but another number of points (p*w flat values, p/w rows of width w), plus unrelated lengths."""
    for i in range(n):
        p = rng.choice((1, 2, 2, 3, 4, 4, 6))
        templates = [(p, None), (p, None), (p, 2), (p, 3), (p * 2, None), (p * 3, None), (p * 2, 2),
                     (rng.choice((0, 1, 2, 3, 4, 5)), None), (rng.choice((0, 1, 2, 3)), rng.choice((2, 3)))]
        if p % 2 == 0:
            templates.append((p // 2, 2))
        if p % 3 == 0:
            templates.append((p // 3, 3))
        if i % 4 == 0:  # the earlier flat-only stream
            templates = [(rng.choice((0, 1, 2, 3, 3, 3, 4)), None) for _ in range(6)]
        arrs = [curve_array(rng, rows, w) for rows, w in rng.sample(templates, rng.randint(2, min(6, len(templates))))]
        ops = []
        for _ in range(rng.randint(0, 10)):
            if rng.random() < 0.08:
                ops.append(dict(copy=rng.choice(("copy", "deepcopy"))))
                continue
            if rng.random() < 0.3:
                ops.append(random_curve_read(rng, p))
                continue
            which = rng.choice(("image", "domain"))
            ops.append(dict(set=which, via=rng.choice(CURVE_VIAS[which]), a=rng.randrange(len(arrs))))
        yield dict(op="curve", _t=dict(arrs=arrs, image=rng.randrange(len(arrs)), domain=rng.randrange(len(arrs)), ops=ops,
                                       ctor=rng.choice(CURVE_CTORS)))


def curve_grid_cases(ctx):
    """Exhaustive small part: every ordered pair of shapes (flat / pairs / triples) x containers x point counts 0..4
    for the constructor, and one SetImage and one SetDomain of every such array on a valid curve of 2 and of 4 points."""
    rng = ctx.fresh_rng("C11curvegrid")
    pool = []
    for rows in (0, 1, 2, 3, 4, 6):
        for k in KINDS:
            pool.append(curve_array(rng, rows, None, k, fixed=False))
    for rows in (1, 2, 3, 4):
        for w in (2, 3):
            for k in (K_LIST, K_ND):
                pool.append(curve_array(rng, rows, w, k))
    def scalars(x):
        return points_of(x) * (x.get("w") or 1)

    # the most telling pairs first: equally many scalars but another number of points
    pairs = [(a, b) for a in range(len(pool)) for b in range(len(pool))]
    pairs.sort(key=lambda ab: 0 if (scalars(pool[ab[0]]) == scalars(pool[ab[1]]) and points_of(pool[ab[0]]) != points_of(pool[ab[1]])) else 1)
    for a, b in pairs:
        yield dict(op="curve", _t=dict(arrs=[pool[a], pool[b]], image=0, domain=1, ops=[]))
    for base in (2, 4):
        for a in range(len(pool)):
            arrs = [curve_array(rng, base, None, K_LIST, fixed=False), curve_array(rng, base, None, K_ND, fixed=False), pool[a]]
            # every route x this array, on a fresh valid curve each (so a wrongly accepted array cannot hide the next
            # route), then one mixed history through all routes and a copy
            for which in ("image", "domain"):
                for via in CURVE_VIAS[which]:
                    yield dict(op="curve", _t=dict(arrs=arrs, image=0, domain=1, ctor=CURVE_CTORS[(a + base) % 3],
                                                   ops=[dict(set=which, via=via, a=2)]))
            yield dict(op="curve", _t=dict(arrs=arrs, image=0, domain=1, ops=[
                dict(set="image", via="attr", a=2), dict(set="domain", via="attr", a=2), dict(copy="copy"),
                dict(set="image", via="values", a=0), dict(set="domain", via="method", a=2), dict(copy="deepcopy"),
                dict(set="image", via="method", a=2), dict(set="domain", via="attr", a=1)]))


def setup(ctx):
    classes()


def cases(ctx):
    rng = ctx.fresh_rng("C11corr")
    cid = 0
    for gen in (construction_cases(ctx, rng), single_op_cases(ctx, rng), derived_op_cases(ctx, rng), typed_ci_cases(ctx, rng),
                chain_cases(ctx, rng, 500 if ctx.tier == "quick" else 20000),
                curve_grid_cases(ctx), curve_read_cases(ctx), curve_cases(ctx, rng, 300 if ctx.tier == "quick" else 5000)):
        for c in gen:
            c["cid"] = cid
            cid += 1
            yield c


def search(ctx):
    rng = ctx.fresh_rng("C11search")
    for gen in (typed_ci_cases(ctx, rng), construction_cases(ctx, rng), single_op_cases(ctx, rng), derived_op_cases(ctx, rng), chain_cases(ctx, rng, 2000), curve_grid_cases(ctx),
                curve_read_cases(ctx), curve_cases(ctx, rng, 1000)):
        for c in gen:
            c["cid"] = -1
            yield c


# ------------------------------------------------------------------------------------------ running a case on the real code
def _resolve(back, n):
    return n - 1 - (back % n)


def _resolved_op(o, n):
    if o["do"] == "arith" and "other" in o["rhs"]:
        return dict(o, rhs=dict(other=_resolve(o["rhs"]["other"], n)))
    if o["do"] == "eq" and o["other"] != "foreign":
        return dict(o, other=_resolve(o["other"], n))
    return o


def run_chain(t):
    """Runs a chain of commands over a store of real objects.  Returns (steps, store): per command the
    source's state before, its class, the outcome and whether the source was left unchanged."""
    store, states, steps = [], [], []
    for cmd in t["cmds"]:
        if "make" in cmd:
            r, e = attempt(lambda: run_route(cmd["make"]))
            step = dict(kind="make")
        else:
            if not store:
                steps.append(dict(kind="skip"))
                continue
            si = _resolve(cmd["src"], len(store))
            src = store[si]
            before = snapshot(src)
            o = _resolved_op(cmd["o"], len(store))
            r, e = attempt(lambda: run_op(src, o, store))
            step = dict(kind="op", pre=states[si], cls=cls_name(src), unchanged=(snapshot(src) == before),
                        same_object=(r is src), src=si, o=o)
        if e is not None:
            step["out"] = dict(err=err_kind(e), exc=type(e).__name__)
        else:
            step["out"] = canon_result(r)
            if "scalar" in step["out"] and step["kind"] == "op" and states[si].get("f32") and o["do"] == "indexAsScalar" and \
                    (o["index"] % max(1, states[si]["len"])) in states[si]["f32"]:
                step["out"]["scalar"]["f32"] = True   # read off an element the real code holds in float32
            if "ok" in step["out"] and step["kind"] == "op" and o["do"] != "changingIndex":
                # a result computed FROM single-precision elements carries their rounding whatever type it has itself
                # (float32 * float is a float32; float64 - float32 is a float64 with a float32's error);
                # ChangingIndex only converts and copies: there the type of each element tells
                oth = o.get("rhs", {}).get("other") if o["do"] == "arith" else None
                if states[si].get("f32") or (oth is not None and states[oth].get("f32")):
                    step["out"]["ok"]["f32all"] = True
            if "ok" in step["out"]:
                store.append(r)
                states.append(step["out"]["ok"])
        steps.append(step)
    return steps, states


def chain_lines(t, steps, states_at):
    """the model requests of a chain: one per executed command (on the real pre-state) + the whole history"""
    reqs = []
    hist = []
    index_of = {}  # command position -> store index on the real side is the same as on the model side iff outcomes agree
    n_store = 0
    store_states = []
    for cmd, st in zip(t["cmds"], steps):
        if st["kind"] == "skip":
            continue
        if "make" in cmd:
            reqs.append(route_line(cmd["make"]))
            h = dict(route_line(cmd["make"]))
            h["route"] = h.pop("op")
            hist.append(h)
        else:
            o = st["o"]
            reqs.append(op_line(o, st["pre"], st["cls"], store_states))
            h = dict(op_line(o, st["pre"], st["cls"], store_states))
            h["do"] = "copy" if o["do"] == "copy" else h.pop("op")
            h["src"] = st["src"]
            if o["do"] == "arith" and "other" in o["rhs"]:
                h.pop("rhs")
                h["other"] = o["rhs"]["other"]
            if o["do"] == "eq" and o["other"] != "foreign":
                h.pop("others")
                h["other"] = o["other"]
            hist.append(h)
        if "ok" in st["out"]:
            store_states.append(st["out"]["ok"])
    return reqs, hist


def impl(c, ctx):
    try:
        t = c["_t"]
        if c["op"] == "make":
            r, e = attempt(lambda: run_route(t))
            points = any(isinstance(t.get(k), dict) and t[k].get("w") for k in ("values", "value"))
            return dict(err=err_kind(e), exc=type(e).__name__) if e is not None else canon_result(r, points)
        if c["op"] == "step":
            steps, _ = run_chain(dict(cmds=[dict(make=t["src"]), dict(src=0, o=t["o"])]))
            if len(steps) < 2 or "ok" not in steps[0]["out"]:
                return dict(err="other", detail="source could not be built: %r" % (steps[0]["out"],))
            _TRACE[c.get("cid", -1)] = steps
            st = steps[1]
            return dict(out=st["out"], unchanged=st["unchanged"], same_object=st["same_object"])
        if c["op"] == "chain":
            steps, _ = run_chain(t)
            _TRACE[c.get("cid", -1)] = steps
            return dict(steps=[dict(out=s.get("out"), unchanged=s.get("unchanged", True), kind=s["kind"]) for s in steps])
        if c["op"] == "curve":
            return run_curve(t)
    except Exception as e:  # the wrapper itself failed: report it as an implementation answer nobody can agree with
        return dict(err="other", detail="wrapper: %r" % (e,))
    return dict(err="other", detail="unknown case")


# every public route that puts an array into a Curve: the setter methods, the deprecated SetValues (image only)
# and assignment to the `image` / `domain` properties (built from the setter methods)
CURVE_VIAS = {"image": ("method", "attr", "values"), "domain": ("method", "attr")}
CURVE_CTORS = ("pos", "kw", "kw_rev")


def new_curve(t, arrs):
    from barril.curve.curve import Curve

    image, domain = arrs[t["image"]], arrs[t["domain"]]
    ctor = t.get("ctor", "pos")
    if ctor == "kw":
        return Curve(image=image, domain=domain)
    if ctor == "kw_rev":
        return Curve(domain=domain, image=image)
    return Curve(image, domain)


def apply_setter(c, o, a):
    import warnings

    via = o.get("via", "method")
    if o["set"] == "image":
        if via == "attr":
            c.image = a
        elif via == "values":
            with warnings.catch_warnings():
                warnings.simplefilter("ignore")
                c.SetValues(a)
        else:
            c.SetImage(a)
    elif via == "attr":
        c.domain = a
    else:
        c.SetDomain(a)


def setter_name(o):
    via = o.get("via", "method")
    if via == "attr":
        return "curve.%s = x" % o["set"]
    return "SetValues" if via == "values" else "Set%s" % o["set"].capitalize()


def curve_reads(c):
    """Every way of reading a Curve must show the arrays it holds; returns the list of problems."""
    import warnings

    out = []
    try:
        if c.image is not c.GetImage():
            out.append("curve.image is not GetImage()")
        if c.domain is not c.GetDomain():
            out.append("curve.domain is not GetDomain()")
        with warnings.catch_warnings():
            warnings.simplefilter("ignore")
            if c.GetValues() is not c.GetImage():
                out.append("GetValues() is not GetImage()")
        if c.GetLength() != len(c.GetImage().GetValues()):
            out.append("GetLength() is %r for an image of %d points" % (c.GetLength(), len(c.GetImage().GetValues())))
    except Exception as e:  # noqa
        out.append("reading the curve raised %r" % (e,))
    return out


def copy_curve(c, how):
    """copy.copy / copy.deepcopy of a Curve: a new Curve holding the very same arrays (arrays copy as themselves)"""
    c2 = copy.copy(c) if how == "copy" else copy.deepcopy(c)
    problems = []
    if c2 is c:
        problems.append("the copy is the curve itself")
    if c2.GetImage() is not c.GetImage() or c2.GetDomain() is not c.GetDomain():
        problems.append("the copy does not hold the arrays of the original")
    return c2, problems


def _elem(v):
    """a number, or a point (tuple / ndarray row) as the list of its numbers"""
    import numpy

    if isinstance(v, (tuple, list, numpy.ndarray)):
        return [qstr(num_exact(x)) for x in v]
    return qstr(num_exact(v))


def _seq(v):
    return dict(k=_kind_of(v), elems=[_elem(x) for x in v])


def parse_curve_repr(text, flat):
    """`Curve(<unit>, <unit>)[(x, y) (x, y) ...  ... ]` -> units, the pairs (numbers read back exactly from their
    shortest round-trip print; for arrays of points only counted) and whether the ellipsis is there"""
    import re

    m = re.match(r"^Curve\(([^,()]*), ([^,()]*)\)\[(.*)\]$", text, re.S)
    if not m:
        return dict(odd=text[:80])
    body = m.group(3)
    groups, depth, start, rest = [], 0, None, []
    for pos, ch in enumerate(body):
        if ch in "([":
            if depth == 0 and ch == "(":
                start = pos
            depth += 1
        elif ch in ")]":
            depth -= 1
            if depth == 0 and start is not None:
                groups.append(body[start + 1:pos])
                start = None
        elif depth == 0:
            rest.append(ch)
    rest = "".join(rest).strip()
    out = dict(iunit=str(sym(m.group(1))), dunit=str(sym(m.group(2))), n=len(groups), ellipsis=(rest == "..."))
    if rest not in ("", "..."):
        out["odd"] = rest[:40]
    if flat:
        items = []
        for g in groups:
            x, y = g.split(", ")
            items.append([qstr(exact(float(x))), qstr(exact(float(y)))])
        out["items"] = items
    return out


def curve_read(c, o, flat):
    """one read of a Curve on the real code, canonical"""
    if "get" in o:
        d, i = c[o["get"]]
        return dict(item=[_elem(d), _elem(i)])
    if "slice" in o:
        d, i = c[slice(*o["slice"])]
        return dict(slices=[_seq(d), _seq(i)])
    if "length" in o:
        return dict(length=c.GetLength())
    return dict(repr=parse_curve_repr(repr(c), flat))


def is_read(o):
    return any(k in o for k in ("get", "slice", "length", "repr"))


def run_curve(t):
    arrs = [mk_curve_array(a) for a in t["arrs"]]
    ids = {id(a): i for i, a in enumerate(arrs)}
    c, e = attempt(lambda: new_curve(t, arrs))
    if e is not None:
        return dict(new=err_kind(e), steps=[])
    steps = []
    for o in t["ops"]:
        if "copy" in o:
            res, e = attempt(lambda: copy_curve(c, o["copy"]))
            if e is not None:
                steps.append(dict(copy=o["copy"], problems=["copying raised %r" % (e,)]))
                continue
            c, problems = res
            steps.append(dict(copy=o["copy"], problems=problems + curve_reads(c)))
            continue
        if is_read(o):
            flat = all(a.get("w") is None for a in t["arrs"])
            res, e = attempt(lambda: curve_read(c, o, flat))
            st = dict(res="ok" if e is None else err_kind(e), image=str(ids.get(id(c.GetImage()), -1)),
                      domain=str(ids.get(id(c.GetDomain()), -1)), ilen=str(len(c.GetImage().GetValues())),
                      dlen=str(len(c.GetDomain().GetValues())), reads=curve_reads(c), read=True)
            if e is None:
                st["out"] = res
            steps.append(st)
            continue
        a = arrs[o["a"]]
        _, e = attempt(lambda: apply_setter(c, o, a))
        steps.append(dict(res="ok" if e is None else err_kind(e), image=str(ids.get(id(c.GetImage()), -1)),
                          domain=str(ids.get(id(c.GetDomain()), -1)), ilen=str(len(c.GetImage().GetValues())),
                          dlen=str(len(c.GetDomain().GetValues())), reads=curve_reads(c)))
    return dict(new="ok", steps=steps, reads=curve_reads(c) if not t["ops"] else [])


def model_line(c):
    t = c["_t"]
    if c["op"] == "make":
        return route_line(t)
    if c["op"] == "curve":
        def carr(i):
            return dict(id=i, len=points_of(t["arrs"][i]), w=t["arrs"][i].get("w"))

        def content(i, a):   # what `GetValues()` of the array returns, known from how it was built
            if a.get("w") is None:
                elems = [qstr(exact(dec(x))) for x in a["v"]]
            else:
                elems = [[qstr(exact(float(dec(x)))) for x in row] for row in a["v"]]
            return dict(id=i, k=a["k"], unit=str(sym("" if a["q"] == "empty" else a["q"]["unit"])), elems=elems)

        def mop(o):
            if "set" in o:
                return dict(set=o["set"], a=carr(o["a"]))
            if "slice" in o:
                return dict(slice=dict(zip(("start", "stop", "step"), o["slice"])))
            return {k: o[k] for k in ("get", "length", "repr") if k in o}
        return dict(op="curveOps", image=carr(t["image"]), domain=carr(t["domain"]),
                    arrs=[content(i, a) for i, a in enumerate(t["arrs"])],
                    ops=[mop(o) for o in t["ops"] if "copy" not in o])
    chain = t if c["op"] == "chain" else dict(cmds=[dict(make=t["src"]), dict(src=0, o=t["o"])])
    steps = _TRACE.pop(c.get("cid", -1), None)
    if steps is None:
        steps, _ = run_chain(chain)
    reqs, hist = chain_lines(chain, steps, None)
    if c["op"] == "step":
        return reqs[1] if len(reqs) > 1 else dict(op="batch", reqs=[])
    return dict(op="batch", reqs=reqs + [dict(op="history", cmds=hist)])


def case_key(c):
    return dict(op=c["op"], t=c["_t"])


def show(c):
    return dict(op=c["op"], **{k: v for k, v in c["_t"].items()})


# ------------------------------------------------------------------------------------------ comparison
COPY_ONLY = {"make", "pickle", "copy"}


def cmp_array(real, mo, exact_numbers, ctx=None, single=False):
    """real: canon() dict; mo: the model's ok-object"""
    for k_real, k_mod in (("dim", "dim"), ("len", "len")):
        if str(real[k_real]) != str(mo[k_mod]):
            return "%s differs: impl %s model %s" % (k_real, real[k_real], mo[k_mod])
    if real["k"] != mo["k"]:
        return "container differs: impl %s model %s" % (real["k"], mo["k"])
    if real["unit"] != mo["q"]["unit"] or real["cat"] != mo["q"]["cat"]:
        return "quantity differs: impl (%s,%s) model (%s,%s)" % (real["cat"], real["unit"], mo["q"]["cat"], mo["q"]["unit"])
    if "xs" in mo:
        if len(real["xs"]) != len(mo["xs"]):
            return "number of values differs"
        for i, (a, b) in enumerate(zip(real["xs"], mo["xs"])):
            if a == b:
                continue
            fa, fb = qparse(a), qparse(b)
            if exact_numbers:
                return "value %d differs where numbers are only copied: impl %s model %s" % (i, float(fa), float(fb))
            if single or real.get("f32all") or i in real.get("f32", ()):   # held as / computed from numpy.float32: eps of float32
                if not close(float(fa), fb, qparse(mo["M"][i]), k=K32):
                    return "value %d (float32): impl %r is not within K*eps32*M of the exact %r" % (i, float(fa), float(fb))
                continue
            if not close(float(fa), fb, qparse(mo["M"][i])):
                return "value %d: impl %r is not within K*eps*M of the exact %r" % (i, float(fa), float(fb))
    return None


def cmp_outcome(io, mo, exact_numbers):
    if "err" in io or "err" in mo:
        if ("err" in io) != ("err" in mo):
            return "one side fails: impl=%s model=%s" % ({k: io[k] for k in io if k != "ok"} or "ok", mo if "err" in mo else "ok")
        return None if io["err"] == mo["err"] else "error kinds differ: impl %s (%s) model %s" % (io["err"], io.get("exc"), mo["err"])
    if "plain" in io:
        if io["plain"] != mo["ok"]:
            return "plain result differs: impl %s model %s" % (io["plain"], mo["ok"])
        return None
    if "scalar" in io:
        s, m = io["scalar"], mo["ok"]
        if "v" not in m:
            return "impl returned a Scalar, model an array"
        if s["unit"] != m["q"]["unit"] or s["cat"] != m["q"]["cat"]:
            return "scalar quantity differs"
        if s["v"] != m["v"] and not close(float(qparse(s["v"])), qparse(m["v"]), qparse(m["M"]), **(dict(k=K32) if s.get("f32") else {})):
            return "scalar value: impl %r model %r" % (float(qparse(s["v"])), float(qparse(m["v"])))
        return None
    if "v" in mo["ok"]:
        return "model returned a Scalar, impl an array"
    if "dim" not in mo["ok"]:
        return "model returned a plain value %s, impl an array" % (mo["ok"],)
    if "q" not in mo["ok"]:   # arithShape: class (checked by the caller), dimension, length and container
        real = io["ok"]
        for k in ("dim", "len", "k"):
            if str(real[k]) != str(mo["ok"][k]):
                return "%s differs: impl %s model %s" % (k, real[k], mo["ok"][k])
        return None
    return cmp_array(io["ok"], mo["ok"], exact_numbers)


def cmp_curve_read(real, mo, flat):
    """a read of a Curve: everything is copied, so numbers are compared exactly"""
    if real is None:
        return "no result on the real code"
    if "repr" in mo:
        r, m = real.get("repr", {}), mo["repr"]
        if "odd" in r:
            return "repr not understood: %s" % r["odd"]
        if r["iunit"] != m["iunit"] or r["dunit"] != m["dunit"]:
            return "units in the repr differ"
        if r["n"] != len(m["items"]) or r["ellipsis"] != m["ellipsis"]:
            return "repr shows %d pairs%s, model %d%s" % (r["n"], " ..." if r["ellipsis"] else "", len(m["items"]), " ..." if m["ellipsis"] else "")
        if flat and r["items"] != m["items"]:
            return "pairs in the repr differ"
        return None
    return None if real == mo else "results differ"


def op_exact(o):
    do = o["do"]
    if do in ("pickle", "copy"):
        return True
    if do in ("createCopy", "createCopyKw"):
        return o.get("unit") is None or o.get("values") is not None
    return False


def _outcome(out):
    if not isinstance(out, dict):
        return "?"
    return "err:" + out["err"] if "err" in out else ("scalar" if "scalar" in out else "plain" if "plain" in out else "ok")


def _route_key(r):
    """which branch of the constructor automaton a construction request drives"""
    kind = r["route"]
    if kind == "init":
        v = r.get("values") if r.get("nargs", 3) >= (2 if r["form"] == "cat" else 1) else None
        first = "str" if (r["form"] == "cat" and "str" in r["c"]) else ("qty" if r["form"] == "cat" else "values")
        return "init/%s-first values=%s dim%s2 attr=instance kw=no" % (
            first, "no" if v is None else ("unsized" if v == "unsized" else "yes"), "<" if r["dim"] < 2 else ">=")
    if kind == "fromScalars":
        return "FromScalars scalars=%s unit=%s category=%s" % ("none" if not r["scalars"] else "some", "no" if r.get("unit") is None else "yes",
                                                               "no" if r.get("category") is None else "yes")
    if kind == "derived":
        return "derived source"
    attr = {"none": "None", "v3": "pinned", "v1": "pinned", "missing": "absent"}[r["cls"]]
    if kind == "internal" and r.get("inst") is not None:
        attr = "instance"
    given = "+".join(k for k in ("values", "value") if r.get(k) is not None) or "none"
    if "unsized" in (r.get("values"), r.get("value")):
        given += "(unsized)"
    return "%s attr=%s kw=%s given=%s" % (kind, attr, "no" if r.get("dimension") is None else "yes", given)


def _op_key(o):
    do = o["do"]
    if do == "createCopy":
        return "createCopy values=%s unit=%s category=%s" % tuple(
            "no" if o.get(k) is None else "yes" for k in ("values", "unit", "category"))
    if do == "createCopyKw":
        return "createCopy(..., %s=...)" % o["extra"]
    if do == "getItem":
        return "array[i] index%s0" % ("<" if o["index"] < 0 else ">=")
    if do == "getSlice":
        st = o["slice"][2]
        return "array[a:b:c] step %s" % ("None" if st is None else "0" if st == 0 else "<0" if st < 0 else ">0")
    if do == "checkValues":
        return "CheckValues dimension=%s" % ("no" if o.get("dimension") is None else "yes")
    if do == "eq":
        return "array == %s" % ("foreign" if o["other"] == "foreign" else "array")
    if do == "arith":
        rhs = o["rhs"]
        kind = "array" if ("arr" in rhs or "other" in rhs) else ("number" if "num" in rhs else "ndarray")
        return "arith %s %s %s%s" % (o["aop"], kind, "self-left" if rhs.get("left", True) else "self-right",
                                     " (__rdiv__)" if rhs.get("how") == "rdiv" else "")
    if do == "changingIndex":
        v = o["value"]
        kind = "number" if "num" in v else ("Scalar" if "scalar" in v else "tuple%d" % len(v["tup"]))
        return "changingIndex %s use_value_unit=%s index%s0" % (kind, o.get("uvu", "default"), "<" if o["index"] < 0 else ">=")
    if do == "indexAsScalar":
        return "indexAsScalar quantity=%s index%s0" % ("no" if o.get("quantity") is None else "yes", "<" if o["index"] < 0 else ">=")
    if do == "assign":
        return "assign array.%s = ..." % o["attr"]
    return do


def _count(ctx, c, io):
    """input distribution for the evidence: branch of the modelled function x outcome on the real code"""
    br = ctx.notes.setdefault("branches", {})

    def hit(key):
        br[key] = br.get(key, 0) + 1

    t = c["_t"]
    if c["op"] == "make":
        hit("%s -> %s" % (_route_key(t), _outcome(io)))
    elif c["op"] == "step":
        hit("%s -> %s" % (_op_key(t["o"]), _outcome(io.get("out"))))
    elif c["op"] == "chain":
        n = 0
        for cmd, s in zip(t["cmds"], io.get("steps", [])):
            if s.get("kind") == "skip":
                continue
            n += 1
            hit("chain: %s -> %s" % (_route_key(cmd["make"]) if "make" in cmd else _op_key(cmd["o"]), _outcome(s.get("out"))))
        ln = ctx.notes.setdefault("chain_lengths", {})
        ln[str(n)] = ln.get(str(n), 0) + 1
    elif c["op"] == "curve":
        def scalars(a):
            return points_of(a) * (a.get("w") or 1)

        def rel(a, b):  # how the two arrays relate: what the guard must look at, and what it must not
            return "%s/%s %s-points %s-scalars" % (shape_name(a), shape_name(b), "same" if points_of(a) == points_of(b) else "other",
                                                   "same" if scalars(a) == scalars(b) else "other")

        ai, ad = t["arrs"][t["image"]], t["arrs"][t["domain"]]
        hit("Curve(%s) %s -> %s" % (rel(ai, ad), t.get("ctor", "pos"), "ok" if io.get("new") == "ok" else "err:%s" % io.get("new")))
        if io.get("new") == "ok":
            for o, s in zip(t["ops"], io.get("steps", [])):
                if "copy" in o:
                    hit("curve: %s -> %s" % (o["copy"], "ok" if not s.get("problems") else "problem"))
                    continue
                if is_read(o):
                    what = "curve[i]" if "get" in o else "curve[a:b:c]" if "slice" in o else "GetLength()" if "length" in o else "repr(curve)"
                    hit("curve: %s -> %s" % (what, s["res"] if s["res"] == "ok" else "err:" + s["res"]))
                    continue
                hit("curve: %s (%s) -> %s" % (setter_name(o), shape_name(t["arrs"][o["a"]]),
                                              s["res"] if s["res"] == "ok" else "err:" + s["res"]))


def agree(c, io, mo, ctx):
    if "detail" in io:
        return "implementation wrapper problem: %s" % io["detail"]
    try:
        _count(ctx, c, io)
    except Exception as e:  # the counters are bookkeeping only
        ctx.notes.setdefault("counter_errors", []).append(repr(e)[:120])
    t = c["_t"]
    if c["op"] == "make":
        why = cmp_outcome(io, mo, True)
        if why is None and "ok" in io and io["cls"] != t["cls"]:
            return "class of the result: %s" % io["cls"]
        return why
    if c["op"] == "step":
        o = t["o"]
        if not io["unchanged"]:
            return "the operation changed its source"
        if o["do"] == "copy" and "ok" in io["out"] and not io["same_object"]:
            return "copy did not return the object itself"
        why = cmp_outcome(io["out"], mo, op_exact(o))
        if o["do"] == "arith" and isinstance(mo.get("ok"), dict) and "dim" in mo["ok"] and "q" not in mo["ok"]:
            ctx.notes["arith_results_compared_by_shape_only"] = ctx.notes.get("arith_results_compared_by_shape_only", 0) + 1
        if why is None and "ok" in io["out"]:
            want = t["src"].get("cls", "none") if o["do"] in ("createCopy", "createCopyKw", "arith", "copy") else "none"
            if io["out"]["cls"] != want:
                return "class of the result: %s, expected %s" % (io["out"]["cls"], want)
        return why
    if c["op"] == "chain":
        res = mo.get("res")
        if res is None:
            return "model gave no batch answer: %s" % (mo,)
        executed = [(cmd, s) for cmd, s in zip(t["cmds"], io["steps"]) if s["kind"] != "skip"]
        if len(res) != len(executed) + 1:
            return "model answered %d requests for %d" % (len(res), len(executed) + 1)
        for i, ((cmd, s), m) in enumerate(zip(executed, res)):
            if "bad" in m:
                return "driver rejected step %d: %s" % (i, m["bad"])
            if not s["unchanged"]:
                return "step %d changed its source" % i
            why = cmp_outcome(s["out"], m, True if "make" in cmd else op_exact(cmd["o"]))
            if why:
                return "step %d (%s): %s" % (i, cmd.get("o", cmd.get("make")), why)
        hist = res[-1]
        if "bad" in hist:
            return "driver rejected the history: %s" % hist["bad"]
        hs = hist["steps"]
        if len(hs) != len(executed):
            return "history answered %d steps for %d" % (len(hs), len(executed))
        single = False   # single-precision numbers entered the history: every later number may descend from them
        for i, ((cmd, s), m) in enumerate(zip(executed, hs)):
            out = s["out"]
            single = single or bool("ok" in out and (out["ok"].get("f32") or out["ok"].get("f32all")))
            if "scalar" in out or "plain" in out:
                continue
            if ("err" in out) != ("err" in m):
                return "history step %d: impl %s, model %s" % (i, "fails" if "err" in out else "ok", m)
            if "err" in out:
                if out["err"] != m["err"]:
                    return "history step %d: error kinds differ (%s / %s)" % (i, out["err"], m["err"])
                continue
            why = cmp_array(out["ok"], m["ok"], False, single=single)
            if why:
                return "history step %d: %s" % (i, why)
        return None
    if c["op"] == "curve":
        if io.get("new") != mo.get("new"):
            return "Curve(): impl %s model %s" % (io.get("new"), mo.get("new"))
        if io.get("reads"):
            return "reading the new curve: %s" % io["reads"]
        for i, st in enumerate(io["steps"]):
            if st.get("problems") or st.get("reads"):
                return "curve step %d (%s): %s" % (i, st.get("copy", "setter"), st.get("problems") or st.get("reads"))
        setters = [st for st in io["steps"] if "copy" not in st]   # copies are no transition of the model
        if len(setters) != len(mo["steps"]):
            return "number of steps differs"
        flat = all(a.get("w") is None for a in t["arrs"])
        for i, (a, b) in enumerate(zip(setters, mo["steps"])):
            if {k: a.get(k) for k in b if k != "out"} != {k: b[k] for k in b if k != "out"}:
                return "curve call %d: impl %s model %s" % (i, a, b)
            if not a.get("read") or "out" not in b:
                continue
            why = cmp_curve_read(a.get("out"), b["out"], flat)
            if why:
                return "curve call %d: %s (impl %s model %s)" % (i, why, a.get("out"), b["out"])
        return None
    return "unknown case kind"


def nontrivial(c, io):
    if c["op"] == "make":
        return "ok" in io or io.get("err") == "value"
    if c["op"] == "step":
        return "detail" not in io
    if c["op"] == "chain":
        return any("ok" in (s.get("out") or {}) for s in io.get("steps", [])[1:])
    if c["op"] == "curve":
        return io.get("new") != "ok" or len(io.get("steps", [])) > 0
    return False


# ------------------------------------------------------------------------------------------ the property, on the real code only
def _inv(obj):
    """len(values) == dimension >= 2 for a FixedArray-like object; None when it holds"""
    try:
        n = len(obj.values if hasattr(obj, "values") else obj._value)
        d = obj.dimension if hasattr(obj, "dimension") else obj._dimension
    except Exception as e:
        return "cannot read len(values)/dimension: %r" % (e,)
    if not (isinstance(d, int) and n == d and d >= 2):
        return "len(values) = %r, dimension = %r" % (n, d)
    return None


def _size_bad_route(r):
    """Would this construction break the invariant if it were accepted?  (None = cannot tell from the request)"""
    kind = r["route"]
    v = r.get("values") if r.get("values") is not None else r.get("value")
    n = len(v["v"]) if isinstance(v, dict) else None
    if kind == "init":
        if r["dim"] < 2:
            return True
        return n is not None and n != r["dim"]
    if kind == "cea":
        return r["dimension"] < 2 or (n is not None and n != r["dimension"])
    if kind == "cwq":
        pinned = {"v3": 3, "v1": 1}.get(r["cls"])
        d = r.get("dimension")
        if r.get("values") is not None and r.get("value") is not None:
            return None
        if n is None:
            return None
        if d is not None:
            return d < 2 or n != d or (pinned is not None and pinned != d)
        if pinned is not None:
            return pinned < 2 or n != pinned
        return n < 2
    return None


def _wellformed_route(r):
    """The request is a legal call apart from sizes (so a size problem must surface as ValueError)."""
    if r["route"] == "init":
        n = r.get("nargs", 3)
        unit = r.get("unit") if n >= (3 if r["form"] == "cat" else 2) else None
        values = r.get("values") if n >= (2 if r["form"] == "cat" else 1) else None
        if values == "unsized":
            return False
        if r["form"] == "cat":
            c = r["c"]
            if "qty" in c:
                return unit is None
            cat = c["str"]
        else:
            cat = r.get("category") if n >= 3 else None
        if values is not None and unit is None:
            return False
        if cat is not None and cat not in CATS_OK:
            return False
        if unit is not None and unit not in UNITS_OK:
            return False
        return not (cat is None and unit is None)
    if r["route"] in ("cwq", "cea"):
        vs = [x for x in (r.get("values"), r.get("value")) if x is not None]
        if r["route"] == "cwq" and len(vs) != 1:
            return False
        return all(x != "unsized" for x in vs)
    return False


def _check_make(r):
    obj, e = attempt(lambda: run_route(r))
    if e is None:
        bad = _inv(obj)
        if bad:
            return dict(clause="every obtainable FixedArray has len(values) == dimension >= 2", request=r, observed=bad)
        # a container whose length disagrees with the dimension that was asked for (length 0 included) must not be
        # accepted - not even by quietly building the array from something else than the container that was given
        if r["route"] != "internal" and _wellformed_route(r) and _size_bad_route(r):
            return dict(clause="an attempt that would break the size invariant raises ValueError", request=r,
                        observed="accepted: dimension %r, %d values %r" % (obj.dimension, len(obj.values), list(obj.values)[:6]))
        return None
    if r["route"] != "internal" and _wellformed_route(r) and _size_bad_route(r) and not isinstance(e, ValueError):
        return dict(clause="an attempt that would break the size invariant raises ValueError", request=r, observed=repr(e))
    return None


def _phys(u_from, u_to, x):
    """physical re-expression through the database (`UnitDatabase.Convert`); a value without unit re-expresses unchanged"""
    from barril.units import UnitDatabase

    if u_from == u_to or not u_from or not u_to:
        return x
    db = UnitDatabase.GetSingleton()
    return db.Convert(db.GetQuantityType(u_from), u_from, u_to, x)


def _unit_ok_for(src, unit):
    """the unit is one the source's category accepts (asked of the real API, sizes not involved)"""
    from barril.units import ObtainQuantity

    try:
        if src.category:
            ObtainQuantity(unit, src.category)
        else:
            ObtainQuantity(unit)
        return True
    except Exception:
        return False


def _same_dimension(u1, u2):
    """two units measure the same thing (or one operand has no unit at all)"""
    from barril.units import UnitDatabase

    if not u1 or not u2:
        return True
    db = UnitDatabase.GetSingleton()
    return db.GetQuantityType(u1) is not None and db.GetQuantityType(u1) == db.GetQuantityType(u2)


def _near(a, b, *mags, single=False):
    """`single`: the real code holds / computed the number in numpy.float32 (eps 6e-8 instead of 1e-16)"""
    tol = (1e-5 if single else 1e-9) * (abs(a) + abs(b) + sum(abs(m) for m in mags)) + 1e-300
    return abs(a - b) <= tol


def _is_f32(v):
    import numpy

    return isinstance(v, numpy.float32)


def _check_op(src, o, store):
    """The C11 clauses for one operation on a real source; returns (failure-or-None, result-or-None)."""
    from barril.units import FixedArray, Scalar

    before = snapshot(src)
    src_vals = [float(v) for v in src.values]
    src_q = src.GetQuantity()
    r, e = attempt(lambda: run_op(src, o, store))
    if snapshot(src) != before:
        return dict(clause="an operation leaves its source unchanged", op=o, before=str(before[:6]), after=str(snapshot(src)[:6])), None
    do = o["do"]
    if do == "checkValues" and isinstance(o.get("values"), dict):
        # the guard itself: a container is accepted exactly when it has `dimension` elements, refused with ValueError
        want = o["dimension"] if o.get("dimension") is not None else src.dimension
        fits = len(o["values"]["v"]) == want
        if fits != (e is None) or (e is not None and not isinstance(e, ValueError)):
            return dict(clause="CheckValues accepts exactly the containers of `dimension` elements and refuses the others with ValueError",
                        op=o, dimension=src.dimension, observed="accepted" if e is None else repr(e)), None
        return None, None
    if e is None and do in ("len", "iter"):
        n = r.value if do == "len" else len(r.value[1])
        if n != src.dimension:
            return dict(clause="every obtainable FixedArray has len(values) == dimension >= 2", op=o,
                        observed="%s gives %r for dimension %r" % ("len(array)" if do == "len" else "iterating", n, src.dimension)), None
        return None, None
    if e is not None:
        # ValueError is demanded only of a call that is legal apart from its sizes (a unit the source's
        # category does not accept, or operands of different dimensions, may fail their own way first)
        size_bad = False
        if do == "createCopy" and isinstance(o.get("values"), dict) and o.get("category") is None and \
                (o.get("unit") is None or _unit_ok_for(src, o.get("unit"))) and not src.GetQuantity().IsDerived():
            size_bad = len(o["values"]["v"]) != src.dimension
        if do == "arith":
            rhs = o["rhs"]
            if "arr" in rhs and _same_dimension(src.unit, mk_qty(rhs["arr"]["q"]).GetUnit()):
                size_bad = len(rhs["arr"]["v"]) != len(src_vals)
            if "other" in rhs and _same_dimension(src.unit, store[rhs["other"]].unit):
                size_bad = len(store[rhs["other"]].values) != len(src_vals)
        if size_bad and not isinstance(e, ValueError):
            return dict(clause="an attempt that would break the size invariant raises ValueError", op=o, observed=repr(e)), None
        return None, None
    if isinstance(r, FixedArray):
        bad = _inv(r)
        if bad:
            return dict(clause="every obtainable FixedArray has len(values) == dimension >= 2", op=o,
                        source=dict(dimension=src.dimension, values=src_vals, unit=src.unit), observed=bad), r
    if do == "arith" and ("arr" in o["rhs"] or "other" in o["rhs"]):
        # two Arrays of different lengths have no elementwise result: accepting them truncates or stretches one
        n_other = len(o["rhs"]["arr"]["v"]) if "arr" in o["rhs"] else len(store[o["rhs"]["other"]].values)
        if n_other != len(src_vals):
            return dict(clause="an attempt that would break the size invariant raises ValueError", op=o,
                        source=dict(dimension=src.dimension, values=src_vals, unit=src.unit),
                        observed="arithmetic of a FixedArray of dimension %r with an Array of %d values returned %s of dimension %r" % (
                            src.dimension, n_other, type(r).__name__, getattr(r, "dimension", None))), r
    if do in ("createCopy", "createCopyKw") and isinstance(o.get("values"), dict) and len(o["values"]["v"]) != src.dimension:
        # the call was legal in every other respect (it did not fail): new values of another length than the
        # dimension of the FixedArray being copied are an attempt to break its size and must raise ValueError
        return dict(clause="an attempt that would break the size invariant raises ValueError", op=o,
                    source=dict(dimension=src.dimension, values=src_vals, unit=src.unit, category=src.category),
                    observed="CreateCopy with %d values of a FixedArray of dimension %r returned %s of dimension %r" % (
                        len(o["values"]["v"]), src.dimension, type(r).__name__, getattr(r, "dimension", None))), r
    if do == "changingIndex":
        n = len(src_vals)
        i = o["index"]
        j = i if i >= 0 else n + i
        if not (0 <= j < n):
            return dict(clause="ChangingIndex accepts only an index of the array", op=o, observed="no IndexError"), r
        v = o["value"]
        uvu = o.get("uvu", True)
        if len(r.values) != n:
            return dict(clause="ChangingIndex returns an array of the same length", op=o, observed=len(r.values)), r
        # the supplied amount and the unit it is written in
        if "num" in v:
            amount, a_unit, plain = dec(v["num"]), src.unit, True
        elif "scalar" in v:
            sq = mk_qty(v["scalar"]["q"])
            amount, a_unit, plain = dec(v["scalar"]["v"]), sq.GetUnit(), False
        else:
            t = list(v["tup"]) + [None] * 3
            a_unit = t[1] if t[1] is not None else src.unit
            amount = dec(t[0]) if t[0] is not None else _phys(src.unit, a_unit, src_vals[j])
            plain = t[1] is None and t[2] is None
        if plain and r.GetQuantity() != src_q:
            return dict(clause="ChangingIndex with a plain number keeps the quantity of the array", op=o,
                        observed=(r.category, r.unit)), r
        if not uvu and r.GetQuantity() != src_q:
            return dict(clause="ChangingIndex keeps the quantity of the array unless use_value_unit", op=o,
                        observed=(r.category, r.unit)), r
        if uvu and r.unit != a_unit:
            return dict(clause="ChangingIndex adopts the unit of the supplied value when use_value_unit", op=o,
                        observed=r.unit, want=a_unit), r
        if uvu and "scalar" in v and r.GetQuantity() != sq:
            return dict(clause="ChangingIndex adopts the quantity of the Scalar when use_value_unit", op=o,
                        observed=(r.category, r.unit)), r
        want = _phys(a_unit, r.unit, amount)
        got = float(r.values[j])
        if not _near(got, want, src_vals[j]):
            return dict(clause="ChangingIndex: the element at the index is physically the supplied amount", op=o,
                        index=j, got=got, want=want, unit=r.unit), r
        for k in range(n):
            if k == j:
                continue
            want = _phys(src.unit, r.unit, src_vals[k])
            if not _near(float(r.values[k]), want, single=_is_f32(r.values[k])):
                return dict(clause="ChangingIndex: the other elements are physically unchanged", op=o, index=k,
                            got=float(r.values[k]), want=want, unit=r.unit), r
    if do == "indexAsScalar":
        n = len(src_vals)
        i = o["index"]
        j = i if i >= 0 else n + i
        if not (0 <= j < n):
            return dict(clause="IndexAsScalar accepts only an index of the array", op=o, observed="no IndexError"), None
        q = mk_qty(o["quantity"]) if o.get("quantity") is not None else src_q
        if not isinstance(r, Scalar) or r.GetQuantity() != q:
            return dict(clause="IndexAsScalar returns a Scalar of the requested quantity", op=o, observed=repr(r)), None
        want = _phys(src.unit, q.GetUnit(), src_vals[j])
        if not _near(float(r.GetValue()), want, single=_is_f32(src.values[j])):
            return dict(clause="IndexAsScalar(i) is the i-th amount in the requested unit", op=o, got=float(r.GetValue()), want=want), None
        return None, None
    return None, (r if isinstance(r, FixedArray) else None)


def _check_chain(t):
    store = []
    for pos, cmd in enumerate(t["cmds"]):
        if "make" in cmd:
            f = _check_make(cmd["make"])
            if f:
                f["at"] = pos
                return f
            obj, e = attempt(lambda: run_route(cmd["make"]))
            if e is None:
                store.append(obj)
            continue
        if not store:
            continue
        o = _resolved_op(cmd["o"], len(store))
        f, r = _check_op(store[_resolve(cmd["src"], len(store))], o, store)
        if f:
            f["at"] = pos
            f["chain"] = t["cmds"][:pos + 1]
            return f
        if r is not None:
            store.append(r)
        # every array obtained so far still satisfies the invariant
        for k, a in enumerate(store):
            bad = _inv(a)
            if bad:
                return dict(clause="every obtainable FixedArray has len(values) == dimension >= 2", at=pos, store_index=k, observed=bad)
    return None


def _check_curve(t):
    """A Curve never holds an image and a domain with different numbers of points, whatever their containers and
    whatever route an array comes in by (constructor forms, SetImage / SetDomain / SetValues, assignment to the
    `image` / `domain` properties, copies); the number of points of every array is known from its construction and
    the held arrays are recognised by identity."""
    arrs = [mk_curve_array(a) for a in t["arrs"]]
    npts = {id(obj): points_of(a) for obj, a in zip(arrs, t["arrs"])}
    shapes = {id(obj): "%s[%d]" % (shape_name(a) + ("x%d" % a["w"] if a.get("w") else ""), points_of(a)) for obj, a in zip(arrs, t["arrs"])}

    def held_points(c):
        i, d = c.GetImage(), c.GetDomain()
        if id(i) not in npts or id(d) not in npts:
            return None
        return npts[id(i)], npts[id(d)]

    li, ld = npts[id(arrs[t["image"]])], npts[id(arrs[t["domain"]])]
    what = "Curve(%s, %s) [%s]" % (shapes[id(arrs[t["image"]])], shapes[id(arrs[t["domain"]])], t.get("ctor", "pos"))
    c, e = attempt(lambda: new_curve(t, arrs))
    if e is not None:
        if li != ld and isinstance(e, ValueError):
            return None
        return dict(clause="Curve(image, domain) fails only for different lengths, with ValueError", call=what, points=(li, ld), observed=repr(e))
    if li != ld:
        return dict(clause="a Curve never holds an image and a domain of different lengths", at="constructor", call=what, points=(li, ld))
    if held_points(c) != (li, ld) or c.GetImage() is not arrs[t["image"]] or c.GetDomain() is not arrs[t["domain"]]:
        return dict(clause="a Curve holds the arrays it was given", at="constructor", call=what)
    bad = curve_reads(c)
    if bad:
        return dict(clause="curve.image / curve.domain / GetLength() show what GetImage() / GetDomain() hold", at="constructor", call=what, observed=bad)
    for pos, o in enumerate(t["ops"]):
        if "copy" in o:
            res, e = attempt(lambda: copy_curve(c, o["copy"]))
            if e is not None:
                return dict(clause="a Curve can be copied", at=pos, op=o, observed=repr(e))
            c2, problems = res
            pts = held_points(c2)
            if pts is None or pts[0] != pts[1] or problems:
                return dict(clause="a Curve never holds an image and a domain of different lengths", at=pos, op=o, points=pts,
                            observed=problems or "the copy holds other arrays")
            c = c2
            continue
        if is_read(o):
            f = _check_curve_read(c, o, npts, shapes, pos)
            if f:
                return f
            continue
        a = arrs[o["a"]]
        held = (c.GetImage(), c.GetDomain())
        want_ok = npts[id(a)] == (npts[id(held[1])] if o["set"] == "image" else npts[id(held[0])])
        call = "%s with %s on a curve holding (%s, %s)" % (setter_name(o), shapes[id(a)], shapes.get(id(held[0])), shapes.get(id(held[1])))
        _, e = attempt(lambda: apply_setter(c, o, a))
        pts = held_points(c)
        if pts is None:
            return dict(clause="a Curve holds the arrays it was given", at=pos, op=o, call=call)
        if pts[0] != pts[1]:
            return dict(clause="a Curve never holds an image and a domain of different lengths", at=pos, op=o, call=call, points=pts,
                        setter="accepted" if e is None else "rejected")
        if e is not None:
            if not isinstance(e, ValueError):
                return dict(clause="a rejected setter raises ValueError", at=pos, op=o, call=call, observed=repr(e))
            if c.GetImage() is not held[0] or c.GetDomain() is not held[1]:
                return dict(clause="a rejected setter leaves the curve unchanged", at=pos, op=o, call=call)
        elif not want_ok:
            return dict(clause="an array of another length is rejected with ValueError and leaves the curve unchanged", at=pos, op=o, call=call)
        bad = curve_reads(c)
        if bad:
            return dict(clause="curve.image / curve.domain / GetLength() show what GetImage() / GetDomain() hold", at=pos, op=o, call=call, observed=bad)
    return None


def _same_elem(a, b):
    import numpy

    try:
        return bool(numpy.array_equal(numpy.asarray(a, dtype=float), numpy.asarray(b, dtype=float)))
    except Exception:
        return False


def _check_curve_read(c, o, npts, shapes, pos):
    """Reading never changes what a Curve holds; `GetLength()` is the common number of points; `curve[i]` pairs the
    elements image and domain have at ONE position (which of the two comes first is not demanded here) and exists
    exactly for -n <= i < n; a slice takes equally many elements of both."""
    held = (c.GetImage(), c.GetDomain())
    n = npts.get(id(held[0]))
    call = "%s on a curve holding (%s, %s)" % (o, shapes.get(id(held[0])), shapes.get(id(held[1])))
    r, e = attempt(lambda: (c[o["get"]] if "get" in o else c[slice(*o["slice"])] if "slice" in o else c.GetLength() if "length" in o else repr(c)))
    if c.GetImage() is not held[0] or c.GetDomain() is not held[1]:
        return dict(clause="reading a Curve leaves it unchanged", at=pos, call=call)
    if n is None or npts.get(id(held[1])) != n:
        return dict(clause="a Curve never holds an image and a domain of different lengths", at=pos, call=call,
                    points=(n, npts.get(id(held[1]))))
    if "length" in o:
        if e is not None or r != n:
            return dict(clause="GetLength() is the number of points of image and domain", at=pos, call=call, observed=repr(e) if e else r, want=n)
        return None
    if "repr" in o:
        if e is not None or not isinstance(r, str):
            return dict(clause="a Curve has a repr", at=pos, call=call, observed=repr(e))
        return None
    iv, dv = held[0].GetValues(), held[1].GetValues()
    if "get" in o:
        i = o["get"]
        j = i if i >= 0 else n + i
        if not (0 <= j < n):
            if e is None or not isinstance(e, IndexError):
                return dict(clause="curve[i] exists only for an index of the curve (IndexError otherwise)", at=pos, call=call,
                            observed=repr(e) if e else "returned %r" % (r,))
            return None
        if e is not None:
            return dict(clause="curve[i] exists for every index of the curve", at=pos, call=call, observed=repr(e))
        ok = isinstance(r, tuple) and len(r) == 2 and (
            (_same_elem(r[0], dv[j]) and _same_elem(r[1], iv[j])) or (_same_elem(r[0], iv[j]) and _same_elem(r[1], dv[j])))
        if not ok:
            return dict(clause="curve[i] pairs the i-th element of the domain with the i-th element of the image", at=pos, call=call,
                        index=j, observed=repr(r)[:120], want=repr((dv[j], iv[j]))[:120])
        return None
    step = o["slice"][2]
    if step == 0:
        return None if isinstance(e, ValueError) else dict(clause="a slice with step 0 is a ValueError", at=pos, call=call, observed=repr(e))
    if e is not None or not (isinstance(r, tuple) and len(r) == 2) or len(r[0]) != len(r[1]) or \
            len(r[0]) != len(range(*slice(*o["slice"]).indices(n))):
        return dict(clause="a slice of a Curve takes the same positions of domain and image", at=pos, call=call,
                    observed=repr(e) if e else "lengths %s" % ([len(x) for x in r] if isinstance(r, tuple) else r,))
    return None


def oracle(c, ctx):
    t = c["_t"]
    try:
        if c["op"] == "make":
            return _check_make(t)
        if c["op"] == "step":
            return _check_chain(dict(cmds=[dict(make=t["src"]), dict(src=0, o=t["o"])]))
        if c["op"] == "chain":
            return _check_chain(t)
        if c["op"] == "curve":
            return _check_curve(t)
    except Exception as e:  # the oracle's own plumbing failed on this input: not a verdict
        ctx.notes.setdefault("oracle_errors", []).append(repr(e)[:200])
        return None
    return None


def shrink(case, failure, ctx):
    """A failing chain is cut after the failing command and commands are dropped while it still fails."""
    if case["op"] != "chain":
        return case, failure
    cmds = list(case["_t"]["cmds"])
    if "at" in failure:
        cmds = cmds[:failure["at"] + 1]
    best, bestf = dict(case, _t=dict(cmds=cmds)), failure
    i = len(cmds) - 2
    while i >= 0:
        cand = cmds[:i] + cmds[i + 1:]
        f = _check_chain(dict(cmds=cand)) if cand else None
        if f:
            cmds, best, bestf = cand, dict(case, _t=dict(cmds=cand)), f
        i -= 1
    return best, bestf
