"""C07 - quantities are immutable interned values with sound equality, hash, copying and pickling.

Decided by: Barril/Props/C07.lean (theorems about the executable model Barril/Model/Intern.lean of
`ObtainQuantity`, `Quantity.__init__`, `CreateEmpty`, `CreateDerived`, `MakeCopy`, `__reduce__`,
`__eq__/__hash__` and of the three database routines that edit composing maps on copies).
Tie: histories of public operations run on the real code (private POSC database pushed as the
singleton) and on the model; after EVERY step every quantity alive in `quantities_cache` is
snapshot (all getters, hash, ==, identity) and the new quantities / new cache keys / identities are
compared with the model's state."""
import copy
import pickle
from collections import OrderedDict

from common import Infra, err_kind, sym

ID = "C07"
LEAN_MODULES = ["Barril.Props.C07"]
DRIVERS = ["drv_intern"]
DRIVER_EXE = "drv_intern"
RULE = ("long histories (quick 4 x ~650 steps, thorough up to 4000 steps: hold quantities of every form, make that "
        "many other distinct requests and derived results, repeat the held requests - identity) and "
        "seeded histories (quick 300 x 30 steps; thorough: every sequence of length 4 over a pool of 14 "
        "operations + 5000 random x 30) of: ObtainQuantity in every form (str+category, str only, legacy "
        "spelling, list/tuple form, dict/OrderedDict form, default-unit form, captions None/''/text, malformed "
        "requests of every kind, also through the Scalar/Array constructors), CreateEmpty, CreateDerived, "
        "MakeCopy(map), Quantity/Scalar/Array(+numpy, +list) arithmetic between earlier results and with plain "
        "numbers, conversions, validations, copies, deepcopies, pickle round trips, SetUnknownCaption, "
        "CreateCopy(unit=), the constructor run again on an existing quantity (q.__init__ / Quantity.__init__(q, ..) "
        "with a category and unit, a category alone, a composing OrderedDict, the empty one, an unknown caption; on "
        "simple, derived, empty and unknown-caption quantities; 60 fixed histories + random steps); multi-entry requests are followed by permuted twins and by arithmetic on their result; "
        "after every request the caller's containers are mutated; every product/quotient/sum is repeated on an "
        "emptied database; after every step the whole cache is snapshot and compared.  distinct = distinct "
        "history; non-trivial = at least two quantities were created and one later step involved an earlier one")
EXHAUSTIVE = {"quick": False, "thorough": False}
ASSUMPTIONS = [
    "aliasing is a hand-modelled heap of [unit, exp] cells: a missed copy in the real code is caught by the "
    "per-step snapshots of the correspondence, not by the theorems",
    "arithmetic on cached quantities is compared with the same operation on a database whose memo tables were "
    "just cleared (a reused private database with cleared tables is checked against a brand-new one on a sample)",
    "units are str, exponents are int, captions are str or None; values used in arithmetic are non-zero so the "
    "final float operation cannot fail; conversion failures are value independent (C01 convert_total)",
    "the derived strings (_category, _quantity_type, _unit) are observed for stability only; their content is "
    "the Str engine's business",
    "no registration happens inside a history (registrations empty the memo tables: C15)",
]

QTS = ["length", "time", "temperature", "mass", "volume", "molar mass", "dimensionless"]
UNITS = {"length": ["m", "cm", "km", "ft", "in"], "time": ["s", "min", "h"], "temperature": ["K", "degC", "degF"],
         "mass": ["kg", "g", "lbm"], "volume": ["m3", "Mcf", "bbl"], "molar mass": ["mol", "lbmol"],
         "dimensionless": ["-", "%"]}
CATS = {"length": ["length", "depth", "diameter"], "time": ["time"], "temperature": ["temperature", "delta temperature"],
        "mass": ["mass"], "volume": ["volume", "liquid volume"], "molar mass": ["molar mass", "amount of substance"],
        "dimensionless": ["dimensionless", "index"]}
LEGACY3 = [("1000ft3", "volume", "Mcf"), ("1000m3", "volume", "Mm3"), ("M(ft3)", "volume", "MMcf"),
           ("M(m3)", "volume", "MMm3"), ("k(ft3)", "liquid volume", "Mcf"),
           ("1000ft3/d", "volume flow rate", "Mcf/d"), ("M(ft3)/d", "volume flow rate", "MMcf/d"),
           ("1000m3/d", "volume flow rate", "Mm3/d"), ("M(m3)/d", "volume flow rate", "MMm3/d"),
           ("lbmole", "molar mass", "lbmol"), ("gmole", "amount of substance", "gmol"), ("lbmole/h", "mole per time", "lbmol/h"),
           ("Ns/m", "force per velocity", "N.s/m")]
LEGACY = [(l, c) for l, c, _ in LEGACY3]
BAD_UNITS = ["zzz", "1000ft3xyz", ""]
BAD_CAT = "no such category"
CAPS = [None, None, None, "", "cap", "other"]
MAX_EXP = 8          # arithmetic on operands with larger exponents is skipped by both sides (float overflow)
MAX_CELLS = 8
HELD = 12            # long histories: the equality rows / per-step snapshots cover the first HELD objects (+ a sample)
IDENT_CLAUSE = "the same request repeated returns the identical object"
REINIT_CLAUSE = "running the constructor again on an existing quantity (q.__init__(...)) changes nothing and raises nothing"


# ------------------------------------------------------------------------------------------ generators
def _pair(rng):
    qt = rng.choice(QTS)
    return rng.choice(CATS[qt]), rng.choice(UNITS[qt])


def _item(rng, bad=0.06):
    c, u = _pair(rng)
    e = rng.choice([1, 1, 2, -1, -2, 3, 0])
    r = rng.random()
    if r < bad:
        u = rng.choice(["zz", "s", "lbmole", "gmole", "1000ft3", "M(m3)"])
    elif r < 2 * bad:
        c = BAD_CAT
    return [c, u, e, rng.random() < 0.4]


def _items(rng, n, distinct=True):
    out = []
    for _ in range(n):
        it = _item(rng)
        if distinct and any(o[0] == it[0] for o in out):
            continue
        out.append(it)
    return out


def gen_request(rng):
    """one ObtainQuantity request (python-side form, strings)"""
    f = rng.random()
    cap = rng.choice(CAPS)
    if f < 0.30:      # str + category
        c, u = _pair(rng)
        r = rng.random()
        if r < 0.08:
            u = rng.choice(UNITS[rng.choice(QTS)] + BAD_UNITS)
        elif r < 0.12:
            c = BAD_CAT
        elif r < 0.24:
            l, c, cur = rng.choice(LEGACY3)
            u = l if rng.random() < 0.6 else cur
        via = rng.choice(["obtain", "obtain", "scalar", "array"]) if cap is None else "obtain"
        return dict(k="obtain", u=["s", u], c=["s", c], cap=cap, via=via)
    if f < 0.45:      # str only: default category, legacy, unknown
        u = rng.choice(UNITS[rng.choice(QTS)] + [l for l, _ in LEGACY] + [cur for _, _, cur in LEGACY3[-4:]]
                       + BAD_UNITS[:2])
        via = rng.choice(["obtain", "obtain", "scalar", "array"]) if cap is None else "obtain"
        return dict(k="obtain", u=["s", u], c=None, cap=cap, via=via)
    if f < 0.52:      # unknown quantity with captions
        return dict(k="obtain", u=["s", "<unknown>"], c=rng.choice([["s", "Unknown"], None]), cap=cap, via="obtain")
    if f < 0.70:      # list/tuple form
        n = rng.choice([0, 1, 1, 2, 2, 3])
        items = _items(rng, n, distinct=rng.random() < 0.85)
        if n == 1 and rng.random() < 0.5:
            items[0][2] = 1
        cats = [it[0] for it in items]
        r = rng.random()
        if r < 0.08 and cats:
            cats = cats[:-1]
        elif r < 0.14:
            cats = cats + ["time"]
        elif r < 0.18:
            c = rng.choice([None, ["s", "length"]])
            return dict(k="obtain", u=["l", [it[1:] for it in items], rng.random() < 0.5], c=c, cap=cap, via="obtain")
        return dict(k="obtain", u=["l", [it[1:] for it in items], rng.random() < 0.5],
                    c=["q", cats, rng.random() < 0.5], cap=cap, via="obtain")
    if f < 0.88:      # dict / OrderedDict form
        n = rng.choice([0, 1, 1, 2, 2, 3])
        items = _items(rng, n)
        if len(items) == 1 and rng.random() < 0.5:
            items[0][2] = 1
        c = ["s", "length"] if rng.random() < 0.04 else None
        return dict(k="obtain", u=["d", items, rng.random() < 0.88], c=c, cap=cap, via="obtain")
    if f < 0.96:      # unit given by the category
        r = rng.random()
        if r < 0.6:
            c = ["s", _pair(rng)[0]]
        elif r < 0.7:
            c = ["s", BAD_CAT]
        elif r < 0.8:
            c = None
        else:
            c = ["q", ["length"], rng.random() < 0.5]
        return dict(k="obtain", u=None, c=c, cap=cap, via="obtain")
    # a string unit with a sequence as category
    return dict(k="obtain", u=["s", "m"], c=["q", ["length"], rng.random() < 0.5], cap=cap, via="obtain")


def _ref(rng, i):
    if i == 0:
        return 0
    if rng.random() < 0.4:
        return max(0, i - 1 - rng.randrange(min(i, 3)))
    return rng.randrange(i)


IDENTS = ["copy", "deepcopy", "Copy", "MakeCopy", "CreateCopyInstance", "abs", "qmulnum", "smulnum", "getvalue",
          "isvalid", "checkvalue", "convert", "validunits", "unitname", "repr", "scalarstr", "compare", "hash"]


def gen_init_args(rng):
    """arguments of a repeated __init__: a = ["s", category, unit|None] or ["d", items] (category = OrderedDict, unit = None)"""
    r = rng.random()
    cap = rng.choice(CAPS)
    if r < 0.40:
        c, u = _pair(rng)
        if rng.random() < 0.15:
            u = None
        return dict(a=["s", c, u], cap=cap)
    if r < 0.50:
        return dict(a=["s", "Unknown", "<unknown>"], cap=rng.choice(["cap", "re-init"]))
    if r < 0.65:
        return dict(a=["d", []], cap=cap)
    return dict(a=["d", _items(rng, rng.choice([1, 2, 2, 3]))], cap=cap)


def reinit_histories():
    """every held request form x every argument form of a repeated __init__: on the held quantity, on its square,
    on the empty quantity its quotient resolves to; then the same requests and arithmetic again"""
    forms = [dict(a=["s", "time", "s"], cap=None), dict(a=["s", "length", None], cap="cap"),
             dict(a=["d", [["time", "s", -1, False], ["mass", "kg", 1, False]]], cap=None),
             dict(a=["d", []], cap=None), dict(a=["s", "Unknown", "<unknown>"], cap="re-init"),
             dict(a=["d", [["time", "s", 1, True]]], cap="")]
    sq = dict(k="new", div=False, a=0, b=0, x=0, lvl="s", sy="*")
    qu = dict(k="new", div=True, a=0, b=0, x=0, lvl="q", sy="/")
    for h in held_requests():
        for f in forms:
            yield [dict(h), dict(sq), dict(qu), dict(k="reinit", q=0, **f), dict(k="reinit", q=1, **f),
                   dict(k="reinit", q=2, **f), dict(h), dict(sq), dict(qu), dict(k="empty", how="scalar"),
                   dict(k="same", a=0, b=0, x=0, lvl="s", sy="+")]


def gen_op(rng, i):
    f = rng.random()
    if f < 0.36 or i == 0:
        return gen_request(rng)
    if f < 0.66:
        lvl = rng.choice(["q", "s", "s", "anp", "alist"])
        sy = rng.choice("+-*/")
        a, b = _ref(rng, i), _ref(rng, i)
        x = 0
        if lvl == "alist":
            x = rng.choice([0, 1, 2, 3])
        if lvl in ("anp", "alist") and rng.random() < 0.25:
            if rng.random() < 0.5:
                a = "e"
            else:
                b = "e"
        elif lvl == "s" and sy == "/" and rng.random() < 0.3:
            a = "e"
        if sy in "+-":
            return dict(k="same", a=a, b=b, x=x, lvl=lvl, sy=sy)
        return dict(k="new", div=(sy == "/"), a=a, b=b, x=x, lvl=lvl, sy=sy)
    if f < 0.73:
        return dict(k="pickle", q=_ref(rng, i), proto=rng.choice([0, 2, pickle.HIGHEST_PROTOCOL]))
    if f < 0.81:
        return dict(k="ident", q=_ref(rng, i), how=rng.choice(IDENTS), u=rng.choice(UNITS[rng.choice(QTS)] + ["zzz"]))
    if f < 0.84:
        return dict(k="reinit", q=_ref(rng, i), **gen_init_args(rng))
    if f < 0.87:
        return dict(k="setcap", q=_ref(rng, i), cap=rng.choice(["x", ""]))
    if f < 0.91:
        return dict(k="withunit", q=_ref(rng, i), u=rng.choice(UNITS[rng.choice(QTS)] + ["zzz", "lbmole"]))
    if f < 0.95:
        return dict(k="derived", items=_items(rng, rng.choice([0, 1, 2, 3])), cap=rng.choice(CAPS))
    if f < 0.98:
        its = _items(rng, rng.choice([0, 1, 2]))
        for it in its:
            it[3] = False
        return dict(k="mkcopy", q=_ref(rng, i), items=its)
    return dict(k="empty", how=rng.choice(["quantity", "scalar", "array"]))


def permuted_twin(rng, o):
    """the same multi-entry composing request with its entries in another order (dict form or
    CreateDerived; the twin may switch between the two forms), or None"""
    if o["k"] == "obtain" and o["u"] is not None and o["u"][0] == "d" and o["c"] is None:
        items, cap = o["u"][1], o["cap"]
    elif o["k"] == "derived":
        items, cap = o["items"], o["cap"]
    else:
        return None
    if len(items) < 2 or len({it[0] for it in items}) != len(items):
        return None
    perm = [list(it) for it in items]
    while perm == [list(it) for it in items]:
        rng.shuffle(perm)
    if rng.random() < 0.5:
        return dict(k="obtain", u=["d", perm, True], c=None, cap=cap, via="obtain")
    return dict(k="derived", items=perm, cap=cap)


def arith_on(rng, idx, i):
    """a product/quotient/sum whose operand is the result of step `idx` (i = index of the new step)"""
    sy = rng.choice("*/*/+-")
    lvl = rng.choice(["q", "s", "s", "anp", "alist"])
    a, b = idx, (idx if rng.random() < 0.3 else _ref(rng, i))
    if rng.random() < 0.5:
        a, b = b, a
    x = rng.choice([0, 1, 2, 3]) if lvl == "alist" else 0
    if sy in "+-":
        return dict(k="same", a=a, b=b, x=x, lvl=lvl, sy=sy)
    return dict(k="new", div=(sy == "/"), a=a, b=b, x=x, lvl=lvl, sy=sy)


def gen_history(rng, n):
    ops = []
    while len(ops) < n:
        o = gen_op(rng, len(ops))
        ops.append(o)
        idx = len(ops) - 1
        if len(ops) < n and rng.random() < 0.5:
            t = permuted_twin(rng, o)
            if t is not None:
                ops.append(t)
        # the other spelling of a legacy/current unit (same category and caption), then a sum across the two
        if len(ops) + 1 < n and o["k"] == "obtain" and o["u"] is not None and o["u"][0] == "s" and rng.random() < 0.6:
            other = [cur for l, _, cur in LEGACY3 if l == o["u"][1]] + [l for l, _, cur in LEGACY3 if cur == o["u"][1]]
            if other:
                t = dict(o)
                t["u"] = ["s", rng.choice(other)]
                t["via"] = "obtain" if o["cap"] is not None else rng.choice(["obtain", "scalar"])
                ops.append(t)
                ops.append(dict(k="same", a=idx, b=idx + 1, x=0, lvl=rng.choice(["q", "s"]), sy=rng.choice("+-")))
        # arithmetic that gets a quantity created from the tuple/list/dict forms back from the cache
        if (len(ops) < n and o["k"] == "obtain" and o["u"] is not None and o["u"][0] in ("l", "d")
                and rng.random() < 0.5):
            ops.append(arith_on(rng, idx, len(ops)))
        # the constructor run again on a fresh product / derived / empty quantity, then arithmetic that resolves to it
        if len(ops) + 1 < n and o["k"] in ("new", "derived", "empty") and rng.random() < 0.15:
            ops.append(dict(k="reinit", q=idx, **gen_init_args(rng)))
            ops.append(arith_on(rng, idx, len(ops)) if rng.random() < 0.5 else dict(o))
    return ops


def held_requests():
    """requests of every form whose results a long history holds on to"""
    return [
        dict(k="obtain", u=["s", "m"], c=["s", "length"], cap=None, via="obtain"),
        dict(k="obtain", u=["s", "cm"], c=None, cap=None, via="scalar"),
        dict(k="obtain", u=None, c=["s", "time"], cap=None, via="obtain"),
        dict(k="obtain", u=["d", [["length", "m", 2, False], ["time", "s", -1, False]], True], c=None, cap=None, via="obtain"),
        dict(k="obtain", u=["l", [["kg", 1, True], ["s", -2, True]], True], c=["q", ["mass", "time"], True], cap=None,
             via="obtain"),
        dict(k="empty", how="quantity"),
        dict(k="obtain", u=["s", "<unknown>"], c=["s", "Unknown"], cap="held caption", via="obtain"),
        dict(k="obtain", u=["s", "lbmole"], c=None, cap=None, via="obtain"),
        dict(k="derived", items=[["volume", "m3", 1, False], ["time", "s", -1, False]], cap="cap"),
        dict(k="obtain", u=["s", "km"], c=["s", "depth"], cap="", via="array" if False else "obtain"),
    ]


def gen_long(rng, all_units, n_fill):
    """a long history: hold quantities, make n_fill OTHER distinct requests / derived results in the same
    database, repeat the held requests (they must give the identical objects)"""
    held = held_requests()
    ops = [dict(o) for o in held]
    units = list(all_units)
    rng.shuffle(units)
    ui = 0
    for _ in range(n_fill):
        i = len(ops)
        f = rng.random()
        if f < 0.45 and ui < len(units):
            ops.append(dict(k="obtain", u=["s", units[ui]], c=None, cap=None, via=rng.choice(["obtain", "obtain", "scalar"])))
            ui += 1
        elif f < 0.62:
            c, u = _pair(rng)
            ops.append(dict(k="obtain", u=["s", u], c=["s", c], cap="f%d" % i, via="obtain"))
        elif f < 0.72:
            ops.append(dict(k="obtain", u=["s", "<unknown>"], c=["s", "Unknown"], cap="u%d" % i, via="obtain"))
        elif f < 0.80:
            ops.append(dict(k="derived", items=_items(rng, rng.choice([2, 3]), distinct=True), cap="d%d" % i))
        else:                         # products, quotients and powers of earlier results
            a = rng.randrange(i)
            b = a if rng.random() < 0.25 else rng.randrange(i)
            ops.append(dict(k="new", div=rng.random() < 0.4, a=a, b=b, x=0, lvl=rng.choice(["q", "s"]), sy="*"))
            if ops[-1]["div"]:
                ops[-1]["sy"] = "/"
    ops += [dict(o) for o in held]
    return ops, dict(held=len(held), fill=n_fill)


def exhaustive_pool():
    """14 operations; references are relative (resolved when the history is laid out)"""
    od = lambda items: ["d", items, True]
    return [
        dict(k="obtain", u=["s", "m"], c=["s", "length"], cap=None, via="obtain"),
        dict(k="obtain", u=["s", "m"], c=None, cap=None, via="scalar"),
        dict(k="obtain", u=["s", "cm"], c=["s", "length"], cap="", via="obtain"),
        dict(k="obtain", u=["s", "lbmole"], c=None, cap=None, via="obtain"),
        dict(k="obtain", u=["l", [["m", 2, True], ["s", -1, True]], False], c=["q", ["length", "time"], False], cap=None,
             via="obtain"),
        dict(k="obtain", u=od([["length", "m", 1, False]]), c=None, cap=None, via="obtain"),
        dict(k="obtain", u=["s", "<unknown>"], c=["s", "Unknown"], cap="cap", via="obtain"),
        dict(k="obtain", u=None, c=["s", "time"], cap=None, via="obtain"),
        dict(k="new", div=False, a=-1, b=-2, x=0, lvl="s", sy="*"),
        dict(k="new", div=True, a=-1, b=-1, x=1, lvl="alist", sy="/"),
        dict(k="same", a=-1, b="e", x=0, lvl="anp", sy="+"),
        dict(k="pickle", q=-1, proto=2),
        dict(k="derived", items=[["time", "s", -1, False], ["length", "m", 2, False]], cap=None),   # pool[4] permuted
        dict(k="obtain", u=["s", "lbmol"], c=["s", "molar mass"], cap=None, via="obtain"),          # pool[3] respelled
    ]


def layout(pool_ops):
    """resolve relative references (-1 = previous step, -2 = the one before; clipped at step 0)"""
    out = []
    for i, o in enumerate(pool_ops):
        o = dict(o)
        for f in ("a", "b", "q"):
            if isinstance(o.get(f), int) and o[f] < 0:
                o[f] = max(0, i + o[f])
        out.append(o)
    return out


# ------------------------------------------------------------------------------------------ model line
def _s(x):
    return None if x is None else str(sym(x))


def _m_items(items):
    return [[_s(c), _s(u), e, bool(fz)] for c, u, e, fz in items]


def _m_unit(u):
    if u is None:
        return None
    if u[0] == "s":
        return {"s": _s(u[1])}
    if u[0] == "l":
        return {"l": [[_s(p[0]), p[1], bool(p[2])] for p in u[1]]}
    return {"d": _m_items(u[1]), "od": bool(u[2])}


def _m_cat(c):
    if c is None:
        return None
    if c[0] == "s":
        return {"s": _s(c[1])}
    return {"q": [_s(x) for x in c[1]], "tup": bool(c[2])}


def to_model(o):
    k = o["k"]
    if k == "obtain":
        return dict(k=k, u=_m_unit(o["u"]), c=_m_cat(o["c"]), cap=_s(o["cap"]))
    if k == "empty":
        return dict(k=k)
    if k == "derived":
        return dict(k=k, items=_m_items(o["items"]), cap=_s(o["cap"]))
    if k == "mkcopy":
        return dict(k=k, q=o["q"], items=_m_items(o["items"]))
    if k in ("ident", "pickle"):
        return dict(k=k, q=o["q"])
    if k == "setcap":
        return dict(k=k, q=o["q"], cap=_s(o["cap"]))
    if k == "withunit":
        return dict(k=k, q=o["q"], u=_s(o["u"]))
    if k == "reinit":
        a = o["a"]
        return dict(k=k, q=o["q"], a={"s": [_s(a[1]), _s(a[2])]} if a[0] == "s" else {"d": _m_items(a[1])},
                    cap=_s(o["cap"]))
    if k == "same":
        return dict(k=k, a=o["a"], b=o["b"], x=o["x"])
    if k == "new":
        return dict(k=k, div=bool(o["div"]), a=o["a"], b=o["b"], x=o["x"])
    raise ValueError(k)


def make_case(ops, long=None):
    """long = dict(held=h, fill=n): a long history (h held requests, n filler steps, the h requests again); the
    driver and the runner then work in 'light' mode (time linear in the history per step)"""
    c = dict(op="history", ops=[to_model(o) for o in ops], guard=[MAX_EXP, MAX_CELLS], _t=dict(ops=ops))
    if long:
        c["light"] = True
        c["_t"]["long"] = long
    return c


def model_line(c):
    return {k: v for k, v in c.items() if k != "_t"}


def case_key(c):
    return model_line(c)


def show(c):
    ops, lg = c["_t"]["ops"], c["_t"].get("long")
    if not lg:
        return dict(history=ops)
    h, n = lg["held"], lg["fill"]
    return dict(held_requests=ops[:h], filler_block=dict(count=n, first=ops[h:h + 2], last=ops[h + n - 1:h + n]),
                repeated=ops[h + n:])


# ------------------------------------------------------------- what a creation request asks for
LEGACY_SPELLINGS = ["1000ft3", "1000m3", "M(ft3)", "M(m3)", "k(ft3)", "Ns/m", "lbmole", "gmole"]


def _od_cells(pairs):
    """[(category, unit, exp)] of OrderedDict(pairs) (a repeated category keeps its first position, last value)"""
    return [(c, ue[0], ue[1]) for c, ue in OrderedDict((c, (u, e)) for c, u, e in pairs).items()]


def expected_of(o, source_caption=None):
    """What a successful creation request must return, computed from the request alone (never from
    library output): dict(cells=[(category, unit, exp)] in the requested order | None, cat=..|None,
    unit=..|None, derived=bool, cap=str).  None = this request form carries no expectation."""
    k = o["k"]
    if k == "obtain":
        u, c, cap = o["u"], o["c"], o["cap"] or ""
        if u is not None and u[0] == "d":
            cells = _od_cells([(it[0], it[1], it[2]) for it in u[1]])
        elif u is not None and u[0] == "l":
            items = [(p[0], p[1]) for p in u[1]]
            if len(items) == 1 and items[0][1] == 1:
                cat = c[1][0] if (c is not None and c[0] == "q" and c[1]) else (c[1] if c is not None and c[0] == "s" else None)
                return dict(cells=None, cat=cat, unit=items[0][0], derived=False, cap=cap)
            if c is None or c[0] != "q":
                return None
            cells = _od_cells([(cc, un, e) for cc, (un, e) in zip(c[1], items)])
        elif u is not None and u[0] == "s":
            return dict(cells=None, cat=c[1] if (c is not None and c[0] == "s") else None, unit=u[1], derived=False, cap=cap)
        else:
            return dict(cells=None, cat=c[1] if (c is not None and c[0] == "s") else None, unit=None, derived=False, cap=cap)
    elif k == "derived":
        cells, cap = _od_cells([(it[0], it[1], it[2]) for it in o["items"]]), o["cap"] or ""
    elif k == "mkcopy":
        cells, cap = _od_cells([(it[0], it[1], it[2]) for it in o["items"]]), source_caption or ""
    else:
        return None
    if len(cells) == 1 and cells[0][2] == 1:      # "although passed as composing, it's a simple case"
        return dict(cells=None, cat=cells[0][0], unit=cells[0][1], derived=False, cap=cap)
    return dict(cells=cells, cat=None, unit=None, derived=True, cap=cap)


def mismatch(q, want):
    """why the quantity is not what the request asked for (None = it is)"""
    got = [c[:3] for c in _cells(q)]
    if (q.GetUnknownCaption() or "") != want["cap"]:
        return "caption %r, requested %r" % (q.GetUnknownCaption(), want["cap"])
    if bool(q.IsDerived()) != want["derived"]:
        return "IsDerived() is %r" % (q.IsDerived(),)
    if want["cells"] is not None:
        if got != [tuple(c) for c in want["cells"]]:
            return "composing map %r, requested %r (in this order)" % (got, want["cells"])
        if q.GetComposingCategories() != tuple(c[0] for c in want["cells"]):
            return "composing categories %r not the requested ones" % (q.GetComposingCategories(),)
        if q.GetComposingUnits() != tuple((c[1], c[2]) for c in want["cells"]):
            return "composing units %r not the requested ones" % (q.GetComposingUnits(),)
        return None
    if want["cat"] is not None and q.GetCategory() != want["cat"]:
        return "category %r, requested %r" % (q.GetCategory(), want["cat"])
    if want["unit"] is not None and q.GetUnit() != want["unit"] and not any(l in want["unit"] for l in LEGACY_SPELLINGS):
        return "unit %r, requested %r" % (q.GetUnit(), want["unit"])
    return None


# ------------------------------------------------------------------------------------------ real code
class World:
    """one private POSC database, reused for a batch of histories"""

    def __init__(self):
        from barril.units.unit_database import UnitDatabase

        self.db = UnitDatabase()
        UnitDatabase.FillUnitDatabaseWithPosc(self.db)

    def reset(self):
        self.db.quantities_cache.clear()
        self.db._category_unit_valid.clear()

    def shadow(self):
        """a second private database, emptied before every use: the 'fresh database' arithmetic is compared with"""
        if getattr(self, "_shadow", None) is None:
            self._shadow = World()
        self._shadow.reset()
        return self._shadow


def _mutate(cont):
    """what a careless caller may do to the containers it passed, after the request returned"""
    cells = list(cont.values()) if isinstance(cont, dict) else list(cont) if isinstance(cont, (list, tuple)) else []
    for ue in cells:
        if isinstance(ue, list) and len(ue) == 2:
            ue[0], ue[1] = "changed by the caller", 77
    if isinstance(cont, dict):
        cont["added by the caller"] = ["m", 5]
    elif isinstance(cont, list):
        cont.append(["m", 5])


def _py_unit(u):
    if u is None:
        return None
    if u[0] == "s":
        return u[1]
    if u[0] == "l":
        seq = [tuple(p[:2]) if p[2] else list(p[:2]) for p in u[1]]
        return tuple(seq) if u[2] else seq
    pairs = [(c, (un, e) if fz else [un, e]) for c, un, e, fz in u[1]]
    return OrderedDict(pairs) if u[2] else dict(pairs)


def _py_cat(c):
    if c is None:
        return None
    if c[0] == "s":
        return c[1]
    return tuple(c[1]) if c[2] else list(c[1])


def _py_map(items):
    return OrderedDict((c, (un, e) if fz else [un, e]) for c, un, e, fz in items)


def _cells(q):
    return [(c, ue[0], ue[1], isinstance(ue, tuple)) for c, ue in q.GetCategoryToUnitAndExps().items()]


def _try(f):
    try:
        return ("ok", repr(f()))
    except Exception as e:  # getters of a quantity with an unregistered unit may raise: the outcome must be stable too
        return ("raise", type(e).__name__)


def full_snapshot(q):
    """everything observable about one quantity"""
    return (q.GetCategory(), q.GetQuantityType(), q.GetUnit(), repr(q.GetComposingUnits()),
            repr(q.GetComposingCategories()), tuple(_cells(q)), q.GetUnknownCaption(), q.IsDerived(), hash(q),
            q.GetComposingUnitsJoiningExponents(), repr(q), id(q.GetCategoryInfo()), q.GetUnitCaption(),
            _try(q.GetUnitName), id(q.GetUnitDatabase()))


def canon_key(k):
    """a cache key in the model's vocabulary"""
    if isinstance(k, tuple) and len(k) == 3 and all(x is None or isinstance(x, str) for x in k):
        return ["s", _s(k[0]), _s(k[1]), _s(k[2])]
    if isinstance(k, tuple):
        items, cap = list(k), "0"
        if items and isinstance(items[-1], str):
            cap = _s(items.pop())
        if all(isinstance(it, tuple) and len(it) == 2 and isinstance(it[0], str) and isinstance(it[1], tuple)
               and len(it[1]) == 2 and isinstance(it[1][0], str) and type(it[1][1]) is int for it in items):
            return ["d", [[_s(c), _s(ue[0]), ue[1]] for c, ue in items], cap]
    return ["?", repr(k)]


class Run:
    """executes one history on the real code and records, per step, what the model also reports,
    together with every violation of the property's clauses seen on the way (the oracle)"""

    def __init__(self, world, light=False):
        self.w = world
        self.light = light       # long history: per-step checks on the held objects and a moving sample only
        self.cache_raw = []      # (key object, id of the quantity) parallel to self.cache
        self.known = []          # quantity objects by identity index
        self.index = {}          # id(obj) -> identity index
        self.snaps = []          # full snapshot per known quantity
        self.eqrows = []         # eq list per known quantity (at the time it appeared)
        self.cache = []          # (key, identity index) in insertion order
        self.results = []        # per step: identity index or None
        self.requests = {}       # canonical request -> identity index of the object it returned
        self.req_sigs = []       # ((caption, composing cells | None), identity index) of the successful creation requests
        self.viol = []
        self.notes = {}
        self.pending = []        # the containers this step handed to the library

    # -- bookkeeping
    def note(self, k):
        self.notes[k] = self.notes.get(k, 0) + 1

    def bad(self, step, clause, **kw):
        if len(self.viol) < 20 or (clause in (IDENT_CLAUSE, FRESH_CLAUSE) and len(self.viol) < 40):
            self.viol.append(dict(step=step, clause=clause, **kw))

    def sample(self, step, n):
        """the indices < n looked at in this step: all of them, or (light) the held ones, the newest and a moving few"""
        if not self.light or n <= HELD + 8:
            return range(n)
        return sorted(set(list(range(HELD)) + [n - 1, n - 2, n - 3] + [(step * 7 + d * 1013) % n for d in range(5)]))

    def reg(self, q):
        i = self.index.get(id(q))
        if i is None:
            i = len(self.known)
            self.known.append(q)
            self.index[id(q)] = i
        return i

    def operand_ok(self, q):
        cells = _cells(q)
        return len(cells) <= MAX_CELLS and all(abs(c[2]) <= MAX_EXP for c in cells)

    # -- one operation
    def obj(self, ref):
        if ref == "e":
            return "e"
        if isinstance(ref, int) and 0 <= ref < len(self.results) and self.results[ref] is not None:
            return self.known[self.results[ref]]
        return None

    def do(self, step, o):
        """returns a Quantity, or raises, or returns None for `skip`"""
        from barril.units import Array, ObtainQuantity, Quantity, Scalar
        from barril.units._quantity import ReadOnlyError
        import numpy as np

        k = o["k"]
        self.pending = []
        if k == "obtain":
            u, c, cap = _py_unit(o["u"]), _py_cat(o["c"]), o["cap"]
            self.pending += [u, c]
            if o["via"] == "scalar":
                return Scalar(2.0, u, c).GetQuantity()
            if o["via"] == "array":
                return Array(np.array([2.0, 3.0]), u, c).GetQuantity()
            if cap is None and step % 2:
                return ObtainQuantity(u, c)
            return ObtainQuantity(u, c, cap)
        if k == "empty":
            if o["how"] == "scalar":
                return Scalar.CreateEmptyScalar(2.0).GetQuantity()
            if o["how"] == "array":
                return Array.CreateEmptyArray().GetQuantity()
            return Quantity.CreateEmpty()
        if k == "derived":
            m = _py_map(o["items"])
            self.pending.append(m)
            if o["cap"] is None:
                return Quantity.CreateDerived(m)
            return Quantity.CreateDerived(m, o["cap"])
        q = None
        if k in ("mkcopy", "ident", "pickle", "setcap", "withunit", "reinit"):
            q = self.obj(o["q"])
            if q is None:
                return None
        if k == "mkcopy":
            m = _py_map(o["items"])
            self.pending.append(m)
            return q.MakeCopy(m) if step % 2 else q.CreateCopyInstance(m)
        if k == "pickle":
            r = pickle.loads(pickle.dumps(q, o.get("proto", 2)))
            if not (r == q and q == r and hash(r) == hash(q) and not (r != q)):
                self.bad(step, "a pickle round trip returns an equal quantity", quantity=repr(q), got=repr(r))
            return r
        if k == "setcap":
            try:
                q.SetUnknownCaption(o["cap"])
            except ReadOnlyError:
                raise
            except Exception as e:
                self.bad(step, "mutators raise ReadOnlyError", quantity=repr(q), raised=repr(e))
                raise
            self.bad(step, "mutators raise ReadOnlyError", quantity=repr(q), raised=None)
            return q
        if k == "reinit":
            a = o["a"]
            before, shown = full_snapshot(q), repr(q)
            if a[0] == "s":
                args = (a[1], a[2])
            else:
                m = _py_map(a[1])
                self.pending.append(m)
                args = (m, None)
            if o["cap"] is not None:
                args += (o["cap"],)
            try:
                ret = q.__init__(*args) if step % 2 else Quantity.__init__(q, *args)
            except Exception as e:
                self.bad(step, REINIT_CLAUSE, quantity=shown, arguments=repr(args), raised=repr(e))
                raise
            try:
                after = full_snapshot(q)
            except Exception as e:
                after = ("the getters raise", repr(e))
            if ret is not None or after != before:
                self.bad(step, REINIT_CLAUSE, quantity=shown, arguments=repr(args), returned=repr(ret),
                         before=repr(before)[:300], after=repr(after)[:300])
            return q
        if k == "withunit":
            if q.IsDerived() and any(c[2] != 0 for c in _cells(q)):
                return None
            return Scalar(q, 2.0).CreateCopy(value=1.0, unit=o["u"]).GetQuantity()
        if k == "ident":
            return self.ident(step, q, o["how"], o.get("u"))
        if k in ("same", "new"):
            a, b = self.obj(o["a"]), self.obj(o["b"])
            if a is None or b is None:
                return None
            for x in (a, b):
                if x != "e" and not self.operand_ok(x):
                    self.note("arith skipped by the exponent guard")
                    return None
            return self.arith(o, a, b)
        raise ValueError(k)

    def ident(self, step, q, how, u):
        from barril.units import Scalar

        r = q
        try:
            if how == "copy":
                r = copy.copy(q)
            elif how == "deepcopy":
                r = copy.deepcopy([q, {"k": q}])[1]["k"]
            elif how == "Copy":
                r = q.Copy()
            elif how == "MakeCopy":
                r = q.MakeCopy()
            elif how == "CreateCopyInstance":
                r = q.CreateCopyInstance()
            elif how == "abs":
                r = abs(q)
            elif how == "qmulnum":
                r = q * 2.0
            elif how == "smulnum":
                r = (Scalar(q, 2.0) * 3.0).GetQuantity()
            elif how == "getvalue":
                Scalar(q, 2.0).GetValue(u)
            elif how == "isvalid":
                Scalar(q, 2.0).IsValid()
            elif how == "checkvalue":
                q.CheckValue(-5.0)
            elif how == "convert":
                q.ConvertScalarValue(2.0, u)
            elif how == "validunits":
                Scalar(q, 2.0).GetValidUnits()
            elif how == "unitname":
                q.GetUnitName()
            elif how == "repr":
                repr(q), repr(Scalar(q, 2.0))
            elif how == "scalarstr":
                str(Scalar(q, 2.0))
            elif how == "compare":
                Scalar(q, 2.0) < Scalar(q, 3.0)
            elif how == "hash":
                hash(q), {q: 1}[q]
        except Exception as e:
            self.note("ident op raised " + err_kind(e))
        if r is not q:
            self.bad(step, "copy/deepcopy/Copy/MakeCopy()/abs/number arithmetic return the identical object",
                     how=how, quantity=repr(q), got=repr(r))
        return q

    def arith(self, o, a, b):
        from barril.units import Array, Scalar
        import numpy as np

        lvl, sy = o["lvl"], o["sy"]
        n = o["x"]

        def val(x, v, seq):
            if x == "e":
                return v
            if lvl == "q":
                return x
            if lvl == "s":
                return Scalar(x, v)
            if lvl == "anp":
                return Array(x, np.array([v, v + 1.0]))
            return Array(x, seq([v + i for i in range(n)]))

        seq = tuple if (n % 2) else list
        if (a == "e" or b == "e") and lvl == "alist":
            pass
        x, y = val(a, 2.0, seq), val(b, 3.0, seq)
        if sy == "+":
            r = x + y
        elif sy == "-":
            r = x - y
        elif sy == "*":
            r = x * y
        else:
            r = x / y
        return r if lvl == "q" else r.GetQuantity()

    def fresh_compare(self, step, o, a, b, r, q):
        """products/quotients/sums on cached quantities behave as on a fresh database (operands re-created
        there from their composing maps in plain list form)"""
        from barril.units import ObtainQuantity
        from barril.units._quantity import Quantity
        from barril.units.unit_database import UnitDatabase

        sh = self.w.shadow()
        saved = Quantity._EMPTY_QUANTITY
        Quantity._EMPTY_QUANTITY = None
        UnitDatabase.PushSingleton(sh.db)
        try:
            def again(x):
                if x == "e":
                    return "e"
                cells = [(c[0], [c[1], c[2]]) for c in _cells(x)]
                cap = x.GetUnknownCaption() or None
                if x.IsDerived():
                    return ObtainQuantity(OrderedDict(cells), None, cap)
                return ObtainQuantity(cells[0][1][0], cells[0][0], cap)

            try:
                res = self.arith(o, again(a), again(b))
                fresh = ["ok", [list(c[:3]) for c in _cells(res)], res.GetUnknownCaption() or ""]
            except Exception as e:
                fresh = ["err", err_kind(e), type(e).__name__ + ": " + str(e)[:120]]
        finally:
            UnitDatabase.PopSingleton()
            Quantity._EMPTY_QUANTITY = saved
        if r[0] == "ok":
            mine = ["ok", [list(c[:3]) for c in _cells(q)], q.GetUnknownCaption() or ""]
        else:
            mine = ["err", r[1], r[2] if len(r) > 2 else ""]
        if mine[:2] != fresh[:2] or (mine[0] == "ok" and mine != fresh):
            self.note("arithmetic differs from a fresh database")
            self.bad(step, FRESH_CLAUSE, operation=o,
                     operands=[repr(x) for x in (a, b)],
                     operand_cells=[None if x == "e" else [list(c) for c in _cells(x)] for x in (a, b)],
                     here=mine, fresh_database=fresh)

    def caller_mutates(self, step):
        """the caller changes the containers it passed; no quantity may notice"""
        conts = [c for c in self.pending if isinstance(c, (dict, list, tuple))]
        self.pending = []
        if not conts:
            return True
        for cont in conts:
            _mutate(cont)
        ok = True
        for i in self.sample(step, len(self.known)):
            q = self.known[i]
            s = full_snapshot(q)
            if s != self.snaps[i]:
                ok = False
                self.bad(step, "changing the containers passed to a request afterwards does not change any quantity",
                         identity=i, before=repr(self.snaps[i])[:300], after=repr(s)[:300])
                break
        return ok

    # -- after every step
    def observe(self, step, result):
        from barril.units._quantity import Quantity

        db = self.w.db
        n_old_q, n_old_k = len(self.known), len(self.cache)
        stable = True
        items = list(db.quantities_cache.items())
        # cache entries: nothing removed, nothing re-pointed, order kept
        if len(items) < n_old_k:
            stable = False
            self.bad(step, "a cache entry disappeared")
        for j in self.sample(step, n_old_k):
            if j >= len(items):
                break
            k1, q1 = items[j]
            k0, i0 = self.cache[j]
            if id(q1) != self.cache_raw[j][1] or not (k1 is self.cache_raw[j][0] or canon_key(k1) == k0):
                stable = False
                self.bad(step, "a cache entry changed", key=k0, was=i0, now=self.index.get(id(q1)))
                break
        for k1, q1 in items[n_old_k:]:
            self.cache.append((canon_key(k1), self.reg(q1)))
            self.cache_raw.append((k1, id(q1)))
        if result is not None and hasattr(result, "GetCategoryToUnitAndExps"):
            self.reg(result)
        # previously seen quantities: every getter, the hash and the caption are what they were
        for i in self.sample(step, n_old_q):
            s = full_snapshot(self.known[i])
            if s != self.snaps[i]:
                stable = False
                self.bad(step, "a previously created quantity changed", identity=i, before=repr(self.snaps[i])[:300],
                         after=repr(s)[:300])
        nq = []
        for i in range(n_old_q, len(self.known)):
            q = self.known[i]
            self.snaps.append(full_snapshot(q))
            cells = _cells(q)
            eqs, hqs = [], []
            for j in (range(i + 1) if not self.light else [j for j in range(min(HELD, i))] + [i]):
                p = self.known[j]
                e1, e2 = (q == p), (p == q)
                same_map = ([c[:3] for c in cells] == [c[:3] for c in _cells(p)]
                            and q.GetUnknownCaption() == p.GetUnknownCaption())
                if e1 != e2 or (q != p) == e1:
                    self.bad(step, "== is symmetric and consistent with !=", a=repr(q), b=repr(p))
                if e1 != same_map:
                    self.bad(step, "quantities are equal exactly when composing map and caption agree", a=repr(q),
                             b=repr(p), a_map=cells, b_map=_cells(p), equal=e1)
                if e1 and hash(q) != hash(p):
                    self.bad(step, "equal quantities have equal hashes", a=repr(q), b=repr(p))
                if (not q.IsDerived() and not p.IsDerived()
                        and (q.GetCategory(), q.GetUnit(), q.GetUnknownCaption() or "")
                        == (p.GetCategory(), p.GetUnit(), p.GetUnknownCaption() or "")
                        and not (e1 and e2 and hash(q) == hash(p) and len({q, p}) == 1)):
                    self.bad(step, "requests that resolve to the same category, unit and caption return equal quantities "
                                   "with equal hashes", a=repr(q), b=repr(p), a_map=cells, b_map=_cells(p), equal=e1,
                             same_hash=hash(q) == hash(p))
                if e1:
                    eqs.append(j)
                if same_map and all(c[:3] == d[:3] for c, d in zip(cells, _cells(p))):
                    hqs.append(j)
                    if hash(q) != hash(p):
                        self.bad(step, "the hash depends on composing map and caption only", a=repr(q), b=repr(p))
            self.eqrows.append(eqs)
            # getters agree with the composing map
            ok = True
            if q.IsDerived():
                ok = (q.GetComposingUnits() == tuple((c[1], c[2]) for c in cells)
                      and q.GetComposingCategories() == tuple(c[0] for c in cells) and q.GetCategoryInfo() is None)
            else:
                ok = (len(cells) == 1 and q.GetCategory() == cells[0][0] == q.GetComposingCategories()
                      and q.GetUnit() == cells[0][1] == q.GetComposingUnits() and cells[0][2] == 1
                      and q.GetCategoryInfo() is db.GetCategoryInfo(cells[0][0]))
            if q.GetUnitDatabase() is not db:
                ok = False
            # every accessor of one quantity shows the same units: getters, composing map, pickled state
            state = q.__reduce__()[1][0]
            st_cells = [(c, ue[0], ue[1]) for c, ue in state[:-1]]
            if not ok or st_cells != [c[:3] for c in cells] or (state[-1] or "") != (q.GetUnknownCaption() or ""):
                self.bad(step, "all accessors of one quantity show the same category, unit and caption", quantity=repr(q),
                         GetUnit=q.GetUnit(), GetComposingUnits=repr(q.GetComposingUnits()),
                         GetCategory=q.GetCategory(), composing_map=[list(c) for c in cells],
                         reduce_state=repr(state)[:200])
            nq.append(dict(c=[[_s(c), _s(u), e, fz] for c, u, e, fz in cells], cap=_s(q.GetUnknownCaption() or ""),
                           d=bool(q.IsDerived()), j=[[_s(u), e] for u, e in q.GetComposingUnitsJoiningExponents()],
                           eq=eqs, hq=hqs, getters=ok))
        emp = Quantity._EMPTY_QUANTITY
        return dict(nq=nq, nk=[[k, i] for k, i in self.cache[n_old_k:]],
                    e=None if emp is None else self.index.get(id(emp), -1), st=stable)

    def final_check(self, step):
        """the whole equality matrix once more at the end of the history"""
        if self.light:               # the full sweep the per-step sample left out
            items = list(self.w.db.quantities_cache.items())
            for j, (raw, oid) in enumerate(self.cache_raw):
                if j >= len(items) or id(items[j][1]) != oid or items[j][0] != raw:
                    self.bad(step, "a cache entry changed", key=self.cache[j][0], was=self.cache[j][1], now=None)
                    break
            for i, q in enumerate(self.known):
                s = full_snapshot(q)
                if s != self.snaps[i]:
                    self.bad(step, "a previously created quantity changed", identity=i, before=repr(self.snaps[i])[:300],
                             after=repr(s)[:300])
                    break
        for i, q in enumerate(self.known):
            js = range(i + 1) if not self.light else [j for j in range(min(HELD, i))] + [i]
            now = [j for j in js if q == self.known[j]]
            if now != self.eqrows[i]:
                self.bad(step, "the equality class of a quantity changed", identity=i, before=self.eqrows[i], after=now)

    def request_key(self, o):
        if o["k"] in ("obtain", "derived", "empty"):
            return repr(sorted((k, repr(v)) for k, v in o.items() if k not in ("via", "how")))
        return None

    def run(self, ops):
        from barril.units._quantity import Quantity
        from barril.units.unit_database import UnitDatabase

        out = []
        saved = Quantity._EMPTY_QUANTITY
        Quantity._EMPTY_QUANTITY = None
        UnitDatabase.PushSingleton(self.w.db)
        try:
            for step, o in enumerate(ops):
                a_obj = b_obj = None
                if o["k"] in ("same", "new"):
                    a_obj, b_obj = self.obj(o["a"]), self.obj(o["b"])
                try:
                    q = self.do(step, o)
                    if q is None:
                        r = ["skip"]
                    elif not hasattr(q, "GetCategoryToUnitAndExps"):
                        r = ["err", "other"]
                        self.note("non-quantity result %s" % type(q).__name__)
                    else:
                        r = ["ok", q]
                except Exception as e:
                    q = None
                    r = ["err", err_kind(e)]
                    self.note("error " + type(e).__name__)
                    if o["k"] in ("same", "new"):
                        r.append(type(e).__name__ + ": " + str(e)[:120])
                ob = self.observe(step, q)
                if not self.caller_mutates(step):
                    ob["st"] = False
                if o["k"] in ("same", "new") and r[0] != "skip":
                    self.fresh_compare(step, o, a_obj, b_obj, r, q if r[0] == "ok" else None)
                    r = r[:2]
                if r[0] == "ok":
                    r = ["ok", self.index[id(q)]]
                    self.results.append(r[1])
                    rk = self.request_key(o)
                    if rk is not None:
                        if rk in self.requests and self.requests[rk] != r[1]:
                            self.bad(step, IDENT_CLAUSE, request=o,
                                     first=self.requests[rk], now=r[1])
                        self.requests.setdefault(rk, r[1])
                    if o["k"] in ("obtain", "derived", "mkcopy"):
                        src = None
                        if o["k"] == "mkcopy":
                            src = self.known[self.results[o["q"]]].GetUnknownCaption()
                        want = expected_of(o, src)
                        if want is not None:
                            # the returned quantity IS what was requested
                            why = mismatch(q, want)
                            if why:
                                self.bad(step, "a creation request returns the quantity that was requested", request=o,
                                         returned=repr(q), difference=why)
                            # requests that resolve differently (other caption, other composing map - also
                            # the same entries in another order) must return unequal quantities
                            sig = (want["cap"], None if want["cells"] is None else tuple(map(tuple, want["cells"])))
                            for sig0, i0 in self.req_sigs:
                                differs = sig0[0] != sig[0] or (sig0[1] is not None and sig[1] is not None and sig0[1] != sig[1])
                                if differs and (i0 == r[1] or self.known[i0] == q):
                                    self.bad(step, "requests that resolve differently return unequal quantities",
                                             request=o, resolves_to=repr(sig), earlier_request_resolved_to=repr(sig0),
                                             returned=repr(q), same_object=(i0 == r[1]))
                                    break
                            if (sig, r[1]) not in self.req_sigs:
                                self.req_sigs.append((sig, r[1]))
                else:
                    self.results.append(None)
                ob["r"] = r
                out.append(ob)
            self.final_check(len(ops))
        finally:
            UnitDatabase.PopSingleton()
            Quantity._EMPTY_QUANTITY = saved
        return out


def run_history(ctx, ops, fresh=False, light=False):
    w = World() if fresh else ctx.world
    if not fresh:
        w.reset()
    r = Run(w, light)
    out = r.run(ops)
    return out, r


def setup(ctx):
    ctx.world = World()
    db = ctx.world.db
    for qt in QTS:
        for c in CATS[qt]:
            if c not in db.categories_to_quantity_types or db.categories_to_quantity_types[c].quantity_type != qt:
                raise Infra("C07 generator pool: category %r is not a category of %r any more" % (c, qt))
        for u in UNITS[qt]:
            if db.GetQuantityType(u) != qt:
                raise Infra("C07 generator pool: unit %r is not a unit of %r any more" % (u, qt))
    for l, c, cur in LEGACY3:
        if c not in db.categories_to_quantity_types or db.GetQuantityType(cur) != db.categories_to_quantity_types[c].quantity_type:
            raise Infra("C07 generator pool: %r is not a unit of category %r any more" % (cur, c))
        if db.GetQuantityType(l) is not None:
            raise Infra("C07 generator pool: legacy spelling %r is a registered unit now" % (l,))
    ctx.all_units = sorted(u for u in db.GetUnits() if u)
    ctx.reuse_checked = 0


def _histories(ctx, salt):
    rng = ctx.fresh_rng("C07" + salt)
    if ctx.tier == "quick":
        for _ in range(300):
            yield gen_history(rng, 30)
        for ops in reinit_histories():
            yield ops
        pool = exhaustive_pool()
        for a in range(len(pool)):       # depth 2 over the pool in the quick tier
            for b in range(len(pool)):
                yield layout([pool[a], pool[b], pool[a]])
    else:
        for ops in reinit_histories():
            yield ops
        pool = exhaustive_pool()
        n = len(pool)
        for a in range(n):
            for b in range(n):
                for c in range(n):
                    for d in range(n):
                        yield layout([pool[a], pool[b], pool[c], pool[d]])
        for _ in range(5000):
            yield gen_history(rng, 30)


def long_cases(ctx, salt):
    rng = ctx.fresh_rng("C07long" + salt)
    plan = [600, 620, 650, 700] if ctx.tier == "quick" else [700, 1500, 3000, 4000]
    for n in plan:
        ops, lg = gen_long(rng, ctx.all_units, n)
        yield make_case(ops, lg)


def cases(ctx):
    for ops in _histories(ctx, "corr"):
        yield make_case(ops)
    for c in long_cases(ctx, "corr"):
        yield c


def impl(c, ctx):
    ops = c["_t"]["ops"]
    try:
        light = bool(c.get("light"))
        out, r = run_history(ctx, ops, light=light)
        # is reusing one database (memo tables cleared) observably the same as a fresh one?  checked on a sample
        if ctx.reuse_checked < 25:
            ctx.reuse_checked += 1
            out2, _ = run_history(ctx, ops, fresh=True, light=light)
            if out2 != out:
                return dict(err="other", detail="a reused private database (memo tables cleared) and a fresh one differ")
    except Infra:
        raise
    except Exception as e:
        return dict(err="other", detail="history runner raised %r" % (e,))
    for k, v in r.notes.items():
        ctx.notes[k] = ctx.notes.get(k, 0) + v
    for st in out:
        key = "result " + st["r"][0] + (":" + st["r"][1] if st["r"][0] == "err" else "")
        ctx.notes[key] = ctx.notes.get(key, 0) + 1
    for o in ops:
        key = "op " + o["k"] + ("/" + o["u"][0] if o["k"] == "obtain" and o["u"] else "")
        ctx.notes[key] = ctx.notes.get(key, 0) + 1
    ctx.notes["quantities created"] = ctx.notes.get("quantities created", 0) + len(r.known)
    ctx.notes["cache entries"] = ctx.notes.get("cache entries", 0) + len(r.cache)
    return dict(ok=out, viol=r.viol[:3], created=len(r.known))


def agree(c, io, mo, ctx):
    if "err" in io:
        return "implementation side: %s" % io.get("detail", io["err"])
    if "ok" not in mo:
        return "model side: %r" % (mo,)
    a, b = io["ok"], mo["ok"]
    if len(a) != len(b):
        return "different number of steps"
    for i, (x, y) in enumerate(zip(a, b)):
        op = c["_t"]["ops"][i]
        if x["r"] != y["r"]:
            return "step %d %r: result impl=%r model=%r" % (i, op, x["r"], y["r"])
        if not x["st"]:
            return "step %d %r: something about an earlier quantity or cache entry changed: %r" % (i, op, io["viol"][:1])
        if not y["st"]:
            return "step %d: the model changed an earlier quantity" % i
        if x["e"] != y["e"]:
            return "step %d %r: _EMPTY_QUANTITY impl=%r model=%r" % (i, op, x["e"], y["e"])
        if x["nk"] != y["nk"]:
            return "step %d %r: new cache entries impl=%r model=%r" % (i, op, x["nk"], y["nk"])
        if len(x["nq"]) != len(y["nq"]):
            return "step %d %r: %d new quantities, the model has %d" % (i, op, len(x["nq"]), len(y["nq"]))
        for qa, qb in zip(x["nq"], y["nq"]):
            if not qa["getters"]:
                return "step %d %r: getters of a new quantity disagree with its composing map: %r" % (i, op, qa)
            for f in ("c", "cap", "d", "j", "eq", "hq"):
                if qa[f] != qb[f]:
                    return "step %d %r: new quantity field %s impl=%r model=%r" % (i, op, f, qa[f], qb[f])
    if io["viol"]:
        return "the implementation violates a clause of the property: %r" % (io["viol"][0],)
    return None


def nontrivial(c, io):
    if "ok" not in io or io.get("created", 0) < 2:
        return False
    ops = c["_t"]["ops"]
    return any(o["k"] not in ("obtain", "derived", "empty") and st["r"][0] != "skip" for o, st in zip(ops, io["ok"]))


# ------------------------------------------------------------- the property itself, on the real code only
def oracle(c, ctx):
    ops = c["_t"]["ops"]
    try:
        _out, r = run_history(ctx, ops, fresh=True, light=bool(c.get("light")))
    except Exception as e:
        return dict(clause="history runner raised", error=repr(e))
    if r.viol:
        first = ([v for v in r.viol if v["clause"] == REINIT_CLAUSE] or [v for v in r.viol if v["clause"] == FRESH_CLAUSE]
                 or [v for v in r.viol if v["clause"] == IDENT_CLAUSE] or r.viol)
        v = dict(first[0])
        if c["_t"].get("long"):
            lg = c["_t"]["long"]
            v["history"] = dict(held_requests=lg["held"], filler_requests=lg["fill"],
                                note="the held requests are ops[:held]; they are repeated after the filler block")
            v["other_clauses_seen"] = sorted({w["clause"] for w in r.viol if w is not first[0]})
        else:
            v["history_prefix"] = ops[: v["step"] + 1]
        return v
    return None


def search(ctx):
    rng = ctx.fresh_rng("C07search")
    for c in long_cases(ctx, "search"):
        yield c
        break
    for ops in reinit_histories():
        yield make_case(ops)
    pool = exhaustive_pool()
    n = len(pool)
    for a in range(n):
        for b in range(n):
            for cc in range(n):
                yield make_case(layout([pool[a], pool[b], pool[cc]]))
    while True:
        yield make_case(gen_history(rng, 30))


FRESH_CLAUSE = "arithmetic on cached quantities behaves as on a fresh database"


def shrink_long(case, failure, ctx):
    ops, lg = case["_t"]["ops"], case["_t"]["long"]
    h, n = lg["held"], lg["fill"]
    lo, hi = 0, n                      # invariant: hi filler steps fail
    while lo + 1 < hi:
        mid = (lo + hi) // 2
        cand = make_case(ops[:h + mid] + ops[h + n:], dict(held=h, fill=mid))
        f = oracle(cand, ctx)
        if f and f.get("clause") == failure.get("clause"):
            hi, case, failure = mid, cand, f
        else:
            lo = mid
    return case, failure


def shrink(case, failure, ctx):
    if case["_t"].get("long"):
        return shrink_long(case, failure, ctx)
    # an operation that fails (or gives another result) only because of what is cached is the more telling
    # failing input: if the found one is of another kind, try the short tuple-form histories first
    if failure.get("clause") not in (FRESH_CLAUSE, REINIT_CLAUSE):
        pool = exhaustive_pool()
        done = False
        for a in range(len(pool)):
            for b in range(len(pool)):
                cand = make_case(layout([pool[4], pool[a], pool[b]]))
                f = oracle(cand, ctx)
                if f and f.get("clause") == FRESH_CLAUSE:
                    case, failure, done = cand, f, True
                    break
            if done:
                break
    ops = list(case["_t"]["ops"])
    step = failure.get("step")
    if isinstance(step, int) and step + 1 < len(ops):
        cand = make_case(ops[: step + 1])
        f = oracle(cand, ctx)
        if f:
            case, failure, ops = cand, f, ops[: step + 1]
    i = 0
    while i < len(ops):
        nop = dict(k="ident", q=i, how="Copy")           # refers to itself: skipped by both sides
        if ops[i] != nop:
            cand_ops = ops[:i] + [nop] + ops[i + 1:]
            cand = make_case(cand_ops)
            f = oracle(cand, ctx)
            if f:
                case, failure, ops = cand, f, cand_ops
        i += 1
    return case, failure
