"""Shared by C14 and C15 (engine `Reg`, driver `drv_reg`): registration operations and queries as plain
data, their execution on a private `UnitDatabase()`, their encoding for the model, canonical
snapshots of the real registry and the comparison of outcomes."""
from common import close, err_kind, exact, qparse, qstr, sym, unsym

BAD = 5  # an argument of the wrong class
POINTS = [1.0, 4.0, -2.5]

FORMS = {  # symbol -> (frombase, tobase)
    "cm": ("%f * 100.0", "%f / 100.0"),
    "mm": ("x * 1000", "x / 1000"),
    "km": ("%f / 1000.0", "%f * 1000.0"),
    "min": ("%f / 60.0", " %f * 60.0"),
    "h": ("%f / 3600.0", "%f * 3600.0"),
    "degC": ("x - 273.15", "x + 273.15"),
    "lbmol": ("x * 2", "x / 2"),
    "Mcf": ("x / 8.0", "x * 8.0"),
}
NO_X = "y * 2"
SYNTAX = "x *"


def form_of(u):
    return FORMS.get(u, ("x * 4.0", "%s / 4.0"))


# ------------------------------------------------------------------------------------ encoding
def sarg(v):
    if v is None:
        return "n"
    if isinstance(v, str):
        return "s%d" % sym(v)
    return "b"


_FCACHE = {}


def formula(s):
    if s not in _FCACHE:
        import translate

        t = s.replace("%s", "x").replace("%f", "x")
        if "x" not in t:
            _FCACHE[s] = "noX"
        else:
            try:
                compile("lambda x:%s" % t, "<f>", "eval")
            except SyntaxError:
                _FCACHE[s] = "syn"
            else:
                p, q, r, ss = translate.mobius_of(None, s)[:4]
                _FCACHE[s] = [qstr(p), qstr(q), qstr(r), qstr(ss)]
    return _FCACHE[s]


def osym(v):
    return None if v is None else str(sym(v))


def onum(v):
    return None if v is None else qstr(exact(v))


def enc_reg(op):
    k = op["k"]
    if k == "base":
        return dict(k="base", qt=sarg(op["qt"]), name=str(sym(op["name"])), unit=sarg(op["unit"]))
    if k == "unit":
        return dict(k="unit", qt=sarg(op["qt"]), name=str(sym(op["name"])), unit=sarg(op["unit"]),
                    fb=formula(op["fb"]), tb=formula(op["tb"]), dc=str(sym(op.get("dc"))))
    kw = op["kw"]
    vu = kw.get("valid_units")
    o = dict(k="cat", c=sarg(op["c"]), qt=osym(kw.get("quantity_type")),
             vu=None if vu is None else [str(sym(u)) for u in vu], ov=bool(kw.get("override", False)),
             du=osym(kw.get("default_unit")), dv=onum(kw.get("default_value")), min=onum(kw.get("min_value")),
             max=onum(kw.get("max_value")), minx=bool(kw.get("is_min_exclusive", False)),
             maxx=bool(kw.get("is_max_exclusive", False)), cap=str(sym(kw.get("caption") or "")),
             **{"from": osym(kw.get("from_category"))})
    # EXPLICIT None for the exclusivity flags / the caption (with from_category: inherited from the source category)
    for key, field in (("is_min_exclusive", "minxN"), ("is_max_exclusive", "maxxN"), ("caption", "capN")):
        if key in kw and kw[key] is None:
            o[field] = True
    return o


def enc_expr(e):
    """an arithmetic expression over Scalars as plain data: ["s", category, unit, x] = Scalar(x, unit, category),
    ["u", unit, x] = Scalar(x, unit), [op, a, b] with op in mul / div / add / sub"""
    if e[0] == "s":
        return ["s", str(sym(e[1])), str(sym(e[2])), qstr(exact(e[3]))]
    if e[0] == "u":
        return ["u", str(sym(e[1])), qstr(exact(e[2]))]
    return [e[0], enc_expr(e[1]), enc_expr(e[2])]


def show_expr(e):
    if e[0] == "s":
        return "Scalar(%r, %r, %r)" % (e[3], e[2], e[1])
    if e[0] == "u":
        return "Scalar(%r, %r)" % (e[2], e[1])
    return "(%s %s %s)" % (show_expr(e[1]), {"mul": "*", "div": "/", "add": "+", "sub": "-"}[e[0]], show_expr(e[2]))


def eval_expr(e):
    from barril.units import Scalar

    if e[0] == "s":
        return Scalar(e[3], e[2], e[1])
    if e[0] == "u":
        return Scalar(e[2], e[1])
    a, b = eval_expr(e[1]), eval_expr(e[2])
    if e[0] == "mul":
        return a * b
    if e[0] == "div":
        return a / b
    return a + b if e[0] == "add" else a - b


def enc_query(q):
    o = dict(q=q["q"])
    if q["q"] == "arith":
        o["e"] = enc_expr(q["e"])
        return o
    for key, v in q.items():
        if key in ("c", "u", "v", "cq", "c1", "u1", "c2", "u2", "qt"):
            o[key] = str(sym(v))
        elif key in ("x", "y"):
            o[key] = qstr(exact(v))
        elif key in ("ents", "ents2"):
            o[key] = [[str(sym(c)), str(sym(u)), str(int(e))] for c, u, e in v]
        elif key == "f":
            o[key] = v
        elif key == "fu":
            o[key] = bool(v)
    return o


def enc_cop(op):
    return enc_query(op) if "q" in op else enc_reg(op)


# ------------------------------------------------------------------------------------ real side
def ci_fields(ci, key=None):
    return [ci.category if key is None or key == ci.category else "<key %r != %r>" % (key, ci.category),
            ci.quantity_type, None if ci.valid_units is None else list(ci.valid_units), ci.default_unit,
            float(ci.default_value).hex(), None if ci.min_value is None else float(ci.min_value).hex(),
            None if ci.max_value is None else float(ci.max_value).hex(), bool(ci.is_min_exclusive),
            bool(ci.is_max_exclusive), ci.caption]


def apply_reg(db, op):
    """One registration on the real code.  Never raises."""
    import copy

    k = op["k"]
    try:
        if k == "base":
            db.AddUnitBase(op["qt"], op["name"], op["unit"])
            return dict(ok=None)
        if k == "unit":
            db.AddUnit(op["qt"], op["name"], op["unit"], op["fb"], op["tb"], default_category=op.get("dc"))
            return dict(ok=None)
        ci = db.AddCategory(op["c"], **copy.deepcopy(op["kw"]))
        return dict(ok=ci_fields(ci))
    except RecursionError:
        return dict(err="runtime")
    except Exception as e:
        return dict(err=err_kind(e))


def describe(quantity):
    """a Quantity (simple or derived) canonically: composing map in its order, composing categories and units, strings"""
    cats, units = quantity.GetComposingCategories(), quantity.GetComposingUnits()
    if isinstance(cats, str):
        cats, units = (cats,), ((units, 1),)
    return dict(ents=[[c, ue[0], int(ue[1])] for c, ue in quantity.GetCategoryToUnitAndExps().items()],
                cats=list(cats), units=[[u, int(e)] for u, e in units], unit=quantity.GetUnit(),
                category=quantity.GetCategory(), qtype=quantity.GetQuantityType())


def ask(db, q, detail=False):
    """One read-only operation on the real code (db is the singleton at this point).  Never raises.
    `detail`: a failure also reports WHICH exception was raised (`cls`: the name of its class; never the text)."""
    from barril.units import Scalar

    k = q["q"]
    try:
        if k == "check":
            db.CheckCategoryUnit(q["c"], q["u"])
            return dict(ok=None)
        if k == "create":
            s = Scalar(1.0, q["u"], q["c"])
            return dict(ok=dict(cat=s.GetCategory(), unit=s.GetUnit()))
        if k == "createU":
            s = Scalar(1.0, q["u"])
            return dict(ok=dict(cat=s.GetCategory(), unit=s.GetUnit()))
        if k == "createC":
            s = Scalar(q["c"])
            return dict(ok=dict(cat=s.GetCategory(), unit=s.GetUnit(), x=float(s.GetValue()).hex()))
        if k == "convert":
            return dict(ok=dict(x=float(db.Convert(q["cq"], q["u"], q["v"], q["x"])).hex()))
        if k == "objValidUnits":
            return dict(ok=dict(l=list(Scalar(1.0, q["u"], q["c"]).GetValidUnits())))
        if k == "isValid":
            return dict(ok=dict(b=bool(Scalar(q["x"], q["u"], q["c"]).IsValid())))
        if k == "add":
            r = Scalar(q["x"], q["u1"], q["c1"]) + Scalar(q["y"], q["u2"], q["c2"])
            return dict(ok=dict(cat=r.GetCategory(), unit=r.GetUnit(), x=float(r.GetValue()).hex()))
        if k == "validUnits":
            return dict(ok=dict(l=list(db.GetValidUnits(q["c"]))))
        if k == "baseUnit":
            return dict(ok=dict(s=db.GetBaseUnit(q["qt"]) or ""))
        if k == "units":
            return dict(ok=dict(l=list(db.GetUnits(q["qt"]))))
        if k == "defaultCategory":
            return dict(ok=dict(s=db.GetDefaultCategory(q["u"]) or ""))
        if k == "quantityType":
            return dict(ok=dict(s=db.GetQuantityType(q["u"]) or ""))
        if k == "catInfo":
            return dict(ok=dict(ci=ci_fields(db.GetCategoryInfo(q["c"]))))
        if k in ("mul", "div"):
            a, b = Scalar(q["x"], q["u1"], q["c1"]), Scalar(q["y"], q["u2"], q["c2"])
            r = a * b if k == "mul" else a / b
            return dict(ok=dict(describe(r.GetQuantity()), x=float(r.GetValue()).hex()))
        if k == "sumd":
            from collections import OrderedDict

            from barril.units import ObtainQuantity

            a = Scalar(ObtainQuantity(OrderedDict((c, [u, e]) for c, u, e in q["ents"])), q["x"])
            b = Scalar(ObtainQuantity(OrderedDict((c, [u, e]) for c, u, e in q["ents2"])), q["y"])
            r = a + b if q["f"] == "add" else a - b
            return dict(ok=dict(describe(r.GetQuantity()), x=float(r.GetValue()).hex()))
        if k in ("derived", "createDerived"):
            from collections import OrderedDict

            from barril.units import ObtainQuantity, Quantity

            m = OrderedDict((c, [u, e]) for c, u, e in q["ents"])
            return dict(ok=describe(ObtainQuantity(m) if k == "derived" else Quantity.CreateDerived(m)))
        if k == "allUnits":
            return dict(ok=dict(l=list(db.GetUnits())))
        if k == "allUnitNames":
            return dict(ok=dict(l=list(db.GetUnitNames(None))))
        if k == "unitNames":
            return dict(ok=dict(l=list(db.GetUnitNames(q["qt"]))))
        if k == "quantityTypes":
            return dict(ok=dict(l=list(db.GetQuantityTypes())))
        if k == "checkQuantityType":
            db.CheckQuantityType(q["qt"])
            return dict(ok=None)
        if k == "categories":
            return dict(ok=dict(l=list(db.IterCategories())))
        if k == "isValidCategory":
            return dict(ok=dict(b=bool(db.IsValidCategory(q["c"]))))
        if k == "unitName":
            return dict(ok=dict(s=db.GetUnitName(q["qt"], q["u"])))
        if k == "checkQtUnit":
            db.CheckQuantityTypeUnit(q["qt"], q["u"])
            return dict(ok=None)
        if k == "info":
            i = db.GetInfo(q["qt"], q["u"], fix_unknown=bool(q["fu"]))
            return dict(ok=dict(cat=i.quantity_type, unit=i.unit))
        if k == "getValue":
            return dict(ok=dict(x=float(Scalar(q["x"], q["u"], q["c"]).GetValue(q["v"])).hex()))
        if k == "defaultValue":
            return dict(ok=dict(x=float(db.GetDefaultValue(q["c"])).hex()))
        if k == "defaultUnit":
            return dict(ok=dict(s=db.GetDefaultUnit(q["c"])))
        if k == "findUnitCase":
            return dict(ok=dict(s=db.FindUnitCase(q["c"], q["u"])))
        if k == "findSimilar":
            return dict(ok=dict(l=list(db.FindSimilarUnitMatches(q["u"]))))
        if k == "checkValueFor":
            db.CheckValueForCategory(q["c"], q["x"], q["u"])
            return dict(ok=None)
        if k == "arith":
            # value-bearing arithmetic on (derived) operands; the model's answer is "what a fresh database answers"
            r = eval_expr(q["e"])
            return dict(ok=dict(describe(r.GetQuantity()), x=float(r.GetValue()).hex()))
        # --- asked on the real code only (oracle / search of C15; the model has no such query kinds)
        if k == "isValidU":
            return dict(ok=dict(b=bool(Scalar(q["x"], q["u"]).IsValid())))
        if k == "infoU":
            from barril.units import ObtainQuantity

            qq = ObtainQuantity(q["u"])
            return dict(ok=dict(cat=qq.GetCategory(), unit=qq.GetUnit(), ci=ci_fields(qq.GetCategoryInfo())))
    except RecursionError:
        return dict(err="runtime", cls="RecursionError") if detail else dict(err="runtime")
    except Exception as e:
        return dict(err=err_kind(e), cls=type(e).__name__) if detail else dict(err=err_kind(e))
    return dict(err="other")


def _ev(f):
    out = []
    for x in POINTS:
        try:
            out.append(float(f(x)).hex())
        except Exception:
            out.append("e")
    return out


def snapshot(db):
    """Everything the registry holds, canonically (JSON-able, comparable with ==)."""
    types = []
    for qt, infos in db.quantity_types.items():
        rows = []
        for i in infos:
            rows.append([i.unit, i.name, i.default_category or "", i.quantity_type,
                         bool(getattr(i.tobase, "__has_conversion__", True)),
                         bool(getattr(i.frombase, "__has_conversion__", True)), _ev(i.tobase), _ev(i.frombase)])
        types.append([qt, rows])
    index = [[k, i.unit, i.quantity_type] for k, i in db.unit_to_unit_info.items()]
    cats = [ci_fields(ci, key) + [sorted(ci.valid_units_set)] for key, ci in db.categories_to_quantity_types.items()]
    return dict(types=types, index=index, cats=cats)


def memo_snapshot(db):
    return (sorted((repr(k), v) for k, v in db._category_unit_valid.items()), sorted(repr(k) for k in db.quantities_cache))


# ------------------------------------------------------------------------------------ comparison
def _num_eq(real_hex, exact_s, m="1/1"):
    if real_hex is None or exact_s is None:
        return real_hex is None and exact_s is None
    return close(float.fromhex(real_hex), qparse(exact_s), max(qparse(m), abs(qparse(exact_s))))


def _num_same(real_hex, exact_s):
    """numbers the code only copies or compares: exact"""
    if real_hex is None or exact_s is None:
        return real_hex is None and exact_s is None
    return exact(float.fromhex(real_hex)) == qparse(exact_s)


def cmp_ci(a, b):
    """real ci_fields vs model catJ"""
    if b is None or len(b) != 10:
        return "shape"
    names = ["category", "quantity_type", "valid_units", "default_unit", "default_value", "min", "max", "min_excl",
             "max_excl", "caption"]
    for i in (0, 1, 3, 9):
        if a[i] != unsym(int(b[i])):
            return "%s: impl=%r model=%r" % (names[i], a[i], unsym(int(b[i])))
    va = a[2]
    vb = None if b[2] is None else [unsym(int(u)) for u in b[2]]
    if va != vb:
        return "valid_units: impl=%r model=%r" % (va, vb)
    for i in (4, 5, 6):
        if not _num_same(a[i], b[i]):
            return "%s: impl=%r model=%r" % (names[i], a[i], b[i])
    for i in (7, 8):
        if a[i] != b[i]:
            return "%s: impl=%r model=%r" % (names[i], a[i], b[i])
    return None


def cmp_reg_out(io, mo):
    if ("err" in io) != ("err" in mo):
        return "one side rejects: impl=%s model=%s" % (io, mo)
    if "err" in io:
        return None if io["err"] == mo["err"] else "error kinds differ: impl=%s model=%s" % (io["err"], mo["err"])
    if io["ok"] is None or mo["ok"] is None:
        return None if io["ok"] is None and mo["ok"] is None else "shape"
    return cmp_ci(io["ok"], mo["ok"])


def cmp_snapshot(snap, mreg):
    ta, tb = snap["types"], mreg["types"]
    if [t[0] for t in ta] != [unsym(int(t[0])) for t in tb]:
        return "quantity types: impl=%r model=%r" % ([t[0] for t in ta], [unsym(int(t[0])) for t in tb])
    for (qt, ra), (_q, rb) in zip(ta, tb):
        if [r[0] for r in ra] != [unsym(int(r[0])) for r in rb]:
            return "units of %r: impl=%r model=%r" % (qt, [r[0] for r in ra], [unsym(int(r[0])) for r in rb])
        for x, y in zip(ra, rb):
            for i, what in ((1, "name"), (2, "default_category"), (3, "quantity_type")):
                if x[i] != unsym(int(y[i])):
                    return "%s of %r: impl=%r model=%r" % (what, x[0], x[i], unsym(int(y[i])))
            if x[4] != y[4] or x[5] != y[5]:
                return "__has_conversion__ of %r: impl=%r model=%r" % (x[0], x[4:6], y[4:6])
            for side, i in (("tobase", 6), ("frombase", 7)):
                for p, rv, mv in zip(POINTS, x[i], y[i]):
                    if (rv == "e") != (mv == "e"):
                        return "%s(%r) of %r: impl=%r model=%r" % (side, p, x[0], rv, mv)
                    if rv != "e" and not _num_eq(rv, mv, qstr(exact(abs(p) + 300))):
                        return "%s(%r) of %r: impl=%r model=%r" % (side, p, x[0], float.fromhex(rv), mv)
    ia = snap["index"]
    ib = [[unsym(int(e[0])), unsym(int(e[1])), unsym(int(e[2]))] for e in mreg["index"]]
    if ia != ib:
        return "symbol index: impl=%r model=%r" % (ia, ib)
    ca, cb = snap["cats"], mreg["cats"]
    if len(ca) != len(cb):
        return "categories: impl=%r model=%r" % ([c[0] for c in ca], [unsym(int(c[0])) for c in cb])
    for a, b in zip(ca, cb):
        why = cmp_ci(a[:10], b)
        if why:
            return "category %r: %s" % (a[0], why)
        if a[10] != sorted(set(a[2] or [])):
            return "category %r: valid_units_set %r is not the set of valid_units %r" % (a[0], a[10], a[2])
    return None


def cmp_answer(q, io, mo, limits=None):
    if ("err" in io) != ("err" in mo):
        return "one side fails: impl=%s model=%s" % (io, mo)
    if "err" in io:
        return None if io["err"] == mo["err"] else "error kinds differ: impl=%s model=%s" % (io["err"], mo["err"])
    a, b = io["ok"], mo["ok"]
    if a is None or b is None:
        return None if a is None and b is None else "shape: impl=%s model=%s" % (a, b)
    if ("ents" in a) != ("ents" in b):
        return "shape: impl=%s model=%s" % (a, b)
    if "ents" in a:
        me = [[unsym(int(c)), unsym(int(u)), int(e)] for c, u, e in b["ents"]]
        if a["ents"] != me:
            return "composing map differs: impl=%r model=%r" % (a["ents"], me)
        if a["cats"] != [e[0] for e in me] or a["units"] != [[e[1], e[2]] for e in me]:
            return "composing categories/units %r %r do not follow the composing map %r" % (a["cats"], a["units"], me)
        for key in ("unit", "category", "qtype"):
            if a[key] != unsym(int(b[key])):
                return "%s string differs: impl=%r model=%r" % (key, a[key], unsym(int(b[key])))
        a = {k: v for k, v in a.items() if k not in ("ents", "cats", "units", "unit", "category", "qtype")}
        b = {k: v for k, v in b.items() if k not in ("ents", "unit", "category", "qtype")}
    for key in ("cat", "unit", "s"):
        if (key in a) != (key in b) or (key in a and a[key] != unsym(int(b[key]))):
            return "%s differs: impl=%r model=%r" % (key, a.get(key), unsym(int(b[key])) if key in b else None)
    if q["q"] in ("quantityTypes", "findSimilar") and "l" in a and "l" in b:
        # GetQuantityTypes() / FindSimilarUnitMatches() sort; the model lists the keys in dictionary order
        if a["l"] != sorted(unsym(int(u)) for u in b["l"]):
            return "list differs: impl=%r model(sorted)=%r" % (a["l"], sorted(unsym(int(u)) for u in b["l"]))
        return None
    if ("l" in a) != ("l" in b) or ("l" in a and a["l"] != [unsym(int(u)) for u in b["l"]]):
        return "list differs: impl=%r model=%r" % (a.get("l"), [unsym(int(u)) for u in b.get("l", [])])
    if ("ci" in a) != ("ci" in b):
        return "shape"
    if "ci" in a:
        why = cmp_ci(a["ci"], b["ci"])
        if why:
            return why
    if ("b" in a) != ("b" in b):
        return "shape"
    if "b" in a and a["b"] != b["b"]:
        # a verdict decided inside float rounding of a limit is a don't-care
        y = b.get("y")
        if y is not None and limits:
            for lim in limits:
                if lim is not None and abs(qparse(y) - exact(lim)) <= 2.0 ** -40 * max(1, abs(exact(lim))):
                    return None
        return "verdict differs: impl=%r model=%r" % (a["b"], b["b"])
    if ("x" in a) != ("x" in b):
        return "shape"
    if "x" in a:
        if q["q"] in ("createC", "defaultValue"):
            if not _num_same(a["x"], b["x"]):
                return "default value differs: impl=%r model=%r" % (float.fromhex(a["x"]), b["x"])
        elif not _num_eq(a["x"], b["x"], b["M"]):
            return "value %r not within K*eps*M of %s" % (float.fromhex(a["x"]), float(qparse(b["x"])))
    return None


# ------------------------------------------------------------------------------------ the registry invariant
def getters_pure(db):
    """The "all of them" getters report exactly what the registry holds and leave it as it was."""
    before = snapshot(db)
    flat = [i.unit for infos in db.quantity_types.values() for i in infos]
    out = []
    try:
        got = [list(db.GetUnits()), list(db.GetUnits()), [i.unit for i in db.GetInfos()], sorted(db.quantity_types),
               list(db.categories_to_quantity_types)]
        want = [flat, flat, flat, list(db.GetQuantityTypes()), list(db.IterCategories())]
        for qt in list(db.quantity_types):
            got.append(list(db.GetUnits(qt)))
            want.append([i.unit for i in db.quantity_types[qt]])
        if got != want:
            out.append(dict(clause="a getter does not report the registered units / quantity types / categories",
                            got=[g for g, w in zip(got, want) if g != w][:1], expected=[w for g, w in zip(got, want) if g != w][:1]))
    except Exception as e:
        out.append(dict(clause="a getter raises on a well-formed registry", error=repr(e)[:120]))
    if snapshot(db) != before:
        out.append(dict(clause="a getter changed the registry (a unit is now listed under a quantity type it does not "
                               "belong to)", getters="GetUnits() / GetInfos() / GetQuantityTypes() / IterCategories()"))
    return out


def default_scalars(db, require_default=False):
    """`Scalar(1.0, unit)` (no category named) for every registered unit: where GetDefaultCategory gives a category
    the Scalar must build with that category and unit (every unit, if `require_default`).  Returns
    (failures, number of units without default category)."""
    from barril.units import Scalar
    from barril.units.unit_database import UnitDatabase

    out, none = [], 0
    UnitDatabase.PushSingleton(db)
    try:
        for qt, infos in db.quantity_types.items():
            for i in infos:
                try:
                    dc = db.GetDefaultCategory(i.unit)
                except Exception as e:
                    out.append(dict(clause="GetDefaultCategory raises for a registered unit", unit=i.unit, qtype=qt,
                                    error=repr(e)[:120]))
                    continue
                if dc is None:
                    none += 1
                    if require_default:
                        out.append(dict(clause="a registered unit has no default category", unit=i.unit, qtype=qt))
                    continue
                try:
                    s = Scalar(1.0, i.unit)
                    if s.GetUnit() != i.unit or s.GetCategory() != dc:
                        out.append(dict(clause="Scalar(value, unit) has another unit or category", unit=i.unit, qtype=qt))
                except Exception as e:
                    ci = db.categories_to_quantity_types.get(dc)
                    out.append(dict(clause="a registered unit cannot be used to build a Scalar (its default category is "
                                           "not a category of its quantity type)", unit=i.unit, qtype=qt,
                                    default_category=dc, category_qtype=ci.quantity_type if ci else None,
                                    error=repr(e)[:120]))
    finally:
        UnitDatabase.PopSingleton()
    return out, none


def registry_invariant(db, based_types=None, scalars=True):
    """The well-formedness clauses of C14 on a real database.  Returns a list of failures (dicts with a
    `clause`); `based_types` = quantity types that received an AddUnitBase (None: every type is
    expected to have one, as in the shipped databases)."""
    from barril.units import Scalar
    from barril.units.unit_database import UnitDatabase

    out = []
    syms = [i.unit for infos in db.quantity_types.values() for i in infos]
    seen = {}
    for qt, infos in db.quantity_types.items():
        for i in infos:
            if i.unit in seen:
                out.append(dict(clause="unit symbol belongs to more than one quantity type (or is listed twice)",
                                unit=i.unit, types=[seen[i.unit], qt]))
            seen[i.unit] = qt
            if i.quantity_type != qt:
                out.append(dict(clause="unit listed under a quantity type other than its own", unit=i.unit,
                                listed=qt, own=i.quantity_type))
            if db.unit_to_unit_info.get(i.unit) is not i:
                out.append(dict(clause="symbol index does not point at the listed unit", unit=i.unit))
    if set(db.unit_to_unit_info) != set(syms):
        out.append(dict(clause="symbol index and quantity type lists hold different symbols",
                        only_index=sorted(set(db.unit_to_unit_info) - set(syms))[:5],
                        only_lists=sorted(set(syms) - set(db.unit_to_unit_info))[:5]))
    for qt, infos in db.quantity_types.items():
        if not infos:
            out.append(dict(clause="quantity type without any unit", qtype=qt))
            continue
        b = infos[0]
        ident = True
        for x in POINTS + [0.0, 1e6]:
            try:
                if b.tobase(x) != x or b.frombase(x) != x:
                    ident = False
            except Exception:
                ident = False
        if not ident:
            out.append(dict(clause="first-listed (base) unit is not an identity", qtype=qt, unit=b.unit,
                            no_base_registered=(based_types is not None and qt not in based_types)))
    UnitDatabase.PushSingleton(db)
    try:
        for c, ci in db.categories_to_quantity_types.items():
            if ci.category != c:
                out.append(dict(clause="category stored under another name", category=c))
            if ci.quantity_type not in db.quantity_types:
                out.append(dict(clause="category refers to a quantity type that does not exist", category=c,
                                qtype=ci.quantity_type))
                continue
            us = [i.unit for i in db.quantity_types[ci.quantity_type]]
            if ci.default_unit not in us:
                out.append(dict(clause="default unit is not a unit of the category's quantity type", category=c,
                                unit=ci.default_unit))
            if ci.valid_units is not None and not set(ci.valid_units) <= set(us):
                out.append(dict(clause="valid units are not all units of the category's quantity type", category=c,
                                units=sorted(set(ci.valid_units) - set(us))))
            dv = ci.default_value
            lo_ok = ci.min_value is None or (dv > ci.min_value if ci.is_min_exclusive else dv >= ci.min_value)
            hi_ok = ci.max_value is None or (dv < ci.max_value if ci.is_max_exclusive else dv <= ci.max_value)
            if not (lo_ok and hi_ok):
                out.append(dict(clause="default value outside the limits", category=c, default=dv,
                                min=ci.min_value, max=ci.max_value))
            if not scalars:
                continue
            try:
                s = Scalar(c)
                if not s.IsValid() or s.GetCategory() != c or s.GetUnit() != ci.default_unit:
                    out.append(dict(clause="Scalar(category) is not a valid Scalar of that category", category=c))
            except Exception as e:
                out.append(dict(clause="Scalar(category) raises", category=c, error=repr(e)[:120]))
            for u in us:
                try:
                    s = Scalar(1.0, u, c)
                    if s.GetUnit() != u or s.GetCategory() != c:
                        out.append(dict(clause="Scalar(value, unit, category) has another unit or category",
                                        category=c, unit=u))
                except Exception as e:
                    out.append(dict(clause="a unit of the category's quantity type cannot be used to build a Scalar",
                                    category=c, unit=u, error=repr(e)[:120]))
    finally:
        UnitDatabase.PopSingleton()
    return out
