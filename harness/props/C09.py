"""C09 - plain numbers act as dimensionless operands and never strip the unit.

Decided by Barril/Props/C09.lean over the model Barril/Model/Ops.lean (`Scalar._DoOperation`,
`Array._DoOperation`, `_ValueGenerator`, `IsNumber`, the database operations through the empty quantity,
Python's operator dispatch with numpy's deferral as a parameter).  Tie: every operator form with a number
or an ndarray on either side of a Scalar / Array, on the real code and on the model (`drv_ops`)."""
import math
from fractions import Fraction

import _ops_common as oc
from _ops_common import model_line  # noqa: F401  (part of the module API)

ID = "C09"
LEAN_MODULES = ["Barril.Props.C09"]
DRIVERS = ["drv_ops"]
DRIVER_EXE = "drv_ops"
RULE = ("x in {Scalar, Array over list / tuple / ndarray, lengths 0..5} with a simple, derived (normal, twin, mixed-unit, offset units, "
        "zero-exponent) or empty quantity of the default POSC database; k in {int, float, bool, numpy.float64/float32/float16/"
        "int64/int32/int16/int8/uint64/uint32/uint16/uint8 (the small kinds meet float values only)} and 1-D ndarrays (float64/float32/int64; plain, numpy.ma masked arrays with nothing / some elements masked, "
        "ndarray subclass views with __array_priority__ 1 / 50; same length, length 1, other length, empty); all ten forms "
        "k*x x*k x/k x//k x+k k+x x-k k-x k/x k//x; zero divisors in float slots; a malformed stream (str, None, list, "
        "Scalar with ndarray, Scalar with Array); SEQUENCES of 2-3 database-computed operations in one process on operands of "
        "one quantity type and unit but different categories, every step compared with its full quantity; decimal-looking pairs (1.0, 0.1) ... for x // k and k // x.  distinct = distinct (form, operands); non-trivial = the real code "
        "returned a barril object")
EXHAUSTIVE = {"quick": False, "thorough": False}
ASSUMPTIONS = [
    "float results stay within 4*K*eps*M (K=64; eps=2^-24 when a float32 takes part) of the exact model: checked, not proved",
    "a non-finite numpy result (division by zero yields inf/nan plus a RuntimeWarning) is canonicalised to the error "
    "class `other`, which is what the model answers for a zero divisor; zero divisors are generated in float slots only "
    "(numpy integer floor division by zero returns 0)",
    "a quotient that is an integer up to float rounding may floor to either neighbour (don't care) ONLY where a rounded "
    "intermediate exists (unit matching, float32/float16); for x // k and k // x with a double or integer number and no "
    "unit matching the value must be the floor of the exact quotient of the two floats (decimal-looking pairs generated)",
    "numpy's typed arithmetic is not modelled: uint/int8/int16 scalars meet float values only (with Python int elements "
    "numpy wraps around in the small type); numpy.bool_ is not a numpy.number (IsNumber is false: AttributeError, as for "
    "str/None); complex numbers are accepted by IsNumber but are outside the Rat model and not generated",
    "numpy hands `numpy_scalar op x` / `ndarray op x` over to the reflected operator of a barril object "
    "(__array_priority__): a parameter of the model (`numpyDefers`), observed by the correspondence only",
    "derived-unit matching with two units of one quantity type is engine Alg's subject (C03/C04); here it is covered by "
    "the correspondence and excluded from the number theorems by the hypothesis `Normal`",
]

FORMS = [("mul", "kx"), ("mul", "xk"), ("div", "xk"), ("floordiv", "xk"), ("sum", "xk"), ("sum", "kx"),
         ("sub", "xk"), ("sub", "kx"), ("div", "kx"), ("floordiv", "kx")]


def setup(ctx):
    oc.setup_pools(ctx)


def _quantities(ctx, rng, n_simple, n_derived):
    qs = []
    for _ in range(n_simple):
        qs.append(oc.simple_q(ctx, rng))
    shapes = ["normal", "affine", "twin", "mixed", "zero", "normal", "affine-mixed"]
    for i in range(n_derived):
        qs.append(oc.derived_q(ctx, rng, shapes[i % len(shapes)]))
    qs.append([])  # the empty quantity (Scalar.CreateEmptyScalar / Array.CreateEmptyArray)
    return [q for q in qs if oc.buildable(oc.scalar_spec(q, 1.0))]


def _x(rng, q, shape, n, ints, nonzero):
    if shape == "scalar":
        return oc.scalar_spec(q, oc.rand_value(rng, nonzero))
    return oc.array_spec(q, shape, oc.rand_values(rng, n, nonzero, ints), ints)


def _k(rng, ty, allow_zero):
    if ty in ("int", "i64", "i32"):
        return oc.num_spec(ty, rng.choice([1, 2, 3, 5, -2, -7, 10, 12]))
    if ty in ("u8", "u16", "u32", "u64"):
        return oc.num_spec(ty, rng.choice([1, 2, 3, 5, 7, 10, 12, 200]))
    if ty in ("i8", "i16"):
        return oc.num_spec(ty, rng.choice([1, 2, 3, 5, -2, -7, 10, 12, 100]))
    if ty == "f16":
        return oc.num_spec(ty, rng.choice([0.5, 2.0, 1.5, 3.0, -0.25, 10.0, -7.0, 0.125]))
    if ty == "bool":
        return oc.num_spec(ty, True)
    v = oc.rand_value(rng, nonzero=not allow_zero)
    if allow_zero and rng.random() < 0.04:
        v = 0.0
    return oc.num_spec(ty, v)


def _case(f, side, x, k):
    return oc.binop_case(f, k, x) if side == "kx" else oc.binop_case(f, x, k)


def _gen(ctx, salt, n_simple, n_derived, n_junk):
    rng = ctx.fresh_rng("C09" + salt)
    for q in _quantities(ctx, rng, n_simple, n_derived):
        for shape in ("scalar", "list", "tuple", "nd"):
            for ty in oc.NUM_TYPES + oc.SMALL_TYPES:
                if ty == "f16" and oc.mixed_units(ctx.db, q):
                    continue  # the matched intermediate may leave the float16 range although operands and result do not
                for f, side in FORMS:
                    n = rng.choice([0, 1, 2, 3, 5])
                    # the small numpy kinds meet float values only: with Python int elements numpy computes in the
                    # small type itself (uint8(3) - 5 wraps around), which is numpy's arithmetic, not barril's
                    ints = shape != "scalar" and rng.random() < 0.25 and ty not in oc.SMALL_TYPES
                    k_divides = side == "kx" and f in ("div", "floordiv")
                    x = _x(rng, q, shape, n, ints, nonzero=ints or (k_divides and rng.random() < 0.95))
                    k = _k(rng, ty, allow_zero=(not ints) and ty in ("float", "f64", "f32"))
                    yield _case(f, side, x, k)
            # an ndarray as the plain operand
            for f, side in FORMS:
                for variant in ("same", rng.choice(["one", "other", "empty", "same"])):
                    n = rng.choice([1, 2, 3, 4])
                    if shape == "scalar":
                        n = 1
                    m = {"same": n, "one": 1, "other": n + 2, "empty": 0}[variant]
                    dt = rng.choice(["f64", "f64", "f64", "f32", "i64"])
                    # a plain ndarray, a numpy.ma masked array (nothing / some elements masked) or a trivial
                    # ndarray subclass view with __array_priority__ 1.0 / 50.0
                    sub = rng.choice([None, None] + list(oc.ND_SUBS))
                    k = oc.nd_spec(dt, oc.rand_values(rng, m, nonzero=True, ints=(dt == "i64")), sub=sub)
                    x = _x(rng, q, shape, n, False, nonzero=True)
                    yield _case(f, side, x, k)
    # malformed stream
    for _ in range(n_junk):
        q = oc.simple_q(ctx, rng)
        shape = rng.choice(["scalar", "list", "tuple", "nd"])
        x = _x(rng, q, shape, 2, False, True)
        other = rng.choice([dict(t="junk", w="str"), dict(t="junk", w="none"), dict(t="junk", w="list"), dict(t="junk", w="npbool"),
                            _x(rng, oc.simple_q(ctx, rng), "scalar" if shape != "scalar" else "list", 2, False, True)])
        f, side = rng.choice(FORMS)
        if other.get("w") == "str" and f == "mul" and shape != "scalar" and side == "kx":
            continue  # 'x' * Array asks for __index__ first: Python's sequence repetition, not modelled
        yield _case(f, side, x, other)


# decimal-looking pairs whose float quotient rounds up to an integer while the exact quotient of the two floats is
# just below it (1.0 / 0.1 == 10.0, but 1.0 // 0.1 == 9.0): `//` must be the floor of the exact quotient
_DECIMAL_PAIRS = [(1.0, 0.1), (6.0, 0.1), (0.3, 0.1), (4.35, 0.01), (0.7, 0.1), (2.4, 0.2), (1.2, 0.4), (3.0, 0.3),
                  (0.9, 0.3), (7.0, 0.7), (100.0, 0.1), (0.06, 0.01), (-1.0, 0.1), (1.0, -0.1), (5.5, 0.5), (8.0, 2.0)]


def _gen_floor(ctx, salt, n):
    rng = ctx.fresh_rng("C09floor" + salt)
    for i in range(n):
        if i < 4 * len(_DECIMAL_PAIRS):
            a, b = _DECIMAL_PAIRS[i % len(_DECIMAL_PAIRS)]
        else:
            b = rng.choice([0.1, 0.01, 0.2, 0.3, 0.7, 0.05, 0.6, 1.1])
            a = round(rng.randint(1, 120) * b, 2) * rng.choice([1, 1, 1, -1])
        q = oc.simple_q(ctx, rng)
        shape = rng.choice(["scalar", "scalar", "list", "tuple", "nd"])
        ty = rng.choice(["float", "float", "f64"])
        side = "xk" if i % 2 == 0 else "kx"
        xv, kv = (a, b) if side == "xk" else (b, a)
        if shape == "scalar":
            x = oc.scalar_spec(q, xv)
        else:
            x = oc.array_spec(q, shape, [xv] + [rng.choice(_DECIMAL_PAIRS)[0 if side == "xk" else 1] for _ in range(rng.choice([0, 1, 2]))])
        yield _case("floordiv", side, x, oc.num_spec(ty, kv))


# operator forms whose result quantity is computed by the database (Multiply / Divide / FloorDivide with the
# empty quantity): for Arrays; for Scalars only k/x and k//x get there
_DB_FORMS_ARRAY = [("mul", "kx"), ("mul", "xk"), ("div", "xk"), ("floordiv", "xk"), ("div", "kx"), ("floordiv", "kx")]
_DB_FORMS_SCALAR = [("div", "kx"), ("floordiv", "kx")]


def _gen_seq(ctx, salt, n):
    """SEQUENCES of two or three operations of one process on operands that share quantity type and unit but
    differ in category (length / depth / diameter ... in m): every step must keep ITS operand's quantity,
    whatever was computed before (nothing about a result may be remembered across categories)"""
    rng = ctx.fresh_rng("C09seq" + salt)
    multi = sorted(qt for qt in ctx.qtypes if len(ctx.cats[qt]) > 1)
    for i in range(n):
        qt = rng.choice(multi) if (i % 3 or "length" not in multi) else "length"
        u = rng.choice(ctx.units[qt])
        cats = rng.sample(ctx.cats[qt], min(len(ctx.cats[qt]), rng.choice([2, 2, 3])))
        extra = oc.simple_q(ctx, rng)[0] if rng.random() < 0.25 else None
        if extra is not None and ctx.db.GetCategoryQuantityType(extra[0]) == qt:
            extra = None
        e = rng.choice([1, 1, 1, 2, -1])
        shape = rng.choice(["list", "tuple", "nd", "list", "scalar"])
        forms = _DB_FORMS_SCALAR if shape == "scalar" else _DB_FORMS_ARRAY
        form = rng.choice(forms)
        ty = rng.choice(["int", "float", "f64", "i64"])
        steps = []
        for c_ in cats:
            q = [[c_, u, e]] + ([[extra[0], extra[1], -1]] if extra is not None else [])
            if extra is None and e != 1 and rng.random() < 0.5:
                q = [[c_, u, 1]]
            if not oc.buildable(oc.scalar_spec(q, 1.0)):
                break
            f, side = form if rng.random() < 0.8 else rng.choice(forms)
            x = _x(rng, q, shape, rng.choice([1, 2, 3]), False, nonzero=True)
            k = _k(rng, ty, allow_zero=False)
            steps.append(_case(f, side, x, k))
        if len(steps) >= 2:
            yield dict(op="seq", steps=[model_line(st) for st in steps], _t=dict(steps=[st["_t"] for st in steps]))


def _steps(c):
    return [dict(op="binop", _t=t) for t in c["_t"]["steps"]]


def cases(ctx):
    if ctx.tier == "quick":
        yield from _gen(ctx, "q", 30, 25, 600)
        yield from _gen_seq(ctx, "q", 600)
        yield from _gen_floor(ctx, "q", 600)
    else:
        yield from _gen(ctx, "t", 200, 120, 5000)
        yield from _gen_seq(ctx, "t", 6000)
        yield from _gen_floor(ctx, "t", 6000)


def show(c):
    if c.get("op") == "seq":
        return "; then ".join(oc.show(st) for st in _steps(c))
    return oc.show(c)


def case_key(c):
    return model_line(c)


def impl(c, ctx):
    if c["op"] == "seq":
        outs = [oc.run_binop(t["f"], t["a"], t["b"]) for t in c["_t"]["steps"]]
        oc.count(ctx, "seq/%d steps" % len(outs))
        return dict(outs=outs)
    t = c["_t"]
    io = oc.run_binop(t["f"], t["a"], t["b"])
    oc.count(ctx, oc.branch_key(c, io))
    return io


def agree(c, io, mo, ctx):
    if c["op"] == "seq":
        if len(io["outs"]) != len(mo.get("outs", [])):
            return "the model answered %d steps for %d" % (len(mo.get("outs", [])), len(io["outs"]))
        for i, (st, a, b) in enumerate(zip(_steps(c), io["outs"], mo["outs"])):
            why = oc.agree_binop(st, a, b)   # compares the whole quantity: category, unit, exponent of every item
            if why:
                return "step %d (%s): %s" % (i + 1, oc.show(st), why)
        return None
    why = oc.agree_binop(c, io, mo)
    return why


def nontrivial(c, io):
    if c["op"] == "seq":
        return all("ok" in o and o["ok"]["t"] in ("scalar", "array") for o in io["outs"])
    return "ok" in io and io["ok"]["t"] in ("scalar", "array")


# ------------------------------------------------------------- the property itself, on the real code only
def _plain(spec):
    return spec["t"] in ("num", "nd")


def oracle(c, ctx):
    """C09 on the real code: `k op x` / `x op k` is a barril object of x's class; for the eight forms it has
    x's quantity and the values `op` applied elementwise; `k / x`, `k // x` have the reciprocal quantity and
    the reciprocal dimension and the value k / v.  ALL quantities are judged, hand-built dicts included (known
    finding CLASS_MIXED).  Demands nothing where the text gives no answer: malformed operands, zero divisors,
    Scalar with an ndarray (no Scalar can hold the elementwise result; the code raises), an ndarray of another
    length (numpy broadcasting), and the representation of 1/x when x has null factors or two units of one type."""
    import warnings

    import numpy as np
    from barril.units import Array, Scalar

    if c.get("op") == "seq":
        # the steps are executed in order in this process; each one is judged on its own operands
        for i, st in enumerate(_steps(c)):
            f_ = oracle(st, ctx)
            if f_:
                f_ = dict(f_)
                f_["step"] = i + 1
                f_["sequence"] = show(c)
                return f_
        return None
    if c.get("op") != "binop":
        return None
    t = c["_t"]
    f, a, b = t["f"], t["a"], t["b"]
    if _plain(a) == _plain(b):
        return None
    kspec, xspec, k_left = (a, b, True) if _plain(a) else (b, a, False)
    if xspec["t"] not in ("scalar", "array"):
        return None
    if xspec["t"] == "scalar" and kspec["t"] == "nd":
        return None
    try:
        x, k = oc.build(xspec), oc.build(kspec)
    except Exception:
        return None
    xs = [x.value] if xspec["t"] == "scalar" else list(x.values)
    ks = [oc.val(v) for v in kspec["xs"]] if kspec["t"] == "nd" else None
    kmask = list(kspec.get("mask") or []) if kspec["t"] == "nd" else []   # masked positions carry no value
    if ks is not None and len(ks) != len(xs):
        return None  # numpy's broadcasting rules decide; not part of the property
    form = "%s %s %s" % (oc.render(a), oc.OPSIGN[f], oc.render(b))
    pairs = [((kk if k_left else v), (v if k_left else kk)) for v, kk in zip(xs, ks if ks is not None else [k] * len(xs))]
    if f in ("div", "floordiv") and any(float(d) == 0.0 for _n, d in pairs):
        return None
    try:
        with warnings.catch_warnings():
            warnings.simplefilter("ignore")
            with np.errstate(all="ignore"):
                r = oc.PYOP[f](k, x) if k_left else oc.PYOP[f](x, k)
    except Exception as e:
        return dict(clause="a plain number operand must give a barril object", form=form, raised=repr(e))
    if not isinstance(r, (Scalar, Array)) or not hasattr(r, "GetQuantity"):
        return dict(clause="the result is a barril object carrying a unit", form=form, got=type(r).__name__,
                    value=repr(r)[:200])
    if type(r) is not type(x):
        return dict(clause="the result has the class of x", form=form, got=type(r).__name__)
    q = xspec["q"]
    normal = oc.is_normal(ctx, q) or not q
    rq = oc.entries(r.GetQuantity())
    recip = k_left and f in ("div", "floordiv")
    cls = CLASS_MIXED if (xspec["t"] == "array" and not recip and oc.mixed_units(ctx.db, q)) else None

    def fail(**kw):
        if cls:
            kw["class"] = cls
        return kw

    dim_x, dim_r = oc.dimension(ctx.db, q), oc.dimension(ctx.db, rq)
    if recip:
        # "k/x and k//x have the reciprocal dimension and the value k divided by x's value"
        if dim_r != {qt: -e for qt, e in dim_x.items()}:
            return fail(clause="k/x has the reciprocal dimension", form=form, got=rq, x=q)
        if not normal:
            return None  # null factors / two units of one type: the text fixes no representation of 1/x
        want = [[cc, u, -int(e)] for cc, u, e in q]
        if rq != want:
            return fail(clause="k/x has the reciprocal quantity", form=form, got=rq, want=want)
    else:
        # the eight forms keep x's quantity: for every quantity, simple or derived
        want = [[cc, u, int(e)] for cc, u, e in q]
        if normal and (rq != want or r.GetQuantity() != x.GetQuantity()):
            return fail(clause="the result keeps x's quantity", form=form, got=rq, want=want)
        if r.GetUnit() != x.GetUnit() or dim_r != dim_x:
            # (items with exponent 0 and cancelling items are null factors: unit and dimension decide)
            return fail(clause="the result keeps x's quantity", form=form, got=rq, want=want,
                        got_unit=r.GetUnit(), want_unit=x.GetUnit())
    rvals = r.value if isinstance(r, Scalar) else r.values
    rmask = [bool(m) for m in np.ma.getmaskarray(rvals)] if isinstance(rvals, np.ma.MaskedArray) else []
    got = [rvals] if isinstance(r, Scalar) else list(np.ma.getdata(rvals) if rmask else rvals)
    if len(got) != len(xs):
        return fail(clause="one result value per value of x", form=form, got=len(got), want=len(xs))
    for i, (n_, d_) in enumerate(pairs):
        if (i < len(kmask) and kmask[i]) or (i < len(rmask) and rmask[i]):
            continue
        with warnings.catch_warnings():
            warnings.simplefilter("ignore")
            with np.errstate(all="ignore"):
                want_v = oc.PYOP[f](float(n_), float(d_))
        g = float(got[i])
        if not math.isfinite(want_v):
            continue
        if not math.isfinite(g):
            # a silently infinite / nan value is legitimate only when the magnitude leaves the float range
            lim = {"f16": 1e3, True: 1e30, False: 1e250}[_prec(kspec, got[i], np)]
            if abs(want_v) < lim and not cls:
                return fail(clause="the operation is applied to the value(s)", form=form, index=i, got=g, want=want_v)
            continue
        f32 = _prec(kspec, got[i], np)
        if f == "floordiv" and not f32 and not cls and oc.exact_floor_case(t):
            # no rounded intermediate: Python's (and numpy's) float `//` is the floor of the EXACT quotient of the
            # two numbers as given
            qx = Fraction(float(n_)) / Fraction(float(d_))
            if abs(qx) < 2 ** 52:
                if g != float(math.floor(qx)):
                    return fail(clause="x // k is the floor of the exact quotient", form=form, index=i, got=g,
                                want=float(math.floor(qx)), exact_quotient=float(qx))
                continue
        tol = {"f16": 5e-3, True: 1e-5, False: 1e-9}[f32] * max(abs(want_v), abs(float(n_)), abs(float(d_)), 1e-300)
        if f32 == "f16":
            tol += 1e-4
        if abs(g - want_v) > tol and not (f == "floordiv" and abs(g - want_v) <= 1.0 + tol and _near_int(float(n_) / float(d_), f32)):
            return fail(clause="the operation is applied to the value(s)", form=form, index=i, got=g, want=want_v)
    return None


CLASS_MIXED = "array-with-number: quantity holds two different units of one quantity type"
_EIGHT = {("mul", "kx"), ("mul", "xk"), ("div", "xk"), ("floordiv", "xk"), ("sum", "xk"), ("sum", "kx"),
          ("sub", "xk"), ("sub", "kx")}


def matches_known(entry, case, failure):
    """Only the recorded input class is excused: an ARRAY (never a Scalar) whose quantity holds two different
    units of one quantity type, a plain number / ndarray on the other side, one of the eight quantity-keeping
    forms, failing 'keeps x's quantity' or 'applied to the value(s)'.  Everything else stays a violation."""
    from barril.units.unit_database import UnitDatabase

    if (entry.get("matcher") or {}).get("class") != CLASS_MIXED or not failure or failure.get("class") != CLASS_MIXED:
        return False
    if case.get("op") != "binop":
        return False
    t = case["_t"]
    a, b = t["a"], t["b"]
    if _plain(a) == _plain(b):
        return False
    x, side = (b, "kx") if _plain(a) else (a, "xk")
    if x["t"] != "array" or (t["f"], side) not in _EIGHT:
        return False
    if failure.get("clause") not in ("the result keeps x's quantity", "the operation is applied to the value(s)"):
        return False
    return oc.mixed_units(UnitDatabase.GetSingleton(), x["q"])


def replay_finding(entry, ctx):
    if (entry.get("matcher") or {}).get("class") != CLASS_MIXED:
        return None
    rc = entry.get("replay_case") or {}
    q = [[c, u, int(e)] for c, u, e in rc.get("composing", [["length", "m", 1], ["depth", "cm", 1]])]
    f = {"+": "sum", "-": "sub", "*": "mul", "/": "div", "//": "floordiv"}[rc.get("op", "+")]
    k = rc.get("k", 1)
    x = oc.array_spec(q, rc.get("kind", "list"), rc.get("values", [1.0, 2.0]))
    c = oc.binop_case(f, x, oc.num_spec("int" if isinstance(k, int) else "float", k))
    fl = oracle(c, ctx)
    return fl if (fl and matches_known(entry, c, fl)) else None


def _near_int(p, f32):
    return abs(p - round(p)) <= {"f16": 5e-3, True: 1e-5, False: 1e-9}[f32] * max(abs(p), 1.0)


def _prec(kspec, v, np):
    if oc.uses_f32(kspec) == "f16" or isinstance(v, np.float16):
        return "f16"
    return bool(oc.uses_f32(kspec)) or isinstance(v, np.float32)


def search(ctx):
    yield from _gen_floor(ctx, "search", 300)
    yield from _gen_seq(ctx, "search", 400)
    yield from _gen(ctx, "search", 12, 8, 0)
