"""C09 - plain numbers act as dimensionless operands and never strip the unit.

Decided by Barril/Props/C09.lean over the model Barril/Model/Ops.lean (`Scalar._DoOperation`,
`Array._DoOperation`, `_ValueGenerator`, `IsNumber`, the database operations through the empty quantity,
Python's operator dispatch with numpy's deferral as a parameter).  Tie: every operator form with a number
or an ndarray on either side of a Scalar / Array, on the real code and on the model (`drv_ops`)."""
import math
from fractions import Fraction

import _ops_common as oc
from _ops_common import model_line  # noqa: F401  (part of the module API)

ID = "C09"
LEAN_MODULES = ["Barril.Props.C09"]
DRIVERS = ["drv_ops"]
DRIVER_EXE = "drv_ops"
RULE = ("x in {Scalar, Array over list / tuple / ndarray, lengths 0..5} with a simple, derived (normal, twin, mixed-unit, offset units, "
        "zero-exponent) or empty quantity of the default POSC database; k in {int, float, bool, numpy.float64/float32/float16/"
        "int64/int32/int16/int8/uint64/uint32/uint16/uint8 (the small kinds meet float values only)} and 1-D ndarrays (float64/float32/int64; plain, numpy.ma masked arrays with nothing / some elements masked, "
        "ndarray subclass views with __array_priority__ 1 / 50; same length, length 1, other length, empty); all ten forms "
        "k*x x*k x/k x//k x+k k+x x-k k-x k/x k//x; zero divisors in float slots; a malformed stream (str, None, list, "
        "Scalar with ndarray, Scalar with Array); SEQUENCES of 2-3 database-computed operations in one process on operands of "
        "one quantity type and unit but different categories, every step compared with its full quantity; HISTORIES: 1-2 earlier "
        "operations on objects of a quantity q (any number form, x op y with another barril object, a malformed operand; known-finding "
        "results and errors included) followed by 2-4 later number operations on q, on the SAME objects and on new ones, Scalars "
        "and Arrays of every container kind, each step predicted by the (stateless) model on its own; Arrays whose `values` is a "
        "bare number; the legacy `x.__rdiv__(k)` called directly; decimal-looking pairs (1.0, 0.1) ... for x // k and k // x.  "
        "distinct = distinct (form, operands); non-trivial = the real code returned a barril object")
EXHAUSTIVE = {"quick": False, "thorough": False}
ASSUMPTIONS = [
    "a ZERO-dimensional ndarray operand is given to the model as the one-element 1-D ndarray (against the 1-D values of an "
    "Array numpy broadcasts both in the same way); generated against Arrays only (a Scalar with an ndarray raises)",
    "the caption of an unknown unit is not part of the model's ordered dict: `scalarNumCaption` (same branches as "
    "`scalarDoOp`) predicts it for Scalar-with-number operations; ARRAYS of a captioned unknown unit are kept out of the "
    "generators (x*k, k*x, x/k, x//k drop the caption on the unchanged tree: reported)",
    "float results stay within 4*K*eps*M (K=64; eps=2^-24 when a float32 takes part) of the exact model: checked, not proved",
    "a non-finite numpy result (division by zero yields inf/nan plus a RuntimeWarning) is canonicalised to the error "
    "class `other`, which is what the model answers for a zero divisor; zero divisors are generated in float slots only "
    "(numpy integer floor division by zero returns 0)",
    "a quotient that is an integer up to float rounding may floor to either neighbour (don't care) ONLY where a rounded "
    "intermediate exists (unit matching, float32/float16); for x // k and k // x with a double or integer number and no "
    "unit matching the value must be the floor of the exact quotient of the two floats (decimal-looking pairs generated)",
    "numpy's typed arithmetic is not modelled: uint/int8/int16 scalars meet float values only (with Python int elements "
    "numpy wraps around in the small type); numpy.bool_ is not a numpy.number (IsNumber is false: AttributeError, as for "
    "str/None); complex numbers are accepted by IsNumber but are outside the Rat model and not generated",
    "numpy hands `numpy_scalar op x` / `ndarray op x` over to the reflected operator of a barril object "
    "(__array_priority__): a parameter of the model (`numpyDefers`), observed by the correspondence only",
    "derived-unit matching with two units of one quantity type is engine Alg's subject (C03/C04); here it is covered by "
    "the correspondence and excluded from the number theorems by the hypothesis `Normal`",
    "the model has no shared mutable state: that an operation leaves nothing behind (interned quantities, caches) is what the "
    "history cases observe - one or two earlier operations, then later ones on old and new objects, all in one process",
    "the oracle's verdict on a failing case is taken in a fresh Python interpreter (subprocess), so that a replay names a "
    "complete input; failures of the known-finding class are not re-evaluated",
    "history steps `x / y`, `x // y` between two barril objects avoid quantities with offset units (a divisor matched through "
    "an offset can cancel to exactly 0.0 in floats for tiny gauge amounts: numerical noise, engine Alg's subject)",
]

FORMS = [("mul", "kx"), ("mul", "xk"), ("div", "xk"), ("floordiv", "xk"), ("sum", "xk"), ("sum", "kx"),
         ("sub", "xk"), ("sub", "kx"), ("div", "kx"), ("floordiv", "kx")]


def setup(ctx):
    oc.setup_pools(ctx)


def _quantities(ctx, rng, n_simple, n_derived):
    qs = []
    for _ in range(n_simple):
        qs.append(oc.simple_q(ctx, rng))
    shapes = ["normal", "affine", "twin", "mixed", "zero", "normal", "affine-mixed"]
    for i in range(n_derived):
        qs.append(oc.derived_q(ctx, rng, shapes[i % len(shapes)]))
    qs.append([])  # the empty quantity (Scalar.CreateEmptyScalar / Array.CreateEmptyArray)
    return [q for q in qs if oc.buildable(oc.scalar_spec(q, 1.0))]


def _x(rng, q, shape, n, ints, nonzero):
    if shape == "scalar":
        return oc.scalar_spec(q, oc.rand_value(rng, nonzero))
    return oc.array_spec(q, shape, oc.rand_values(rng, n, nonzero, ints), ints)


def _k(rng, ty, allow_zero):
    if ty in ("int", "i64", "i32"):
        return oc.num_spec(ty, rng.choice([1, 2, 3, 5, -2, -7, 10, 12]))
    if ty in ("u8", "u16", "u32", "u64"):
        return oc.num_spec(ty, rng.choice([1, 2, 3, 5, 7, 10, 12, 200]))
    if ty in ("i8", "i16"):
        return oc.num_spec(ty, rng.choice([1, 2, 3, 5, -2, -7, 10, 12, 100]))
    if ty == "f16":
        return oc.num_spec(ty, rng.choice([0.5, 2.0, 1.5, 3.0, -0.25, 10.0, -7.0, 0.125]))
    if ty == "bool":
        return oc.num_spec(ty, True)
    v = oc.rand_value(rng, nonzero=not allow_zero)
    if allow_zero and rng.random() < 0.04:
        v = 0.0
    return oc.num_spec(ty, v)


def _case(f, side, x, k):
    return oc.binop_case(f, k, x) if side == "kx" else oc.binop_case(f, x, k)


def _gen(ctx, salt, n_simple, n_derived, n_junk):
    rng = ctx.fresh_rng("C09" + salt)
    for q in _quantities(ctx, rng, n_simple, n_derived):
        for shape in ("scalar", "list", "tuple", "nd"):
            for ty in oc.NUM_TYPES + oc.SMALL_TYPES:
                if ty == "f16" and oc.mixed_units(ctx.db, q):
                    continue  # the matched intermediate may leave the float16 range although operands and result do not
                for f, side in FORMS:
                    n = rng.choice([0, 1, 2, 3, 5])
                    # the small numpy kinds meet float values only: with Python int elements numpy computes in the
                    # small type itself (uint8(3) - 5 wraps around), which is numpy's arithmetic, not barril's
                    ints = shape != "scalar" and rng.random() < 0.25 and ty not in oc.SMALL_TYPES
                    k_divides = side == "kx" and f in ("div", "floordiv")
                    x = _x(rng, q, shape, n, ints, nonzero=ints or (k_divides and rng.random() < 0.95))
                    k = _k(rng, ty, allow_zero=(not ints) and ty in ("float", "f64", "f32"))
                    yield _case(f, side, x, k)
            # an ndarray as the plain operand
            for f, side in FORMS:
                for variant in ("same", rng.choice(["one", "other", "empty", "same"])):
                    n = rng.choice([1, 2, 3, 4])
                    if shape == "scalar":
                        n = 1
                    m = {"same": n, "one": 1, "other": n + 2, "empty": 0}[variant]
                    dt = rng.choice(["f64", "f64", "f64", "f32", "i64"])
                    # a plain ndarray, a numpy.ma masked array (nothing / some elements masked) or a trivial
                    # ndarray subclass view with __array_priority__ 1.0 / 50.0
                    sub = rng.choice([None, None] + list(oc.ND_SUBS))
                    k = oc.nd_spec(dt, oc.rand_values(rng, m, nonzero=True, ints=(dt == "i64")), sub=sub)
                    x = _x(rng, q, shape, n, False, nonzero=True)
                    yield _case(f, side, x, k)
            # an ndarray that numpy treats as ONE number: zero-dimensional (numpy.array(2.0)) or one element, against
            # every length of x (broadcast over the values)
            if shape != "scalar":
                for f, side in FORMS:
                    n = rng.choice([0, 1, 2, 3, 5])
                    dt = rng.choice(["f64", "f64", "f32", "i64"])
                    d0 = rng.random() < 0.6
                    kv = oc.rand_values(rng, 1, nonzero=True, ints=(dt == "i64"))
                    k = oc.nd_spec(dt, kv, d0=True) if d0 else oc.nd_spec(dt, kv, sub=rng.choice([None, None, None] + list(oc.ND_SUBS)))
                    k_divides = side == "kx" and f in ("div", "floordiv")
                    yield _case(f, side, _x(rng, q, shape, n, False, nonzero=k_divides or rng.random() < 0.5), k)
    # Scalars whose unit is an UNKNOWN unit with a caption (the only name the unit has) and every kind of number
    for caption in ("furlongs", "my unit", "bbl/d per psi"):
        for ty in oc.NUM_TYPES + oc.SMALL_TYPES:
            for f, side in FORMS:
                k_divides = side == "kx" and f in ("div", "floordiv")
                x = oc.captioned_scalar_spec(caption, oc.rand_value(rng, nonzero=k_divides or rng.random() < 0.9))
                yield _case(f, side, x, _k(rng, ty, allow_zero=ty in ("float", "f64")))
    # malformed stream
    for _ in range(n_junk):
        q = oc.simple_q(ctx, rng)
        shape = rng.choice(["scalar", "list", "tuple", "nd"])
        x = _x(rng, q, shape, 2, False, True)
        other = rng.choice([dict(t="junk", w="str"), dict(t="junk", w="none"), dict(t="junk", w="list"), dict(t="junk", w="npbool"),
                            _x(rng, oc.simple_q(ctx, rng), "scalar" if shape != "scalar" else "list", 2, False, True)])
        f, side = rng.choice(FORMS)
        if other.get("w") == "str" and f == "mul" and shape != "scalar" and side == "kx":
            continue  # 'x' * Array asks for __index__ first: Python's sequence repetition, not modelled
        yield _case(f, side, x, other)


# decimal-looking pairs whose float quotient rounds up to an integer while the exact quotient of the two floats is
# just below it (1.0 / 0.1 == 10.0, but 1.0 // 0.1 == 9.0): `//` must be the floor of the exact quotient
_DECIMAL_PAIRS = [(1.0, 0.1), (6.0, 0.1), (0.3, 0.1), (4.35, 0.01), (0.7, 0.1), (2.4, 0.2), (1.2, 0.4), (3.0, 0.3),
                  (0.9, 0.3), (7.0, 0.7), (100.0, 0.1), (0.06, 0.01), (-1.0, 0.1), (1.0, -0.1), (5.5, 0.5), (8.0, 2.0)]


def _gen_floor(ctx, salt, n):
    rng = ctx.fresh_rng("C09floor" + salt)
    for i in range(n):
        if i < 4 * len(_DECIMAL_PAIRS):
            a, b = _DECIMAL_PAIRS[i % len(_DECIMAL_PAIRS)]
        else:
            b = rng.choice([0.1, 0.01, 0.2, 0.3, 0.7, 0.05, 0.6, 1.1])
            a = round(rng.randint(1, 120) * b, 2) * rng.choice([1, 1, 1, -1])
        q = oc.simple_q(ctx, rng)
        shape = rng.choice(["scalar", "scalar", "list", "tuple", "nd"])
        ty = rng.choice(["float", "float", "f64"])
        side = "xk" if i % 2 == 0 else "kx"
        xv, kv = (a, b) if side == "xk" else (b, a)
        if shape == "scalar":
            x = oc.scalar_spec(q, xv)
        else:
            x = oc.array_spec(q, shape, [xv] + [rng.choice(_DECIMAL_PAIRS)[0 if side == "xk" else 1] for _ in range(rng.choice([0, 1, 2]))])
        yield _case("floordiv", side, x, oc.num_spec(ty, kv))


# operator forms whose result quantity is computed by the database (Multiply / Divide / FloorDivide with the
# empty quantity): for Arrays; for Scalars only k/x and k//x get there
_DB_FORMS_ARRAY = [("mul", "kx"), ("mul", "xk"), ("div", "xk"), ("floordiv", "xk"), ("div", "kx"), ("floordiv", "kx")]
_DB_FORMS_SCALAR = [("div", "kx"), ("floordiv", "kx")]


def _gen_seq(ctx, salt, n):
    """SEQUENCES of two or three operations of one process on operands that share quantity type and unit but
    differ in category (length / depth / diameter ... in m): every step must keep ITS operand's quantity,
    whatever was computed before (nothing about a result may be remembered across categories)"""
    rng = ctx.fresh_rng("C09seq" + salt)
    multi = sorted(qt for qt in ctx.qtypes if len(ctx.cats[qt]) > 1)
    for i in range(n):
        qt = rng.choice(multi) if (i % 3 or "length" not in multi) else "length"
        u = rng.choice(ctx.units[qt])
        cats = rng.sample(ctx.cats[qt], min(len(ctx.cats[qt]), rng.choice([2, 2, 3])))
        extra = oc.simple_q(ctx, rng)[0] if rng.random() < 0.25 else None
        if extra is not None and ctx.db.GetCategoryQuantityType(extra[0]) == qt:
            extra = None
        e = rng.choice([1, 1, 1, 2, -1])
        shape = rng.choice(["list", "tuple", "nd", "list", "scalar"])
        forms = _DB_FORMS_SCALAR if shape == "scalar" else _DB_FORMS_ARRAY
        form = rng.choice(forms)
        ty = rng.choice(["int", "float", "f64", "i64"])
        steps = []
        for c_ in cats:
            q = [[c_, u, e]] + ([[extra[0], extra[1], -1]] if extra is not None else [])
            if extra is None and e != 1 and rng.random() < 0.5:
                q = [[c_, u, 1]]
            if not oc.buildable(oc.scalar_spec(q, 1.0)):
                break
            f, side = form if rng.random() < 0.8 else rng.choice(forms)
            x = _x(rng, q, shape, rng.choice([1, 2, 3]), False, nonzero=True)
            k = _k(rng, ty, allow_zero=False)
            steps.append(_case(f, side, x, k))
        if len(steps) >= 2:
            yield dict(op="seq", steps=[model_line(st) for st in steps], _t=dict(steps=[st["_t"] for st in steps]))


def _gen_odd(ctx, salt, n):
    """(1) Arrays whose `values` is a bare number (`Array.CreateWithQuantity(q, values=3.0)`; nothing checks the
    container): `_ValueGenerator` iterates neither side, the result is a list Array of one value; with an ndarray
    the vectorised branch; with a second Array `len()` of the number is a TypeError.  Quantities: simple, normal
    derived, empty (the hand-built two-unit form belongs to the known finding and is kept for real containers).
    (2) the legacy reflected operator called directly, `x.__rdiv__(k)`: k a number, an ndarray, malformed, a
    Scalar, an Array; x over every container kind."""
    rng = ctx.fresh_rng("C09odd" + salt)
    for i in range(n):
        q = rng.choice([oc.simple_q(ctx, rng), oc.simple_q(ctx, rng), oc.derived_q(ctx, rng, "normal"), []])
        if not oc.buildable(oc.scalar_spec(q, 1.0)):
            continue
        v = oc.rand_value(rng, nonzero=rng.random() < 0.95)
        x0 = dict(t="array0", q=q, x=(int(v) or 3) if (i % 7 == 0) else float(v).hex())
        r = i % 10
        if r < 6:
            f, side = FORMS[i % len(FORMS)] if r < 4 else rng.choice(FORMS)
            ty = rng.choice(oc.NUM_TYPES)
            yield _case(f, side, x0, _k(rng, ty, allow_zero=ty in ("float", "f64")))
        elif r == 6:
            f, side = rng.choice(FORMS)
            dt = rng.choice(["f64", "f64", "i64"])
            yield _case(f, side, x0, oc.nd_spec(dt, oc.rand_values(rng, rng.choice([0, 1, 2, 3]), nonzero=True, ints=(dt == "i64"))))
        elif r == 7:
            other = rng.choice([_x(rng, oc.simple_q(ctx, rng), rng.choice(["list", "tuple", "nd", "scalar"]), rng.choice([0, 1, 2]), False, True),
                                dict(t="array0", q=oc.simple_q(ctx, rng), x=float(oc.rand_value(rng, nonzero=True)).hex()),
                                dict(t="junk", w=rng.choice(["none", "list", "npbool"]))])
            f = rng.choice(oc.OPS)
            yield oc.binop_case(f, x0, other) if rng.random() < 0.5 else oc.binop_case(f, other, x0)
        else:
            shape = rng.choice(["list", "tuple", "nd", "list"])
            x = x0 if rng.random() < 0.15 else _x(rng, q, shape, rng.choice([0, 1, 2, 3]), False, nonzero=rng.random() < 0.95)
            w = rng.random()
            if w < 0.55:
                k = _k(rng, rng.choice(oc.NUM_TYPES), allow_zero=False)
            elif w < 0.75:
                n_ = len(x.get("xs", [0]))
                k = oc.nd_spec("f64", oc.rand_values(rng, rng.choice([n_, n_, 1, n_ + 1]), nonzero=True))
            elif w < 0.85:
                k = dict(t="junk", w=rng.choice(["none", "str", "list", "npbool"]))
            else:
                k = _x(rng, oc.simple_q(ctx, rng), rng.choice(["scalar", shape]), len(x.get("xs", [0])), False, True)
            yield oc.rdiv_case(x, k)


_HIST_SHAPES = ["mixed", "mixed", "affine-mixed", "twin", "normal", "mixed", "zero", "simple", "affine", "mixed"]
_HIST_TYPES = ["int", "float", "f64", "i64"]


def _gen_hist(ctx, salt, n):
    """HISTORIES: one or two EARLIER operations on objects of a quantity q (any of the ten number forms, x op y
    with a second barril object of the same dimension in other units or of another quantity, a malformed operand;
    their own result may be a known finding or an error), then two to four LATER number operations on q - on the
    very objects used before (`old`) and on freshly created ones, Scalars and Arrays of every container kind.
    Nothing an earlier operation did may change what a later one returns: the model has no shared state, every step
    is predicted on its own."""
    rng = ctx.fresh_rng("C09hist" + salt)
    for i in range(n):
        shape_q = _HIST_SHAPES[i % len(_HIST_SHAPES)]
        q = oc.simple_q(ctx, rng) if shape_q == "simple" else oc.derived_q(ctx, rng, shape_q)
        if not oc.buildable(oc.scalar_spec(q, 1.0)):
            continue
        pool = []

        def x_operand(reuse, shapes=("scalar", "list", "tuple", "nd", "list")):
            if reuse and pool and rng.random() < 0.4:
                return dict(rng.choice(pool), old=True)
            x_ = _x(rng, q, rng.choice(shapes), rng.choice([1, 2, 3]), False, nonzero=True)
            pool.append(x_)
            return x_

        def number_step(x_, form=None):
            f, side = form or rng.choice(FORMS)
            if x_["t"] == "array" and rng.random() < 0.15:
                dt = rng.choice(["f64", "f64", "i64"])
                k_ = oc.nd_spec(dt, oc.rand_values(rng, len(x_["xs"]), nonzero=True, ints=(dt == "i64")))
            else:
                k_ = _k(rng, rng.choice(_HIST_TYPES), allow_zero=False)
            return _case(f, side, x_, k_)

        steps = []
        for _ in range(rng.choice([1, 1, 2])):
            kind = rng.choice(["number"] * 3 + ["addsub"] * 3 + ["pair", "pair", "other", "junk"])
            if kind == "number":
                steps.append(number_step(x_operand(False)))
            elif kind == "addsub":
                # x + k / x - k / k + x / k - x: the database's Sum / Subtract with the empty quantity
                steps.append(number_step(x_operand(False, ("list", "tuple", "nd", "scalar", "list")),
                                         rng.choice([("sum", "xk"), ("sub", "xk"), ("sum", "kx"), ("sub", "kx")])))
            elif kind in ("pair", "other"):
                x_ = x_operand(False)
                q2 = oc.other_units(ctx, rng, q) if kind == "pair" else oc.simple_q(ctx, rng)
                if not oc.buildable(oc.scalar_spec(q2, 1.0)):
                    q2 = q
                if x_["t"] == "scalar":
                    y_ = oc.scalar_spec(q2, oc.rand_value(rng, nonzero=True))
                else:
                    y_ = oc.array_spec(q2, rng.choice(oc.KINDS), oc.rand_values(rng, len(x_["xs"]), nonzero=True))
                f = rng.choice(oc.OPS)
                if f in ("div", "floordiv") and any(u in ctx.affine for c_, u, e_ in list(q) + list(q2)):
                    # a divisor matched through a unit with an offset can cancel to exactly 0.0 in floats (tiny gauge
                    # amounts): numerical noise of engine Alg's subject, not a history effect
                    f = rng.choice(["sum", "sub", "mul"])
                steps.append(oc.binop_case(f, x_, y_) if rng.random() < 0.7 else oc.binop_case(f, y_, x_))
            else:
                x_ = x_operand(False)
                w = rng.choice(["none", "list", "npbool"])
                steps.append(_case(rng.choice(["sum", "sub", "div"]), "xk", x_, dict(t="junk", w=w)))
        for _ in range(rng.choice([2, 3, 3, 4])):
            steps.append(number_step(x_operand(True)))
        yield dict(op="seq", hist=True, steps=[model_line(st) for st in steps], _t=dict(steps=[st["_t"] for st in steps]))


def _steps(c):
    return [dict(op="binop", _t=t) for t in c["_t"]["steps"]]


def cases(ctx):
    # the sequences come first: they are the cases in which the order of execution in this process matters least
    # (every sequence brings its own history)
    if ctx.tier == "quick":
        yield from _gen_hist(ctx, "q", 900)
        yield from _gen_seq(ctx, "q", 600)
        yield from _gen(ctx, "q", 30, 25, 600)
        yield from _gen_odd(ctx, "q", 1500)
        yield from _gen_floor(ctx, "q", 600)
    else:
        yield from _gen_hist(ctx, "t", 9000)
        yield from _gen_seq(ctx, "t", 6000)
        yield from _gen(ctx, "t", 200, 120, 5000)
        yield from _gen_odd(ctx, "t", 15000)
        yield from _gen_floor(ctx, "t", 6000)


def show(c):
    if c.get("op") == "seq":
        return "; then ".join(oc.show(st) for st in _steps(c))
    return oc.show(c)


def case_key(c):
    return model_line(c)


def impl(c, ctx):
    if c["op"] == "seq":
        objs = {}   # the objects of this sequence: an operand marked `old` is the one built by an earlier step
        outs = [oc.run_binop(t["f"], t["a"], t["b"], objs) for t in c["_t"]["steps"]]
        oc.count(ctx, "%s/%d steps" % ("history" if c.get("hist") else "seq", len(outs)))
        if c.get("hist"):
            for st, o in zip(_steps(c), outs):
                oc.count(ctx, "history step: " + oc.branch_key(st, o))
        return dict(outs=outs)
    t = c["_t"]
    io = oc.run_rdiv(t["x"], t["k"]) if c["op"] == "rdiv" else oc.run_binop(t["f"], t["a"], t["b"])
    oc.count(ctx, oc.branch_key(c, io))
    return io


def agree(c, io, mo, ctx):
    if c["op"] == "seq":
        if len(io["outs"]) != len(mo.get("outs", [])):
            return "the model answered %d steps for %d" % (len(mo.get("outs", [])), len(io["outs"]))
        for i, (st, a, b) in enumerate(zip(_steps(c), io["outs"], mo["outs"])):
            why = oc.agree_binop(st, a, b)   # compares the whole quantity: category, unit, exponent of every item
            if why:
                return "step %d (%s): %s" % (i + 1, oc.show(st), why)
        return None
    why = oc.agree_binop(c, io, mo)
    return why


def nontrivial(c, io):
    if c["op"] == "seq":
        good = ["ok" in o and o["ok"]["t"] in ("scalar", "array") for o in io["outs"]]
        return (sum(good) >= 2 and good[-1]) if c.get("hist") else all(good)
    return "ok" in io and io["ok"]["t"] in ("scalar", "array")


# ------------------------------------------------------------- the property itself, on the real code only
def _plain(spec):
    return spec["t"] in ("num", "nd")


def oracle(c, ctx):
    """C09 on the real code: `k op x` / `x op k` is a barril object of x's class; for the eight forms it has
    x's quantity and the values `op` applied elementwise; `k / x`, `k // x` have the reciprocal quantity and
    the reciprocal dimension and the value k / v.  ALL quantities are judged, hand-built dicts included (known
    finding CLASS_MIXED).  Demands nothing where the text gives no answer: malformed operands, zero divisors,
    Scalar with an ndarray (no Scalar can hold the elementwise result; the code raises), an ndarray of another
    length (numpy broadcasting), and the representation of 1/x when x has null factors or two units of one type
    (there the magnitude is judged: the value times what the result's unit is worth must be k / (x's value times
    what x's unit is worth)).

    A SEQUENCE is executed step by step in this process and every step is judged on its own operands, whatever
    the earlier steps returned (a step whose own failure belongs to the known-finding class, or which raises, is
    still part of the history of the later ones).

    The verdict is the one of a FRESH interpreter: a failure found here (other than one of the known-finding
    class) is evaluated again in a new Python process, where nothing ran before the case, so that the input named
    in the replay is complete - a single operation that only fails because of what this process executed earlier
    is not a failing input, the sequence that contains the earlier operation is."""
    f_ = _oracle_here(c, ctx)
    if not f_ or oc.in_child() or _in_known_class(c, f_):
        return f_
    status, g_ = oc.fresh_oracle(ID, c)
    if status == "ok":
        if g_ is None:
            ctx.notes["oracle_failures_only_with_this_process_history"] = ctx.notes.get(
                "oracle_failures_only_with_this_process_history", 0) + 1
        return g_
    return dict(f_, fresh_interpreter_unavailable=str(g_)[:200])


def _oracle_here(c, ctx):
    if c.get("op") == "seq":
        objs, first_known = {}, None
        for i, st in enumerate(_steps(c)):
            f_ = _oracle_binop(st, ctx, objs)
            if not f_:
                continue
            f_ = dict(f_, step=i + 1, sequence=show(c))
            if _in_known_class(st, f_):
                first_known = first_known or f_
                continue
            return f_
        # only steps of the known-finding class fail: reported as such (the matcher looks at that step)
        return dict(first_known, no_other_step_fails=True) if first_known else None
    if c.get("op") not in ("binop", "rdiv"):
        return None
    return _oracle_binop(c, ctx, None)


def _oracle_binop(c, ctx, objs):
    import warnings

    import numpy as np
    from barril.units import Array, Scalar

    t = c["_t"]
    f, a, b = t["f"], t["a"], t["b"]
    try:
        A, B = oc.build(a, objs), oc.build(b, objs)
    except Exception:
        return None
    xspec = b if _plain(a) else a
    xs = None
    if _plain(a) != _plain(b) and xspec["t"] in _BARRIL:
        x0 = B if _plain(a) else A
        # (an Array may hold a bare number as its `values`: one value)
        xs = [x0.value] if xspec["t"] == "scalar" else [x0.values] if xspec["t"] == "array0" else list(x0.values)
    # the operation is executed in every case: inside a sequence it is part of the history of the later steps
    r, raised = None, None
    try:
        with warnings.catch_warnings():
            warnings.simplefilter("ignore")
            with np.errstate(all="ignore"):
                # (`x.__rdiv__(k)` called directly is judged as k / x)
                r = B.__rdiv__(A) if c.get("op") == "rdiv" else oc.PYOP[f](A, B)
    except Exception as e:
        raised = e
    if _plain(a) == _plain(b):
        return None
    kspec, xspec, k_left = (a, b, True) if _plain(a) else (b, a, False)
    if xspec["t"] not in _BARRIL:
        return None
    if xspec["t"] == "scalar" and kspec["t"] == "nd":
        return None
    x, k = (B, A) if k_left else (A, B)
    ks = [oc.val(v) for v in kspec["xs"]] if kspec["t"] == "nd" else None
    kmask = list(kspec.get("mask") or []) if kspec["t"] == "nd" else []   # masked positions carry no value
    if ks is not None and len(ks) == 1 and len(xs) != 1:
        # a zero-dimensional or one-element ndarray is ONE number for numpy: it meets every value of x
        ks, kmask = ks * len(xs), kmask * len(xs)
    if ks is not None and len(ks) != len(xs):
        return None  # numpy's broadcasting rules decide; not part of the property
    form = "%s %s %s" % (oc.render(a), oc.OPSIGN[f], oc.render(b))
    if c.get("op") == "rdiv":
        form = "(%s).__rdiv__(%s)" % (oc.render(b), oc.render(a))
    pairs = [((kk if k_left else v), (v if k_left else kk)) for v, kk in zip(xs, ks if ks is not None else [k] * len(xs))]
    if f in ("div", "floordiv") and any(float(d) == 0.0 for _n, d in pairs):
        return None
    if raised is not None:
        return dict(clause="a plain number operand must give a barril object", form=form, raised=repr(raised))
    if not isinstance(r, (Scalar, Array)) or not hasattr(r, "GetQuantity"):
        return dict(clause="the result is a barril object carrying a unit", form=form, got=type(r).__name__,
                    value=repr(r)[:200])
    if type(r) is not type(x):
        return dict(clause="the result has the class of x", form=form, got=type(r).__name__)
    q = xspec["q"]
    normal = oc.is_normal(ctx, q) or not q
    rq = oc.entries(r.GetQuantity())
    recip = k_left and f in ("div", "floordiv")
    cls = CLASS_MIXED if (xspec["t"] == "array" and not recip and oc.mixed_units(ctx.db, q)) else None

    def fail(**kw):
        if cls:
            kw["class"] = cls
        return kw

    rvals = r.value if isinstance(r, Scalar) else r.values
    rmask = [bool(m) for m in np.ma.getmaskarray(rvals)] if isinstance(rvals, np.ma.MaskedArray) else []
    got = [rvals] if isinstance(r, Scalar) else list(np.ma.getdata(rvals) if rmask else rvals)

    def magnitude(clause):
        """where the text fixes no representation (1/x of a quantity with null factors or two units of one type;
        x*k, x/k of an Array of the known-finding class, whose result is written in matched units): the value
        times what ONE unit of the result is worth must be the operation on x's value times what one unit of x is
        worth (slopes from the unit table, not from the library's arithmetic)"""
        fx, fr = oc.unit_factor(ctx.db, q), oc.unit_factor(ctx.db, rq)
        if fx is None or fr is None or len(got) != len(xs):
            return None
        for i, (n_, d_) in enumerate(pairs):
            if (i < len(kmask) and kmask[i]) or (i < len(rmask) and rmask[i]):
                continue
            g = float(got[i])
            n_x, d_x = Fraction(float(n_)), Fraction(float(d_))
            # x's value in base units, the result converted back into the unit the result carries
            if recip:
                w = n_x / (d_x * fx) / fr
            elif f == "mul":
                w = n_x * d_x * fx / fr
            else:
                w = n_x / d_x * fx / fr
            if not oc.in_range(w) or w == 0:
                continue
            f32 = _prec(kspec, got[i], np)
            if f32 == "f16":
                continue
            if not math.isfinite(g):
                if abs(w) < (Fraction(10) ** 30 if f32 else Fraction(10) ** 250):
                    return dict(clause=clause, form=form, index=i, got=g, want=float(w), result_quantity=rq, x=q)
                continue
            rel = 1e-5 if f32 else 1e-9
            if f == "floordiv":
                wf = Fraction(math.floor(w))
                if abs(Fraction(g) - wf) <= Fraction(rel) * max(abs(wf), 1):
                    continue
                if abs(Fraction(g) - wf) <= 1 + Fraction(rel) * max(abs(wf), 1) and _near_int(float(w), f32):
                    continue
                return dict(clause=clause, form=form, index=i, got=g, want=float(wf), result_quantity=rq, x=q)
            if abs(Fraction(g) - w) > Fraction(rel) * abs(w):
                return dict(clause=clause, form=form, index=i, got=g, want=float(w), result_quantity=rq, x=q)
        return None

    dim_x, dim_r = oc.dimension(ctx.db, q), oc.dimension(ctx.db, rq)
    if recip:
        # "k/x and k//x have the reciprocal dimension and the value k divided by x's value"
        if dim_r != {qt: -e for qt, e in dim_x.items()}:
            return fail(clause="k/x has the reciprocal dimension", form=form, got=rq, x=q)
        if not normal:
            # null factors / two units of one type: the text fixes no representation of 1/x, the magnitude it does
            return magnitude("k/x has the value k divided by x's value (in the unit the result carries)")
        want = [[cc, u, -int(e)] for cc, u, e in q]
        if rq != want:
            return fail(clause="k/x has the reciprocal quantity", form=form, got=rq, want=want)
    else:
        if cls and f in ("mul", "div") and dim_r == dim_x:
            # the known finding is about the REPRESENTATION (the result is written in matched units); a result
            # whose magnitude is not the one of x*k / x/k is something else
            m_ = magnitude("the result has the magnitude of the operation on x (in the unit the result carries)")
            if m_:
                return m_
        # the eight forms keep x's quantity: for every quantity, simple or derived
        want = [[cc, u, int(e)] for cc, u, e in q]
        if xspec.get("cap") and (r.GetQuantity() != x.GetQuantity() or r.GetQuantity().GetUnknownCaption() != xspec["cap"]):
            # the caption of an unknown unit is part of x's quantity (it is the name of the unit)
            return fail(clause="the result keeps x's quantity", form=form, got=rq, want=want,
                        got_caption=r.GetQuantity().GetUnknownCaption(), want_caption=xspec["cap"])
        if normal and (rq != want or r.GetQuantity() != x.GetQuantity()):
            return fail(clause="the result keeps x's quantity", form=form, got=rq, want=want)
        if r.GetUnit() != x.GetUnit() or dim_r != dim_x:
            # (items with exponent 0 and cancelling items are null factors: unit and dimension decide)
            return fail(clause="the result keeps x's quantity", form=form, got=rq, want=want,
                        got_unit=r.GetUnit(), want_unit=x.GetUnit())
    if len(got) != len(xs):
        return fail(clause="one result value per value of x", form=form, got=len(got), want=len(xs))
    for i, (n_, d_) in enumerate(pairs):
        if (i < len(kmask) and kmask[i]) or (i < len(rmask) and rmask[i]):
            continue
        with warnings.catch_warnings():
            warnings.simplefilter("ignore")
            with np.errstate(all="ignore"):
                want_v = oc.PYOP[f](float(n_), float(d_))
        g = float(got[i])
        if not math.isfinite(want_v):
            continue
        if not math.isfinite(g):
            # a silently infinite / nan value is legitimate only when the magnitude leaves the float range
            lim = {"f16": 1e3, True: 1e30, False: 1e250}[_prec(kspec, got[i], np)]
            if abs(want_v) < lim and not cls:
                return fail(clause="the operation is applied to the value(s)", form=form, index=i, got=g, want=want_v)
            continue
        f32 = _prec(kspec, got[i], np)
        if f32 == "f16" and 0 < min(abs(float(n_)), abs(float(d_))) < 1e-4:
            continue  # below float16's normal range (a weak Python float operand is first cast to float16)
        if f == "floordiv" and not f32 and not cls and oc.exact_floor_case(t):
            # no rounded intermediate: Python's (and numpy's) float `//` is the floor of the EXACT quotient of the
            # two numbers as given
            qx = Fraction(float(n_)) / Fraction(float(d_))
            if abs(qx) < 2 ** 52:
                if g != float(math.floor(qx)):
                    return fail(clause="x // k is the floor of the exact quotient", form=form, index=i, got=g,
                                want=float(math.floor(qx)), exact_quotient=float(qx))
                continue
        tol = {"f16": 5e-3, True: 1e-5, False: 1e-9}[f32] * max(abs(want_v), abs(float(n_)), abs(float(d_)), 1e-300)
        if f32 == "f16":
            tol += 1e-4
        if abs(g - want_v) > tol and not (f == "floordiv" and abs(g - want_v) <= 1.0 + tol and _near_int(float(n_) / float(d_), f32)):
            return fail(clause="the operation is applied to the value(s)", form=form, index=i, got=g, want=want_v)
    return None


_BARRIL = ("scalar", "array", "array0")
CLASS_MIXED = "array-with-number: quantity holds two different units of one quantity type"
_EIGHT = {("mul", "kx"), ("mul", "xk"), ("div", "xk"), ("floordiv", "xk"), ("sum", "xk"), ("sum", "kx"),
          ("sub", "xk"), ("sub", "kx")}


def _in_known_class(case, failure):
    """the input class of the known finding, and nothing else: an ARRAY (never a Scalar) whose quantity holds two
    different units of one quantity type, a plain number / ndarray on the other side, one of the eight
    quantity-keeping forms, failing 'keeps x's quantity' or 'applied to the value(s)'.  For a sequence: the
    failing step is such an operation AND no other step of the sequence fails."""
    from barril.units.unit_database import UnitDatabase

    if not failure or failure.get("class") != CLASS_MIXED:
        return False
    if case.get("op") == "seq":
        steps, i = _steps(case), failure.get("step")
        if not failure.get("no_other_step_fails") or not isinstance(i, int) or not 1 <= i <= len(steps):
            return False
        case = steps[i - 1]
    if case.get("op") != "binop":
        return False
    t = case["_t"]
    a, b = t["a"], t["b"]
    if _plain(a) == _plain(b):
        return False
    x, side = (b, "kx") if _plain(a) else (a, "xk")
    if x["t"] != "array" or (t["f"], side) not in _EIGHT:
        return False
    if failure.get("clause") not in ("the result keeps x's quantity", "the operation is applied to the value(s)"):
        return False
    return oc.mixed_units(UnitDatabase.GetSingleton(), x["q"])


def matches_known(entry, case, failure):
    """Only the recorded input class is excused (see `_in_known_class`).  Everything else stays a violation."""
    if (entry.get("matcher") or {}).get("class") != CLASS_MIXED:
        return False
    return _in_known_class(case, failure)


CLASS_CAPTION = "array-with-number: the quantity carries an unknown-unit caption"


def _replay_caption(entry):
    """the recorded input of C09-array-number-unknown-caption on the real code (these operands are kept out of the
    generators: the model follows the Scalar behaviour, which keeps the caption)"""
    from barril.units import Array, ObtainQuantity

    rc = entry.get("replay_case") or {}
    q = ObtainQuantity("<unknown>", None, rc.get("caption", "furlongs"))
    a = Array(q, list(rc.get("values", [1.0, 2.0])))
    k = rc.get("k", 2)
    lost = [name for name, r in (("x*k", a * k), ("k*x", k * a), ("x/k", a / k), ("x//k", a // k))
            if r.GetQuantity() != q]
    return dict(clause="keeps x's quantity", forms=lost, **{"class": CLASS_CAPTION}) if lost else None


def replay_finding(entry, ctx):
    if (entry.get("matcher") or {}).get("class") == CLASS_CAPTION:
        return _replay_caption(entry)
    if (entry.get("matcher") or {}).get("class") != CLASS_MIXED:
        return None
    rc = entry.get("replay_case") or {}
    q = [[c, u, int(e)] for c, u, e in rc.get("composing", [["length", "m", 1], ["depth", "cm", 1]])]
    f = {"+": "sum", "-": "sub", "*": "mul", "/": "div", "//": "floordiv"}[rc.get("op", "+")]
    k = rc.get("k", 1)
    x = oc.array_spec(q, rc.get("kind", "list"), rc.get("values", [1.0, 2.0]))
    c = oc.binop_case(f, x, oc.num_spec("int" if isinstance(k, int) else "float", k))
    fl = oracle(c, ctx)
    return fl if (fl and matches_known(entry, c, fl)) else None


def _near_int(p, f32):
    return abs(p - round(p)) <= {"f16": 5e-3, True: 1e-5, False: 1e-9}[f32] * max(abs(p), 1.0)


def _prec(kspec, v, np):
    if oc.uses_f32(kspec) == "f16" or isinstance(v, np.float16):
        return "f16"
    return bool(oc.uses_f32(kspec)) or isinstance(v, np.float32)


def _subseq(c, idx):
    return dict(op="seq", hist=True, steps=[c["steps"][i] for i in idx], _t=dict(steps=[c["_t"]["steps"][i] for i in idx]))


def shrink(case, failure, ctx):
    """a failing sequence is cut down to the failing step plus the one earlier step it needs (each candidate is
    judged by the oracle, i.e. in a fresh interpreter)"""
    if case.get("op") != "seq" or not isinstance(failure.get("step"), int) or _in_known_class(case, failure):
        return case, failure
    i = failure["step"] - 1
    if i < 1 or i >= len(case["steps"]):
        return case, failure
    for idx in [[i]] + [[j, i] for j in range(i)] + ([list(range(i + 1))] if i + 1 < len(case["steps"]) else []):
        if len(idx) >= len(case["steps"]):
            continue
        c2 = _subseq(case, idx)
        f2 = oracle(c2, ctx)
        if f2 and not _in_known_class(c2, f2) and f2.get("step") == len(idx):
            return c2, f2
    return case, failure


def search(ctx):
    yield from _gen_hist(ctx, "search", 600)
    yield from _gen_floor(ctx, "search", 300)
    yield from _gen_seq(ctx, "search", 400)
    yield from _gen_odd(ctx, "search", 400)
    yield from _gen(ctx, "search", 12, 8, 0)
