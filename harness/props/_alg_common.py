"""Shared by C03 and C04: seeded expression trees over the default (POSC) database, the correspondence of
the `Alg` engine (drv_alg) with the real `Scalar` operators, and an independent dimensional analysis of
trees (used by the oracles only; it never calls the model).

A tree is a JSON-able nested list:
  ["L", value_hex, unit, category]              Scalar(value, unit, category)
  ["C", value_hex, unit, category, caption]     Scalar(ObtainQuantity(unit, category, caption), value)
  ["E", value_hex]                              Scalar.CreateEmptyScalar(value)
  ["R", value_hex, [[cat, unit, exp], ...]]     a quantity given directly as an ordered dict (may hold two
                                                units of one quantity type, zero exponents, ...)
  [op, t1, t2]  op in * / // + -                the real operator applied to the two sub-results
  ["^", t, n]                                   t ** n

Array leg (both properties say "Scalars or Arrays"): a share of the operand pairs is ALSO evaluated with Arrays
(float64 ndarray, list or tuple container, 2-3 elements; element i of every leaf = leaf value * mult[i]) and the
operand OBJECTS are reused for the follow-up expressions the properties name (a+b, b+a, (a+b)-b; a*b, b*a, a*b
again, (a*b)/b).  Every element of every step is one correspondence case: the model (scalar level) gets the
operands' quantities and the element's value as it was when the operand was built (results: right after they
were computed), so an operation that edits an operand's container in place shows up in the next step.
The two operands may hold DIFFERENT container kinds (`kind` = "ndarray|list": left operand's leaves are ndarrays,
right operand's leaves are lists; 1-4 elements): `Array._DoOperation` then hands whole containers to the unit
database (its numpy shortcut), which the model - applied per element - does not distinguish.

Reported quantity type: every successful result also carries the dimension vector it REPORTS through
`GetQuantityType()` (parsed: '(length) ** 2 * time / mass'; for a simple result the type itself), compared with the
model's `reportedTypes` ("T" of the driver).
"""
import math
import re
from collections import OrderedDict
from fractions import Fraction

from common import close, err_kind, exact, qparse, qstr, sym, unsym

DRIVER = "drv_alg"
OPNAME = {"+": "add", "-": "sub", "*": "mul", "/": "div", "//": "floordiv", "^": "pow"}
FIXED_TYPES = ["length", "time", "mass", "volume", "pressure", "dimensionless"]


# ------------------------------------------------------------------------------------------ the real side
def _api():
    from barril.units import ObtainQuantity, Scalar
    from barril.units.unit_database import UnitDatabase

    return Scalar, ObtainQuantity, UnitDatabase.GetSingleton()


def fval(h):
    return h if isinstance(h, int) else float.fromhex(h)


def build(t):
    """Evaluate a tree with the real code (raises whatever the real code raises)."""
    Scalar, ObtainQuantity, _db = _api()
    k = t[0]
    if k == "L":
        return Scalar(fval(t[1]), t[2], t[3])
    if k == "C":
        return Scalar(ObtainQuantity(t[2], t[3], t[4]), fval(t[1]))
    if k == "E":
        return Scalar.CreateEmptyScalar(fval(t[1]))
    if k == "R":
        q = ObtainQuantity(OrderedDict((c, [u, e]) for c, u, e in t[2]))
        return Scalar.CreateWithQuantity(q, fval(t[1]))
    if k == "^":
        return build(t[1]) ** t[2]
    a, b = build(t[1]), build(t[2])
    return apply_op(k, a, b)


def apply_op(k, a, b):
    if k == "*":
        return a * b
    if k == "/":
        return a / b
    if k == "//":
        return a // b
    if k == "+":
        return a + b
    if k == "-":
        return a - b
    raise ValueError(k)


def entries_of(s):
    q = s.GetQuantity()
    return [[c, ue[0], ue[1]] for c, ue in q.GetCategoryToUnitAndExps().items()]


def canon_quantity(q):
    es = [[str(sym(c)), str(sym(ue[0])), str(int(ue[1]))] for c, ue in q.GetCategoryToUnitAndExps().items()]
    return dict(e=es, cap=str(sym(q.GetUnknownCaption() or "")), derived=bool(q.IsDerived()))


_TOKEN = re.compile(r"^\((.*)\) \*\* (\d+)$")


def parse_qtype(text, derived=True):
    """[[quantity type, exponent], ..] as written in a `GetQuantityType()` string, in the order written
    ('(length) ** 2 * time / mass' -> [['length', 2], ['time', 1], ['mass', -1]]); a simple quantity's type is
    the text itself.  None when the text does not have the layout of `_MakeStr`."""
    if not derived:
        return [[text, 1]]
    if text == "":
        return []
    parts = text.split(" / ")
    if len(parts) > 2 or "" in parts:
        return None
    out = []
    for sign, part in zip((1, -1), parts):
        if sign == 1 and part == "1" and len(parts) == 2:
            continue
        for tok in part.split(" * "):
            m = _TOKEN.match(tok)
            name, e = (m.group(1), int(m.group(2))) if m else (tok, 1)
            if not name or e == 0:
                return None
            out.append([name, sign * e])
    return out


def reported_types(q):
    """canonical form of what a real quantity reports as its quantity type: sorted [sym(type), exp] pairs
    (a type written twice stays twice), or the raw text when it cannot be parsed"""
    text = q.GetQuantityType()
    ps = parse_qtype(text, bool(q.IsDerived()))
    if ps is None:
        return dict(unparsed=text)
    return sorted([str(sym(n)), str(int(e))] for n, e in ps)


def reported_dims(s):
    """dimension vector a real result REPORTS through GetQuantityType() (None: the text has no such layout)"""
    q = s.GetQuantity()
    ps = parse_qtype(q.GetQuantityType(), bool(q.IsDerived()))
    if ps is None:
        return None
    d = {}
    for n, e in ps:
        d[n] = d.get(n, 0) + e
    return {k: e for k, e in d.items() if e != 0}


def operand_fields(s, i):
    q = canon_quantity(s.GetQuantity())
    return {"e%d" % i: q["e"], "c%d" % i: q["cap"], "v%d" % i: qstr(exact(s.value))}


def make_case(op, ta, tb=None, n=None):
    """A correspondence case: the operands are evaluated with the real code, their quantities and exact
    values go to the model.  Returns None when an operand cannot even be built."""
    try:
        a = build(ta)
        b = build(tb) if tb is not None else None
    except Exception:
        return None
    if not _finite(a) or (b is not None and not _finite(b)):
        return None
    c = dict(op=OPNAME[op], _t=dict(k=op, a=ta, b=tb, n=n))
    c.update(operand_fields(a, 1))
    if op == "^":
        c["n"] = int(n)
    else:
        c.update(operand_fields(b, 2))
    return c


def _finite(s):
    v = s.value
    return isinstance(v, float) and math.isfinite(v)


def model_line(c):
    return {k: v for k, v in c.items() if k != "_t"}


def show(c):
    t = c["_t"]
    d = dict(op=t["k"], a=render(t["a"]), b=render(t["b"]) if t["b"] is not None else None, n=t["n"])
    if t.get("arr"):
        ar = t["arr"]
        d["array"] = dict(container=ar["kind"], element_multipliers=ar["mult"], step=ar["name"], element=ar["i"],
                          element_types=dict(zip(("a", "b"), arr_dts(ar))),
                          note="every leaf Scalar(v, ..) stands for Array(container(leaf_elem(v, m, element type) for m in multipliers), ..); "
                               "steps run in order on the same operand objects")
    return d


def render(t):
    k = t[0]
    if k == "L":
        return "Scalar(%r, %r, %r)" % (fval(t[1]), t[2], t[3])
    if k == "C":
        return "Scalar(ObtainQuantity(%r, %r, %r), %r)" % (t[2], t[3], t[4], fval(t[1]))
    if k == "E":
        return "Scalar.CreateEmptyScalar(%r)" % fval(t[1])
    if k == "R":
        return "Scalar.CreateWithQuantity(ObtainQuantity(OrderedDict(%r)), %r)" % (
            [(c, [u, e]) for c, u, e in t[2]], fval(t[1]))
    if k == "^":
        return "(%s) ** %d" % (render(t[1]), t[2])
    return "(%s %s %s)" % (render(t[1]), k, render(t[2]))


def impl(c, ctx):
    t = c["_t"]
    if t.get("arr"):
        return impl_array(c, ctx)
    try:
        a = build(t["a"])
        b = build(t["b"]) if t["b"] is not None else None
    except Exception as e:  # the operands were buildable when the case was made
        return dict(err="other", detail="operand no longer builds: %r" % (e,))
    try:
        r = a ** t["n"] if t["k"] == "^" else apply_op(t["k"], a, b)
    except OverflowError:
        return dict(overflow=True)  # float range exceeded inside the operation (ratio ** exp, value * factor)
    except Exception as e:
        return dict(err=err_kind(e))
    try:
        v = r.value
        if not isinstance(v, float):
            return dict(err="other", detail="non-float value %r" % (v,))
        if not math.isfinite(v):
            return dict(nonfinite=True)
        return dict(ok=canon_quantity(r.GetQuantity()), v=float(v).hex(), T=reported_types(r.GetQuantity()))
    except Exception as e:
        return dict(err="other", detail="result unreadable: %r" % (e,))


def agree(c, io, mo, ctx):
    tally = ctx.notes.setdefault("branches", {})  # branches of the modelled functions, as reported by the driver
    for b in mo.get("br", []):
        tally[b] = tally.get(b, 0) + 1
    return _agree(c, io, mo, ctx)


def _agree(c, io, mo, ctx):
    if "nonfinite" in io:
        return None  # float overflow: outside the exact model (never generated on purpose)
    if "overflow" in io:
        # OverflowError: in the modelled code only `ratio ** exp` of the unit matching can raise it (float products
        # overflow to inf silently).  Legitimate only when an exact magnitude really leaves the float range: the
        # largest |ratio ** exp| of the matching ("F", reported also when the model stops at a later error such as
        # a zero divisor) or the error-propagation magnitude M
        big = max(qparse(mo.get("F", "0/1")), qparse(mo["M"]) if "M" in mo else 0)
        if "R" in mo:
            # the largest exact magnitude of the whole evaluation, conversion factors included (a factor such as
            # (H -> fH) ** 21 = 1e315 overflows in floats whatever value it is multiplied with, a zero value too)
            big = max(big, qparse(mo["R"][1]))
        return None if big >= 10 ** 250 else \
            "impl raised OverflowError although every exact magnitude stays below 1e250 (F, M <= %.3g): model=%s" % (
                float(big), {k: v for k, v in mo.items() if k in ("err", "v")})
    if io.get("err") == "other" and "err" not in mo and "D" in mo and 0 < qparse(mo["D"]) <= Fraction(1, 10 ** 250):
        return None  # ZeroDivisionError: the exact matched divisor is not 0 but underflows to 0.0 in floats
    if "err" in io or "err" in mo:
        if ("err" in io) != ("err" in mo):
            return "one side fails: impl=%s model=%s" % (io, mo)
        return None if io["err"] == mo["err"] else "error kinds differ: impl=%s model=%s" % (io["err"], mo["err"])
    if io["ok"] != mo["ok"]:
        return "result quantities differ: impl=%s model=%s" % (show_q(io["ok"]), show_q(mo["ok"]))
    if "T" in io:
        want = sorted([str(n), str(int(e))] for n, e in mo.get("T", [["?", 0]]))
        if io["T"] != want:
            return "reported quantity type differs (GetQuantityType() of the result, parsed, against the model's " \
                   "rep_and_exp): impl=%s model=%s for the result %s" % (show_t(io["T"]), show_t(want), show_q(io["ok"]))
    r = float.fromhex(io["v"])
    y, m = qparse(mo["v"]), qparse(mo["M"])
    ar = c["_t"].get("arr")
    if ar and "float32" in arr_dts(ar):
        # float32 RANGE: the value is judged only when every exact magnitude of the evaluation (operand values,
        # matched intermediates, conversion factors, result: "R" of the driver) lies well inside the float32 normal
        # range; outside it float32 arithmetic loses relative precision (subnormals) or overflows.  float64 cases
        # are never excused.
        rg = [qparse(x) for x in mo.get("R", ["0/1", "0/1"])]
        if (rg[0] != 0 and rg[0] < Fraction(1, 10 ** 30)) or rg[1] > 10 ** 30:
            ctx.notes["float32 range: value not judged (correspondence)"] = \
                ctx.notes.get("float32 range: value not judged (correspondence)", 0) + 1
            return None
        # a float32 array takes part: the same bound with eps = 2**-24 (M is scaled instead of eps)
        m = max(m, abs(y)) * 2 ** 29
    if c["op"] == "floordiv":
        if close(r, y, abs(y)):
            return None
        quot = qparse(mo["quot"])
        tol = 64 * Fraction(2) ** -53 * max(m, abs(quot))
        near = abs(quot - round(quot)) <= tol
        if near and abs(exact(r) - y) <= 1 + tol:
            return None  # the float quotient (within tol of the exact one) may fall on the other side of an integer
        return "floor division gives %r, the floor of the exact matched quotient is %s" % (r, float(y))
    if c["op"] in ("add", "sub") and c.get("e1") == c.get("e2") and c.get("c1") == c.get("c2"):
        # quantity1 == quantity2: one float operation on the two values
        return None if close(r, y, m, k=2) else "same-quantity %s is not the plain float operation" % c["op"]
    return None if close(r, y, m) else "float value %r is not within K*eps*M of the exact %s (M=%s)" % (r, float(y), float(m))


def show_q(q):
    return dict(e=[[unsym(int(c)), unsym(int(u)), int(x)] for c, u, x in q["e"]], cap=unsym(int(q["cap"])),
                derived=q["derived"])


def show_t(t):
    return t if isinstance(t, dict) else [[unsym(int(n)) if n.isdigit() else n, int(e)] for n, e in t]


def nontrivial(c, io):
    if "ok" not in io:
        return False
    if c["op"] == "pow":
        return c["n"] >= 2
    return c["e1"] != c["e2"]


def case_key(c):
    return model_line(c)


# ------------------------------------------------------------------------------------------ the Array leg
ARR_KINDS = ("ndarray", "ndarray", "list", "tuple")
ARR_MULT = (1.0, 1.5, -0.75, 2.0, -3.0, 0.25, 10.0)
# (name, operator, left, right); "r0" = the object returned by step 0
STEPS = {
    "add": [("a+b", "+", "a", "b"), ("b+a", "+", "b", "a"), ("(a+b)-b", "-", "r0", "b"), ("a-b", "-", "a", "b")],
    "mul": [("a*b", "*", "a", "b"), ("b*a", "*", "b", "a"), ("a*b again", "*", "a", "b"), ("(a*b)/b", "/", "r0", "b"),
            ("a/b", "/", "a", "b"), ("a//b", "//", "a", "b")],
}


# element types of ndarray leaves (left operand, right operand): integer and float32 arrays on either or both sides
ARR_DTYPES = [("int64", "float64"), ("float64", "int64"), ("int64", "int64"), ("int32", "float64"),
              ("float64", "int32"), ("int32", "int32"), ("int64", "int32"), ("float32", "float64"),
              ("float64", "float32"), ("float32", "float32"), ("int32", "float32"), ("float32", "int64")]
INT_LEAF_MAX = 50  # integer leaves are small, so that products of a few of them stay exact in int32


def leaf_elem(v, m, dt="float64"):
    """the value of one element of a leaf: leaf value * multiplier, as a number of the leaf's element type
    (integers: rounded, never 0, at most INT_LEAF_MAX; float32: the nearest float32)"""
    x = float(v * m)
    if dt == "float64":
        return x
    if dt == "float32":
        import numpy

        return float(numpy.float32(x))
    n = int(round(max(-INT_LEAF_MAX, min(INT_LEAF_MAX, x))))
    if n == 0:
        n = -1 if x < 0 else 1
    return float(n)


def elem_tree(t, m, dt="float64"):
    """the Scalar tree of one array element: every leaf value multiplied by m (in the leaf's element type)"""
    k = t[0]
    if k in ("L", "C", "E", "R"):
        return [k, float(leaf_elem(fval(t[1]), m, dt)).hex()] + list(t[2:])
    if k == "^":
        return ["^", elem_tree(t[1], m, dt), t[2]]
    return [k, elem_tree(t[1], m, dt), elem_tree(t[2], m, dt)]


ARR_CONTAINERS = ("ndarray", "list", "tuple")


def arr_kinds(ar_or_kind):
    """(container kind of the left operand's leaves, of the right operand's leaves); "ndarray|list" = mixed"""
    k = ar_or_kind if isinstance(ar_or_kind, str) else ar_or_kind["kind"]
    a, _sep, b = k.partition("|")
    return (a, b or a)


def kind_name(ka, kb):
    return ka if ka == kb else "%s|%s" % (ka, kb)


def result_container(l, r):
    """the container `Array._DoOperation` returns: numpy as soon as one side is numpy, a tuple for two tuples,
    else a list"""
    import numpy

    if isinstance(l, numpy.ndarray) or isinstance(r, numpy.ndarray):
        return numpy.ndarray
    return tuple if isinstance(l, tuple) and isinstance(r, tuple) else list


def _container(vals, kind, dt="float64"):
    if kind == "ndarray":
        import numpy

        return numpy.array(vals, dtype=getattr(numpy, dt))
    return list(vals) if kind == "list" else tuple(vals)


def build_array(t, mult, kind, dt="float64"):
    """Evaluate a tree with Arrays (raises whatever the real code raises)."""
    from barril.units import Array, ObtainQuantity

    k = t[0]
    if k in ("L", "C", "E", "R"):
        vals = _container([leaf_elem(fval(t[1]), m, dt) for m in mult], kind, dt)
        if k == "L":
            return Array(vals, t[2], t[3])
        if k == "C":
            return Array(ObtainQuantity(t[2], t[3], t[4]), vals)
        if k == "E":
            return Array.CreateEmptyArray(vals)
        return Array.CreateWithQuantity(ObtainQuantity(OrderedDict((c, [u, e]) for c, u, e in t[2])), vals)
    if k == "^":  # Array has no __pow__: the loop of Scalar.__pow__
        a = build_array(t[1], mult, kind, dt)
        r = a
        for _ in range(t[2] - 1):
            r = r * a
        return r
    return apply_op(k, build_array(t[1], mult, kind, dt), build_array(t[2], mult, kind, dt))


def elems(obj):
    return [float(x) for x in obj.values]


def _snap(obj):
    return dict(q=canon_quantity(obj.GetQuantity()), vals=elems(obj), T=reported_types(obj.GetQuantity()))


def run_group(ta, tb, mult, kind, fam, dts=("float64", "float64")):
    """Build the two Array operands ONCE and run the steps of the family in order on the same objects.
    None when an operand cannot be built."""
    import numpy

    with numpy.errstate(all="ignore"):
        try:
            ka, kb = arr_kinds(kind)
            objs = dict(a=build_array(ta, mult, ka, dts[0]), b=build_array(tb, mult, kb, dts[1]))
        except Exception:
            return None
        snap = {k: _snap(o) for k, o in objs.items()}  # the operands as they were built
        if not all(math.isfinite(v) for sn in snap.values() for v in sn["vals"]):
            return None
        steps = []
        for j, (_name, op, l, r) in enumerate(STEPS[fam]):
            if l not in objs or r not in objs:
                steps.append(None)  # the step it refers to failed
                continue
            try:
                res = apply_op(op, objs[l], objs[r])
                out = _snap(res)
                if type(res.values) is not result_container(objs[l].values, objs[r].values):
                    steps.append(dict(err="other", detail="containers %s, %s gave %s" % (
                        type(objs[l].values).__name__, type(objs[r].values).__name__, type(res.values).__name__)))
                    continue
                steps.append(out)
                objs["r%d" % j] = res
                snap["r%d" % j] = out  # results: as they were right after the step
            except Exception as e:
                steps.append(dict(overflow=True) if isinstance(e, OverflowError) else dict(err=err_kind(e)))
    return dict(snap=snap, steps=steps)


def factors(t):
    """number of leaf factors of a tree, powers counted with their multiplicity"""
    if t[0] in ("L", "C", "E", "R"):
        return 1
    if t[0] == "^":
        return max(1, t[2]) * factors(t[1])
    return factors(t[1]) + factors(t[2])


MIXED_SHARE = 0.35  # share of the Array groups whose two operands hold independently drawn container kinds


def array_cases(ctx, fam, ta, tb, rng, kind=None, n=None):
    """the correspondence cases (one per step and element) of one operand pair evaluated with Arrays
    (`kind`, `n`: container kind(s) and number of elements, drawn when not given)"""
    shallow = factors(ta) <= 2 and factors(tb) <= 2
    forced = kind is not None
    if kind is None:
        kind = rng.choice(ARR_KINDS + (("ndarray", "ndarray") if shallow else ()))
        if rng.random() < MIXED_SHARE:
            kind = kind_name(rng.choice(ARR_CONTAINERS), rng.choice(ARR_CONTAINERS))
    mult = [rng.choice(ARR_MULT) for _ in range(n or rng.choice((2, 3) if rng.random() < 0.8 else (1, 4)))]
    if forced and len(set(mult)) < len(mult):
        mult = list(ARR_MULT[:len(mult)])  # distinct elements
    dts = ["float64", "float64"]
    if kind == "ndarray" and shallow and rng.random() < 0.7:
        dts = list(rng.choice(ARR_DTYPES))  # operands of at most two leaf factors: integer products stay exact
    g = run_group(ta, tb, mult, kind, fam, dts)
    if g is None:
        return []
    cache = ctx.__dict__.setdefault("_arr", {})
    gid = len(cache)
    cache[gid] = g
    out = []
    for j, (name, op, l, r) in enumerate(STEPS[fam]):
        if g["steps"][j] is None or l not in g["snap"] or r not in g["snap"]:
            continue
        L, R = g["snap"][l], g["snap"][r]
        for i in range(len(mult)):
            if not (math.isfinite(L["vals"][i]) and math.isfinite(R["vals"][i])):
                continue
            c = dict(op=OPNAME[op], _t=dict(k=op, a=ta, b=tb, n=None,
                                            arr=dict(gid=gid, kind=kind, mult=mult, dts=dts, fam=fam, step=j, name=name, i=i)))
            c.update(e1=L["q"]["e"], c1=L["q"]["cap"], v1=qstr(exact(L["vals"][i])),
                     e2=R["q"]["e"], c2=R["q"]["cap"], v2=qstr(exact(R["vals"][i])))
            out.append(c)
    return out


def impl_array(c, ctx):
    t = c["_t"]
    ar = t["arr"]
    g = ctx.__dict__.setdefault("_arr", {}).get(ar["gid"])
    if g is None:
        g = run_group(t["a"], t["b"], ar["mult"], ar["kind"], ar["fam"], ar.get("dts", ("float64", "float64")))
        if g is None:
            return dict(err="other", detail="operands no longer build")
    res = g["steps"][ar["step"]]
    if res is None:
        return dict(err="other", detail="step skipped")
    if "overflow" in res:
        return dict(overflow=True)
    if "err" in res:
        return dict(err=res["err"])
    v = res["vals"][ar["i"]]
    if not math.isfinite(v):
        return dict(nonfinite=True)
    return dict(ok=res["q"], v=float(v).hex(), T=res["T"])


def arr_sems(t, mult, db, dt="float64"):
    """independent semantics of every element of a tree evaluated with Arrays"""
    return [sem(elem_tree(t, m, dt), db) for m in mult]


def arr_dts(ar):
    return tuple(ar.get("dts") or ("float64", "float64"))


def arr_tol(ar):
    """relative tolerance of the oracles: float32 arithmetic where a float32 array takes part"""
    return 1e-5 if "float32" in arr_dts(ar) else 1e-9


F32_LO, F32_HI = 1e-30, 1e30


def in_f32_range(xs):
    """every magnitude is 0 or well inside the float32 normal range"""
    return all(x == 0 or (math.isfinite(x) and F32_LO <= abs(x) <= F32_HI) for x in xs)


def f32_mags(arrays, db):
    """float64 magnitudes that float32 arithmetic on these real Arrays goes through (for the oracles): the elements,
    their base magnitudes, every unit factor slope ** exp, every ratio (slope(u) / slope(w)) ** exp between two
    units of one quantity type occurring in the Arrays, and the elements scaled by such a ratio"""
    ents, units = [], {}
    for a in arrays:
        for c, ue in a.GetQuantity().GetCategoryToUnitAndExps().items():
            qt = db.GetCategoryQuantityType(c)
            ents.append((a, qt, ue[0], ue[1]))
            units.setdefault(qt, set()).add(ue[0])
    out = []
    for a in arrays:
        vs = elems(a)
        out += vs + mags_of(a, db)
    for a, qt, u, e in ents:
        su = slope(db, qt, u)
        vs = elems(a)
        for w in sorted(units[qt]):
            try:
                r = (su / slope(db, qt, w)) ** e
            except (OverflowError, ZeroDivisionError):
                r = math.inf
            out.append(r)
            out += [v * r for v in vs]
        try:
            out.append(su ** e)
        except (OverflowError, ZeroDivisionError):
            out.append(math.inf)
    return out


def f32_skip(ctx, ar, arrays, db, extra=()):
    """True (and counted in the notes) when a float32 array takes part and a magnitude leaves the judged range"""
    if "float32" not in arr_dts(ar):
        return False
    if in_f32_range(f32_mags(arrays, db) + list(extra)):
        return False
    ctx.notes["float32 range: value not judged (oracle)"] = ctx.notes.get("float32 range: value not judged (oracle)", 0) + 1
    return True


def mags_of(arr, db):
    """base magnitudes of the elements of a real Array result whose units are scale-only"""
    f = 1.0
    for c, ue in arr.GetQuantity().GetCategoryToUnitAndExps().items():
        f = f * slope(db, db.GetCategoryQuantityType(c), ue[0]) ** ue[1]
    return [float(v) * f for v in arr.values]


# ------------------------------------------------------------------------------------------ generators
class Universe:
    """Quantity types, units and categories the trees are drawn from (read from the live default database;
    sorted, so that the choice depends on the seed only)."""

    def __init__(self, rng, n_extra=3, units_per_type=5):
        _S, _O, db = _api()
        self.db = db
        by = {}
        for c, ci in db.categories_to_quantity_types.items():
            by.setdefault(ci.quantity_type, []).append(c)
        self.offset = {}
        types = [t for t in FIXED_TYPES if t in db.quantity_types and by.get(t)]
        multi = sorted(t for t, cs in by.items() if len(cs) > 1 and t not in types and t in db.quantity_types
                       and t != "temperature")
        rng.shuffle(multi)
        types += multi[:n_extra]
        self.types = types
        self.units, self.cats = {}, {}
        for t in types + ["temperature"]:
            us = []
            for info in db.quantity_types[t]:
                o = self._offset(info)
                if o is None:
                    continue
                self.offset[info.unit] = o
                us.append(info.unit)
            plain = [u for u in us if self.offset[u] == 0.0]
            base = plain[:1]
            rest = sorted(plain[1:])
            rng.shuffle(rest)
            self.units[t] = base + rest[: units_per_type - 1]
            cs = sorted(by.get(t, []))
            rng.shuffle(cs)
            self.cats[t] = cs[:4]
        # units with an affine offset (simple operands of C03 and a small minority of the trees)
        self.affine = {}
        for t in ("temperature", "pressure"):
            if t in db.quantity_types:
                self.affine[t] = sorted(i.unit for i in db.quantity_types[t] if self._offset(i) not in (None, 0.0))
                for i in db.quantity_types[t]:
                    o = self._offset(i)
                    if o is not None:
                        self.offset[i.unit] = o

    @staticmethod
    def _offset(info):
        try:
            z = info.tobase(0.0)
            s = info.tobase(1.0) - z
        except Exception:
            return None
        if not (math.isfinite(z) and math.isfinite(s)) or s == 0.0:
            return None
        return z

    def value(self, rng):
        r = rng.random()
        if r < 0.03:
            return 0.0
        if r < 0.45:
            return rng.choice([1.0, 2.0, -3.0, 0.5, 7.25, 10.0, -1.0, 4.0])
        if r < 0.75:
            return round(rng.uniform(-100, 100), 3)
        return 10.0 ** rng.uniform(-4, 4) * rng.choice((1, -1))

    def leaf(self, rng, t=None, affine=False):
        t = t or rng.choice(self.types)
        if affine and self.affine.get(t):
            u = rng.choice(self.affine[t] + self.units.get(t, [])[:2])
        else:
            u = rng.choice(self.units[t])
        c = rng.choice(self.cats[t]) if self.cats.get(t) else None
        return ["L", float(self.value(rng)).hex(), u, c]

    def variant(self, rng, t, swap=0.3):
        """The same dimensions from other units / categories / values, factors possibly commuted."""
        k = t[0]
        if k in ("L", "C"):
            qt = self.db.GetQuantityType(t[2])
            if qt in self.units and t[2] in self.units[qt]:
                n = self.leaf(rng, qt)
            elif qt in self.affine:
                n = self.leaf(rng, qt, affine=True)
            else:
                n = ["L", float(self.value(rng)).hex(), t[2], t[3]]
            return n
        if k in ("E", "R"):
            return [k, float(self.value(rng)).hex()] + list(t[2:])
        if k == "^":
            return ["^", self.variant(rng, t[1], swap), t[2]]
        a, b = self.variant(rng, t[1], swap), self.variant(rng, t[2], swap)
        if k == "*" and rng.random() < swap:
            a, b = b, a
        return [k, a, b]


def depth(t):
    if t[0] in ("L", "C", "E", "R"):
        return 0
    if t[0] == "^":
        return 1 + depth(t[1])
    return 1 + max(depth(t[1]), depth(t[2]))


def grow_pool(uni, rng, max_depth, per_level, ops=("*", "/")):
    """levels[d] = trees of depth d; every tree of level d has a child of level d-1."""
    levels = [[uni.leaf(rng) for _ in range(per_level)]]
    # force every unit and every category of the universe to occur among the leaves
    for t in uni.types:
        for u in uni.units[t]:
            for c in uni.cats[t]:
                levels[0].append(["L", float(uni.value(rng)).hex(), u, c])
    for d in range(1, max_depth + 1):
        cur = []
        lower = [x for lv in levels for x in lv]
        for _ in range(per_level):
            a = rng.choice(levels[d - 1])
            b = rng.choice(lower)
            if rng.random() < 0.5:
                a, b = b, a
            r = rng.random()
            if r < 0.12:
                n = rng.choice([2, 2, 3])
                if a[0] == "L" and abs(fval(a[1])) <= 100.0:
                    n = rng.choice([2, 3, 4, 5, 6, 7])  # higher powers where the magnitude allows
                cur.append(["^", a, n])
            else:
                cur.append([rng.choice(ops), a, b])
        levels.append(cur)
    return levels


def raw_operand(uni, rng):
    """A quantity written down directly: possibly two units of one type, a zero exponent, a zero total."""
    n = rng.choice([1, 2, 2, 3])
    es, seen = [], set()
    for _ in range(n):
        t = rng.choice(uni.types)
        cs = [c for c in uni.cats[t] if c not in seen]
        if not cs:
            continue
        c = rng.choice(cs)
        seen.add(c)
        es.append([c, rng.choice(uni.units[t]), rng.choice([-3, -2, -1, 0, 1, 1, 2, 3])])
    return ["R", float(uni.value(rng)).hex(), es]


# ------------------------------------------------------------------------------------------ independent semantics
def slope(db, qt, u):
    """base-unit amount of one `u` step (scale of the unit), through the public Convert only"""
    b = db.GetBaseUnit(qt)
    return db.Convert(qt, u, b, 1.0) - db.Convert(qt, u, b, 0.0)


def offset0(db, qt, u):
    return db.Convert(qt, u, db.GetBaseUnit(qt), 0.0)


def comb(d1, d2, sign):
    d = dict(d1)
    for k, e in d2.items():
        d[k] = d.get(k, 0) + sign * e
    return {k: e for k, e in d.items() if e != 0}


def sem(t, db):
    """(dimension vector, base magnitude or None, scale_only) of a tree, from its leaves only.
    None when the tree has no dimensional meaning (incompatible sum inside, zero divisor, ...)."""
    k = t[0]
    if k in ("L", "C"):
        qt = db.GetQuantityType(t[2])
        if qt is None:
            return None
        v = fval(t[1])
        so = offset0(db, qt, t[2]) == 0.0
        return ({qt: 1}, v * slope(db, qt, t[2]), so)
    if k == "E":
        return ({}, fval(t[1]), True)
    if k == "R":
        d, m, so = {}, fval(t[1]), True
        for c, u, e in t[2]:
            qt = db.GetCategoryQuantityType(c)
            d = comb(d, {qt: e}, 1)
            s = slope(db, qt, u)
            so = so and offset0(db, qt, u) == 0.0
            m = m * s ** e
        return (d, m, so)
    if k == "^":
        r = sem(t[1], db)
        if r is None:
            return None
        n = t[2]
        if n < 1:
            return r
        d = {q: e * n for q, e in r[0].items()}
        return (d, None if r[1] is None else r[1] ** n, r[2])
    a, b = sem(t[1], db), sem(t[2], db)
    if a is None or b is None:
        return None
    so = a[2] and b[2]
    if k == "*":
        return (comb(a[0], b[0], 1), None if None in (a[1], b[1]) else a[1] * b[1], so)
    if k == "/":
        if b[1] == 0:
            return None
        return (comb(a[0], b[0], -1), None if None in (a[1], b[1]) else a[1] / b[1], so)
    if k == "//":
        if b[1] == 0:
            return None
        return (comb(a[0], b[0], -1), None, so)
    if k in "+-":
        if a[0] != b[0]:
            return None
        m = None if None in (a[1], b[1]) else (a[1] + b[1] if k == "+" else a[1] - b[1])
        return (a[0], m, so)
    return None


def dims_of(s, db):
    """dimension vector of a real result, read through the public getters"""
    d = {}
    for c, ue in s.GetQuantity().GetCategoryToUnitAndExps().items():
        qt = db.GetCategoryQuantityType(c)
        d[qt] = d.get(qt, 0) + ue[1]
    return {k: e for k, e in d.items() if e != 0}


def mag_of(s, db):
    """base magnitude of a real result whose units are scale-only"""
    m = s.value
    for c, ue in s.GetQuantity().GetCategoryToUnitAndExps().items():
        qt = db.GetCategoryQuantityType(c)
        m = m * slope(db, qt, ue[0]) ** ue[1]
    return m


def scale_only_result(s, db):
    for c, ue in s.GetQuantity().GetCategoryToUnitAndExps().items():
        if offset0(db, db.GetCategoryQuantityType(c), ue[0]) != 0.0:
            return False
    return True


def rel_close(a, b, scale=0.0, tol=1e-9):
    if a == b:
        return True  # also equal infinities (inf - inf is nan)
    return abs(a - b) <= tol * max(abs(a), abs(b), abs(scale)) + 1e-300


def is_simple_tree(t):
    return t[0] in ("L", "C")
