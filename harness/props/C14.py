"""C14 - the unit registry stays well-formed under any registration history.

Decided by Barril/Props/C14.lean over the state machine of Barril/Model/Reg.lean (AddUnit, AddUnitBase,
AddCategory with every argument, the getters): the registry invariant is preserved by every step and
every history (`run_inv_partial`; the identity-base clause in the weakened form forced by the known
finding "AddUnit into a quantity type without base unit", with `run_inv_counterexample`), a rejected
step is the identity, every category/unit of a well-formed registry builds a Scalar, and the shipped
POSC table satisfies the invariant (`posc_RegInv`, `posc_units_default_category_of_own_type`, from generated `decide +kernel` table theorems).
Tie: bounded-exhaustive and random registration histories on private `UnitDatabase()` objects; the
outcome of every step, the complete registry afterwards (three dictionaries, conversion functions
evaluated at three points) and a pool of getter / construction queries are compared with the model."""
import itertools

import _reg_common as rc
from _reg_common import BAD, NO_X, SYNTAX, form_of

ID = "C14"
LEAN_MODULES = ["Barril.Props.C14"]
DRIVERS = ["drv_reg"]
DRIVER_EXE = "drv_reg"
RULE = ("registration histories on a private UnitDatabase(): bounded-exhaustive over a fixed alphabet of 29 calls "
        "(AddUnitBase/AddUnit/AddCategory over 3 quantity types x 5 symbols x 4 categories incl. duplicates, a second "
        "base, foreign symbols, legacy spellings, override, from_category with partial overrides, limits, every "
        "rejected-argument class) to depth 3 (quick) / 4 (thorough, last call from an 8-call sub-alphabet), random "
        "histories to depth 40 with arbitrary argument combinations; after the history the complete registry and ~45 "
        "getter/construction queries (incl. GetDefaultValue/GetDefaultUnit/FindUnitCase/FindSimilarUnitMatches/CheckValueForCategory, GetBaseUnit of an unknown type) are compared; "
        "AddCategory limits with a ZERO-valued bound (0.0, int 0) on either side of contradictory and consistent limits, defaults on / just outside such a "
        "bound with and without exclusivity flags, through from_category and override (15-call sub-alphabet to depth 2 / 3, and in the random calls); "
        "AddCategory with EXPLICIT None for is_min_exclusive/is_max_exclusive/caption with and without from_category (8-call sub-alphabet to depth 3 / 4, and in the random calls); plus sessions (depth 2 exhaustive with a category / 3 thorough, and random) "
        "in which Scalar(1.0, u, c) is attempted for the named categories x units before every call and after the last "
        "(a unit that failed before its registration must work after it); plus families of 2-3 private databases alive at the same time that share quantity-type and category names but hold "
        "different units (both registered completely, then every pair of lookups/creations addressed to either database with no registration "
        "in between; random interleavings of registrations and lookups): each must behave as if alone; "
        "distinct = distinct history; non-trivial = at least one accepted "
        "and (depth>1) one rejected or overriding call")
EXHAUSTIVE = {"quick": False, "thorough": False}
ASSUMPTIONS = ["conversion formulas of registered units are strings (callables are passed through unchecked by AddUnit)",
               "names are ASCII (str.title of the default caption is modelled on ASCII bytes)",
               "the empty string is not used as a quantity type (None and '' coincide in the model's symbol code 0)",
               "float results within K*eps*M of the exact model (checked, not proved)",
               "-0.0 is never used as a limit or default value (the exact model does not distinguish it from 0.0)",
               "dead lines of unit_database.py no input reaches: 796 (`unit = name`: the class check above raises TypeError "
               "for None first), 810 (second duplicate check: unreachable from a well-formed registry, see the model's addInfo "
               "and rejected_step_id), 850 (`return None` after CheckQuantityType, which raises), 628 (None as a category key: "
               "CheckType rejects it)"]

TYPES = ["length", "time", "x"]
SYMS = ["m", "cm", "lbmol", "s", "lbmole"]
CATS = ["length", "depth", "c per d", "time"]


def _base(qt, u):
    return dict(k="base", qt=qt, name="name of %s" % u, unit=u)


def _unit(qt, u, fb=None, tb=None, dc=None):
    f = form_of(u) if isinstance(u, str) else ("x", "x")
    return dict(k="unit", qt=qt, name="n%s" % u, unit=u, fb=f[0] if fb is None else fb, tb=f[1] if tb is None else tb, dc=dc)


def _cat(c, qt=None, **kw):
    if qt is not None:
        kw["quantity_type"] = qt
    return dict(k="cat", c=c, kw=kw)


ALPHABET = [
    _base("length", "m"),
    _base("time", "s"),
    _base("length", "cm"),                      # a second base for the same type
    _base("x", "m"),                            # a symbol of another type
    _unit("length", "cm"),
    _unit("time", "m"),
    _unit("length", "lbmol", dc="depth"),
    _unit("time", "min", dc="nope"),
    _unit("x", "cm", fb=NO_X),                  # AssertionError before the duplicate check
    _unit(BAD, "cm"),
    _unit("length", None),
    _cat("length", "length"),
    _cat("depth", "length", valid_units=["cm", "lbmole"]),
    _cat("depth", "time", override=True),
    _cat("c per d", from_category="depth"),
    _cat("c per d", from_category="depth", valid_units=["m"], default_unit="cm", override=True, caption="Cap"),
    _cat("length", "length", min_value=0.0, max_value=10.0, default_value=5.0, override=True),
    _cat("depth", "length", min_value=5.0, max_value=1.0),
    _cat("depth", "length", default_unit="s"),
    _cat("depth", "nope"),
    _cat("depth", "length", min_value=0.0, is_min_exclusive=True),
    _cat("depth", "length", max_value=1.0, default_value=2.0),
    _cat(BAD, "length"),
    _cat("depth", "length", from_category="length"),
    _cat("depth"),
    _cat("time", "length"),
    _cat("length", "time", override=True),
    _cat("depth", "length", default_unit="lbmole", max_value=3.0),
    _cat("depth", "length", min_value=5.0),
]
# last call of the depth-4 histories of the thorough tier
SUB = [0, 4, 6, 11, 12, 14, 15, 28]


def _queries(types=TYPES, syms=SYMS, cats=CATS):
    qs = [dict(q="allUnits"), dict(q="allUnitNames"), dict(q="quantityTypes"), dict(q="categories")]
    for c in cats:
        qs += [dict(q="validUnits", c=c), dict(q="catInfo", c=c), dict(q="createC", c=c)]
    for c in cats[:3]:
        qs += [dict(q="defaultValue", c=c), dict(q="defaultUnit", c=c), dict(q="findUnitCase", c=c, u="CM"),
               dict(q="checkValueFor", c=c, u="cm", x=7.0)]
    qs += [dict(q="findSimilar", u="LB"), dict(q="findSimilar", u="c"), dict(q="baseUnit", qt="nope")]
    for t in types:
        qs += [dict(q="baseUnit", qt=t), dict(q="units", qt=t)]
    for u in syms:
        qs += [dict(q="defaultCategory", u=u), dict(q="quantityType", u=u), dict(q="createU", u=u)]
    for c in cats[:3]:
        for u in syms:
            qs.append(dict(q="create", c=c, u=u))
    qs += [dict(q="check", c="depth", u="lbmole"), dict(q="check", c="length", u="cm"),
           dict(q="convert", cq="length", u="cm", v="m", x=250.0), dict(q="convert", cq="depth", u="lbmole", v="cm", x=3.0),
           dict(q="isValid", c="length", u="cm", x=2000.0), dict(q="isValid", c="depth", u="lbmol", x=4.0),
           dict(q="objValidUnits", c="depth", u="m")]
    return qs


QUERIES = _queries()


def _history(ops, queries=QUERIES, tag="h"):
    return dict(op="reghist", ops=[rc.enc_reg(o) for o in ops], queries=[rc.enc_query(q) for q in queries],
                _t=dict(ops=ops, queries=queries, tag=tag))


# ------------------------------------------------------------------------------------ random histories
def _rnd_op(rng):
    k = rng.choice(["base", "unit", "unit", "cat", "cat", "cat"])
    types = TYPES + ["Unknown"]
    syms = SYMS + ["Mcf", "1000ft3", "<unknown>", "degC", "km"]
    cats = CATS + ["Unknown", ""]
    if k == "base":
        qt = rng.choice(types) if rng.random() < 0.94 else rng.choice([None, BAD])
        u = rng.choice(syms) if rng.random() < 0.95 else rng.choice([None, BAD])
        return _base(qt, u)
    if k == "unit":
        qt = rng.choice(types) if rng.random() < 0.94 else rng.choice([None, BAD])
        u = rng.choice(syms) if rng.random() < 0.95 else rng.choice([None, BAD])
        op = _unit(qt, u, dc=rng.choice([None, None, "", "depth", "nope", "length"]))
        r = rng.random()
        if r < 0.06:
            op["fb"] = rng.choice([NO_X, SYNTAX])
        elif r < 0.12:
            op["tb"] = rng.choice([NO_X, SYNTAX])
        elif r < 0.15:
            op["fb"], op["tb"] = SYNTAX, NO_X
        return op
    kw = {}
    if rng.random() < 0.4:
        kw["valid_units"] = rng.sample(syms, rng.randint(0, 3))
    if rng.random() < 0.3:
        kw["default_unit"] = rng.choice(syms)
    if rng.random() < 0.35:
        kw["override"] = True
    if rng.random() < 0.3:
        kw["min_value"] = rng.choice([0.0, 5.0, -1.5])
    if rng.random() < 0.3:
        kw["max_value"] = rng.choice([1.0, 10.0, 5.0])
    if rng.random() < 0.15:
        kw["is_min_exclusive"] = True
    if rng.random() < 0.15:
        kw["is_max_exclusive"] = True
    if rng.random() < 0.3:
        kw["default_value"] = rng.choice([0.0, 1.0, 5.0, 20.0, 7.25])
    if rng.random() < 0.15:
        kw["caption"] = rng.choice(["Cap", ""])
    c = rng.choice(cats) if rng.random() < 0.96 else rng.choice([None, BAD])
    r = rng.random()
    if r < 0.25:
        kw["from_category"] = rng.choice(cats)
        return _cat(c, rng.choice(types) if rng.random() < 0.1 else None, **kw)
    if r < 0.3:
        return _cat(c, None, **kw)
    return _cat(c, rng.choice(types + ["nope", ""]) if rng.random() < 0.9 else rng.choice(cats), **kw)


def _rnd_op_n(rng):
    """`_rnd_op` (kept as it is: C19 draws from it too), plus EXPLICIT None for the exclusivity flags / the caption of
    an AddCategory (copied from the source category when from_category is given), plus limits with a ZERO-valued bound
    (0.0, the int 0: falsy values that are limits all the same; never -0.0, which the exact model cannot tell from 0.0) on either side of consistent and of contradictory
    limits, and default values on / just outside such bounds"""
    op = _rnd_op(rng)
    if op["k"] == "cat":
        kw = op["kw"]
        for key in ("is_min_exclusive", "is_max_exclusive", "caption"):
            if rng.random() < 0.12:
                kw[key] = None
        if rng.random() < 0.15:
            zero = rng.choice([0.0, 0.0, 0])
            lo, hi = rng.choice([(zero, -5.0), (5.0, zero), (zero, -0.5), (1.0, zero), (zero, zero), (zero, 10.0), (-10.0, zero),
                                 (zero, None), (None, zero)])
            for key, v in (("min_value", lo), ("max_value", hi)):
                kw.pop(key, None)
                if v is not None:
                    kw[key] = v
            r = rng.random()
            if r < 0.45:
                kw.pop("default_value", None)          # derived from the limits
            elif r < 0.9:
                kw["default_value"] = rng.choice([0.0, 0, 0.5, -0.5, 1e-9, -1e-9, 10.0, -10.0, 12.0])
    return op


def _rnd_queries(rng):
    types = TYPES + ["Unknown"]
    syms = SYMS + ["Mcf", "1000ft3", "<unknown>", "degC", "km"]
    cats = CATS + ["Unknown", ""]
    qs = _queries(types, syms, cats[:5])
    for _ in range(12):
        c, u, v = rng.choice(cats), rng.choice(syms), rng.choice(syms)
        qs.append(rng.choice([
            dict(q="convert", cq=rng.choice(cats + types), u=u, v=v, x=rng.choice([1.0, -3.5, 0.0, 120.0])),
            dict(q="isValid", c=c, u=u, x=rng.choice([0.0, 3.0, 700.0, -2.0])),
            dict(q="objValidUnits", c=c, u=u),
            dict(q="check", c=c, u=u),
            dict(q="add", c1=c, u1=u, c2=rng.choice(cats), u2=v, x=1.5, y=2.0),
        ]))
    return qs


def _random_histories(ctx, salt, n, maxlen):
    rng = ctx.fresh_rng("C14" + salt)
    for _ in range(n):
        ops = []
        # mostly start like a real filler (bases first) so that deep states are reached
        if rng.random() < 0.7:
            ops += [_base("length", "m"), _base("time", "s")][: rng.randint(1, 2)]
        for _ in range(rng.randint(1, maxlen)):
            ops.append(_rnd_op_n(rng))
        yield _history(ops, _rnd_queries(rng), tag="random")


def _exhaustive(depth, last=None):
    n = len(ALPHABET)
    for d in range(1, depth + 1):
        pools = [range(n)] * d
        if last is not None and d == depth:
            pools = [range(n)] * (d - 1) + [last]
        for idx in itertools.product(*pools):
            yield _history([ALPHABET[i] for i in idx], tag="exhaustive")


def _probe_queries(ops, upto):
    """Scalar(1.0, u, c) for the categories named by the first `upto` calls and the unit symbols named anywhere
    in the history (so that units are tried BEFORE they are registered, too)."""
    cats, units = [], []
    for o in ops[:upto]:
        if o["k"] == "cat" and isinstance(o["c"], str) and o["c"] not in cats:
            cats.append(o["c"])
    for o in ops:
        if o["k"] in ("base", "unit") and isinstance(o["unit"], str) and o["unit"] not in units:
            units.append(o["unit"])
    return [dict(q="create", c=c, u=u) for c in cats[:3] for u in units[:4]]


def _probed(ops, tag="probed"):
    """the history with creation attempts before every call and after the last one, as a session (`chist`)"""
    cops = []
    for i, o in enumerate(ops):
        cops += _probe_queries(ops, i) + [o]
    cops += _probe_queries(ops, len(ops))
    return dict(op="chist", ops=[rc.enc_cop(o) for o in cops], _t=dict(ops=ops, cops=cops, tag=tag))


def _probed_cases(ctx, salt, depth, n_random):
    for idx in itertools.product(range(len(ALPHABET)), repeat=depth):
        ops = [ALPHABET[i] for i in idx]
        if any(o["k"] == "cat" for o in ops):
            yield _probed(ops)
    rng = ctx.fresh_rng("C14p" + salt)
    for _ in range(n_random):
        ops = [_base("length", "m"), _cat(rng.choice(["length", "depth"]), "length")]
        for _ in range(rng.randint(1, 8)):
            ops.append(_rnd_op_n(rng))
        yield _probed(ops)


def _family_cases(ctx, salt, depth, n_random):
    """two or three private databases alive at the same time that share quantity-type and category names but hold
    different units, used alternately (generators shared with C15)"""
    import C15

    yield from C15._family_cases(ctx, "14" + salt, depth, n_random)


NONE_ALPHABET = [
    _cat("depth", "length", min_value=0.0, is_min_exclusive=True, default_value=1.0, caption="Dp"),
    _cat("depth", "length", max_value=9.0, is_max_exclusive=True, default_value=1.0, override=True),
    _cat("c per d", from_category="depth", is_min_exclusive=None, is_max_exclusive=None, caption=None),
    _cat("c per d", from_category="depth", is_min_exclusive=None, caption="", override=True, default_value=2.0),
    _cat("c per d", from_category="depth", is_max_exclusive=None, default_value=0.0, override=True),
    _cat("length", "length", is_min_exclusive=None, is_max_exclusive=None, caption=None),
    _cat("time", from_category="c per d", is_min_exclusive=False, is_max_exclusive=None, caption=None),
    _cat("time", from_category="nope", caption=None),
]


# limits with a ZERO-valued bound (a falsy number that is a limit all the same): contradictory limits with the zero on
# either side, consistent ones, defaults on / just outside a zero-valued bound with and without the exclusivity flags,
# inherited through from_category, replacing a good category (override)
LIMIT_ALPHABET = [
    _cat("depth", "length", min_value=0.0, max_value=-5.0),
    _cat("depth", "length", min_value=5.0, max_value=0.0),
    _cat("depth", "length", min_value=0, max_value=-5, override=True),
    _cat("depth", "length", min_value=0.0, max_value=-1.0, is_max_exclusive=False, override=True),
    _cat("depth", "length", min_value=0.0, max_value=0.0, override=True),
    _cat("depth", "length", min_value=0.0, max_value=10.0, default_value=5.0),
    _cat("depth", "length", min_value=0.0, max_value=10.0, default_value=-0.5, override=True),
    _cat("depth", "length", min_value=-10.0, max_value=0.0, default_value=1e-9, override=True),
    _cat("depth", "length", min_value=0.0, is_min_exclusive=True, default_value=0.0, override=True),
    _cat("depth", "length", max_value=0.0, is_max_exclusive=True, default_value=0.0, override=True),
    _cat("depth", "length", min_value=0.0, max_value=0.0, is_min_exclusive=True, default_value=0.0, override=True),
    _cat("depth", "length", max_value=0.0, override=True),
    _cat("c per d", from_category="depth", min_value=0.0, max_value=-1.0),
    _cat("c per d", from_category="depth", max_value=0.0, override=True),
    _cat("c per d", from_category="depth", min_value=0.0, default_value=0.0, override=True),
]


def _limit_cases(depth):
    for d in range(1, depth + 1):
        for idx in itertools.product(range(len(LIMIT_ALPHABET)), repeat=d):
            yield _history([_base("length", "m")] + [LIMIT_ALPHABET[i] for i in idx], tag="zero-limits")


def _none_cases(depth):
    """AddCategory with EXPLICIT None for is_min_exclusive / is_max_exclusive / caption, with and without from_category"""
    for d in range(1, depth + 1):
        for idx in itertools.product(range(len(NONE_ALPHABET)), repeat=d):
            yield _history([_base("length", "m")] + [NONE_ALPHABET[i] for i in idx], tag="explicit-none")


def cases(ctx):
    yield dict(op="shipped", _t=dict(tag="shipped"))
    yield from _none_cases(3 if ctx.tier == "quick" else 4)
    yield from _limit_cases(2 if ctx.tier == "quick" else 3)
    yield from _family_cases(ctx, ctx.tier[0], 2 if ctx.tier == "quick" else 3, 150 if ctx.tier == "quick" else 2000)
    yield from _probed_cases(ctx, ctx.tier[0], 2 if ctx.tier == "quick" else 3, 150 if ctx.tier == "quick" else 1500)
    if ctx.tier == "quick":
        yield from _exhaustive(3)
        yield from _random_histories(ctx, "q", 150, 40)
    else:
        yield from _exhaustive(3)
        for idx in itertools.product(range(len(ALPHABET)), range(len(ALPHABET)), range(len(ALPHABET)), SUB):
            yield _history([ALPHABET[i] for i in idx], tag="exhaustive4")
        yield from _random_histories(ctx, "t", 3000, 40)


def model_line(c):
    return {k: v for k, v in c.items() if k != "_t"}


def case_key(c):
    return c["ops"] if c["op"] in ("reghist", "chist", "chistN") else model_line(c)


def show(c):
    if c["op"] == "shipped":
        return "the shipped databases (POSC, POSC without categories, FillSimple)"
    if c["op"] == "chistN":
        import C15

        return ["(%d private databases alive at the same time)" % c["n"]] + C15.show(c)
    return ([] if c["op"] == "reghist" else ["(Scalar(1.0, u, c) tried before every call)"]) + \
        [_show_op(o) for o in c["_t"]["ops"][:8]]


def _show_op(o):
    if o["k"] == "base":
        return "AddUnitBase(%r, %r, %r)" % (o["qt"], o["name"], o["unit"])
    if o["k"] == "unit":
        return "AddUnit(%r, %r, %r, %r, %r, default_category=%r)" % (o["qt"], o["name"], o["unit"], o["fb"], o["tb"], o.get("dc"))
    return "AddCategory(%r, %s)" % (o["c"], ", ".join("%s=%r" % kv for kv in sorted(o["kw"].items())))   # (None shown as given)


# ------------------------------------------------------------------------------------ real side
def _new_db():
    from barril.units.unit_database import UnitDatabase

    return UnitDatabase()


def _shipped_dbs():
    from barril.units.unit_database import UnitDatabase

    out = []
    for kind in ("posc", "nocat", "simple"):
        db = UnitDatabase()
        if kind == "posc":
            UnitDatabase.FillUnitDatabaseWithPosc(db)
        elif kind == "nocat":
            UnitDatabase.FillUnitDatabaseWithPosc(db, fill_categories=False)
        else:
            UnitDatabase.FillSimple(db)
        out.append((kind, db))
    return out


def impl(c, ctx):
    from barril.units.unit_database import UnitDatabase

    if c["op"] == "shipped":
        res = {}
        for kind, db in _shipped_dbs():
            fails = rc.registry_invariant(db, None)
            dfails, nodef = rc.default_scalars(db)
            res[kind] = dict(ok=not fails, units=sum(len(v) for v in db.quantity_types.values()),
                             cats=len(db.categories_to_quantity_types), first=(fails + dfails)[:1],
                             defcat=not dfails, nodefcat=nodef)
        return res
    if c["op"] == "chistN":
        import C15

        return C15.impl(c, ctx)
    if c["op"] == "chist":
        import C15

        outs, memo, cache, limits, dcache = C15._run(c["_t"]["cops"])
        n = ctx.notes.setdefault("probed steps", {})
        for op, o in zip(c["_t"]["cops"], outs):
            key = (op["q"] if "q" in op else "Add" + op["k"]) + ("/" + o["err"] if "err" in o else "/ok")
            n[key] = n.get(key, 0) + 1
        return dict(outs=outs, memo=memo, cache=cache, limits=limits, dcache=dcache)
    db = _new_db()
    UnitDatabase.PushSingleton(db)
    try:
        outs = [rc.apply_reg(db, op) for op in c["_t"]["ops"]]
        snap = rc.snapshot(db)
        answers = [rc.ask(db, q) for q in c["_t"]["queries"]]
        limits = {k: (ci.min_value, ci.max_value) for k, ci in db.categories_to_quantity_types.items()}
    finally:
        UnitDatabase.PopSingleton()
    n = ctx.notes.setdefault("registrations", {})
    for op, o in zip(c["_t"]["ops"], outs):
        key = op["k"] + ("/" + o["err"] if "err" in o else "/ok")
        n[key] = n.get(key, 0) + 1
    nq = ctx.notes.setdefault("queries", {})
    for q, o in zip(c["_t"]["queries"], answers):
        key = q["q"] + ("/" + o["err"] if "err" in o else "/ok")
        nq[key] = nq.get(key, 0) + 1
    return dict(outs=outs, reg=snap, answers=answers, limits=limits)


def agree(c, io, mo, ctx):
    if c["op"] == "shipped":
        for kind in ("posc", "nocat", "simple"):
            a, b = io[kind], mo.get(kind)
            if b is None:
                return "model gives no verdict for %s" % kind
            if a["units"] != b["units"] or a["cats"] != b["cats"]:
                return "%s: table sizes differ impl=%s model=%s (translated tables are stale?)" % (kind, a, b)
            if a["ok"] != b["ok"]:
                return "%s: registry invariant impl=%s model=%s" % (kind, a, b)
            if a["nodefcat"] != b.get("nodefcat"):
                return "%s: units without default category impl=%s model=%s" % (kind, a["nodefcat"], b.get("nodefcat"))
            if kind != "nocat" and a["defcat"] != b.get("defcat"):
                # (without categories the own default_category entries name nothing: by design no Scalar is built)
                return "%s: Scalar(value, unit) builds for every unit: impl=%s model=%s" % (kind, a, b)
        return None
    if c["op"] == "chistN":
        import C15

        return C15.agree(c, io, mo, ctx)
    if c["op"] == "chist":
        import C15

        return C15.agree(dict(c, _t=dict(ops=c["_t"]["cops"])), io, mo, ctx)
    if len(io["outs"]) != len(mo.get("outs", [])):
        return "length"
    for i, (op, a, b) in enumerate(zip(c["_t"]["ops"], io["outs"], mo["outs"])):
        why = rc.cmp_reg_out(a, b)
        if why:
            return "step %d %s: %s" % (i, _show_op(op), why)
    why = rc.cmp_snapshot(io["reg"], mo["reg"])
    if why:
        return "registry after the history: " + why
    for q, a, b in zip(c["_t"]["queries"], io["answers"], mo["answers"]):
        lim = io["limits"].get(q.get("c")) if q["q"] == "isValid" else None
        why = rc.cmp_answer(q, a, b, lim)
        if why:
            return "query %s: %s" % (q, why)
    return None


def nontrivial(c, io):
    if c["op"] == "shipped":
        return True
    outs = io["outs"]
    if c["op"] == "chistN":
        import C15

        return C15.nontrivial(c, io)
    if c["op"] == "chist":
        # a creation that failed before a registration and is attempted again after it
        return any("err" in o for o in outs) and any("err" not in o and "q" in op for op, o in zip(c["_t"]["cops"], outs))
    return any("err" not in o for o in outs) and (len(outs) == 1 or any("err" in o for o in outs)
                                                  or any(op["k"] == "cat" and op["kw"].get("override") for op in c["_t"]["ops"]))


# ------------------------------------------------------------------------------------ the property on the real code
def _check_history(ops):
    """Run a history on a fresh private database, checking C14 after every step.  Returns the first
    failure that is not the known finding (AddUnit into a type without base unit); if only that one
    occurs, returns it; None when the property holds throughout."""
    from barril.units.unit_database import UnitDatabase

    db = _new_db()
    based = set()
    known_only = None
    for i, op in enumerate(ops):
        UnitDatabase.PushSingleton(db)
        try:
            # units and categories are also tried before they are registered (failing lookups must not
            # prevent a later registration from making the unit usable)
            for q in _probe_queries(ops, i):
                rc.ask(db, q)
            before = rc.snapshot(db)
            o = rc.apply_reg(db, op)
        finally:
            UnitDatabase.PopSingleton()
        if "err" in o:
            if rc.snapshot(db) != before:
                return dict(clause="a rejected registration changed the registry", step=i, call=_show_op(op),
                            error=o["err"], history=[_show_op(x) for x in ops[: i + 1]])
            continue
        if op["k"] == "base":
            based.add(op["qt"])
        for g in rc.getters_pure(db) + rc.registry_invariant(db, based):
            f = dict(g)
            f.update(step=i, call=_show_op(op), history=[_show_op(x) for x in ops[: i + 1]])
            if not g.get("no_base_registered"):
                return f
            if known_only is None:
                known_only = f
    return known_only


def _check_family(ops, n):
    """C14 for `n` private databases alive at the same time, steps (registrations, lookups, creations; each carries
    the index `db` of the database it is addressed to) interleaved: after EVERY step every one of the databases must be
    well-formed and every unit / category registered in it must build a Scalar there - whatever the others were asked.
    (The probing builds Scalars itself, so each prefix of the history is replayed on new databases and probed at its end.)"""
    import C15
    from barril.units.unit_database import UnitDatabase

    shown = ["db%d: %s" % (o["db"], C15._show({k: v for k, v in o.items() if k != "db"})) for o in ops]
    known_only = None
    for upto in range(1, len(ops) + 1):
        dbs = [_new_db() for _ in range(n)]
        based = [set() for _ in range(n)]
        for step, op in enumerate(ops[:upto]):
            i = op["db"]
            op = {k: v for k, v in op.items() if k != "db"}
            last = step == upto - 1
            before = [rc.snapshot(d) for d in dbs] if last else None
            UnitDatabase.PushSingleton(dbs[i])
            try:
                o = rc.ask(dbs[i], op) if "q" in op else rc.apply_reg(dbs[i], op)
            finally:
                UnitDatabase.PopSingleton()
            if "q" not in op and "err" not in o and op["k"] == "base":
                based[i].add(op["qt"])
            if not last:
                continue
            if "q" not in op and "err" in o and rc.snapshot(dbs[i]) != before[i]:
                return dict(clause="a rejected registration changed the registry", step=step, call=shown[step],
                            error=o["err"], history=shown[: step + 1])
            for j in range(n):
                if j != i and rc.snapshot(dbs[j]) != before[j]:
                    return dict(clause="a call on one unit database changed the registry of another one", step=step,
                                call=shown[step], database=j, history=shown[: step + 1])
            # the databases the step was not addressed to first: the step must not have made them unusable
            for j in [k for k in range(n) if k != i] + [i]:
                for g in rc.registry_invariant(dbs[j], based[j]):
                    f = dict(g)
                    f.update(step=step, call=shown[step], database=j, history=shown[: step + 1])
                    if not g.get("no_base_registered"):
                        return f
                    if known_only is None:
                        known_only = f
    return known_only


def oracle(c, ctx):
    if c["op"] == "chistN":
        return _check_family(c["_t"]["ops"], c["_t"]["n"])
    if c["op"] == "shipped":
        for kind, db in _shipped_dbs():
            fails = rc.registry_invariant(db, None)
            if kind != "nocat":
                # the databases filled with categories: every unit builds a Scalar without naming a category
                fails += rc.default_scalars(db, require_default=True)[0]
            if fails:
                focus = set(c["_t"].get("focus") or [])
                f = dict(next((g for g in fails if g.get("unit") in focus), fails[0]))
                f["database"] = kind
                return f
        return None
    return _check_history(c["_t"]["ops"])


def table_candidates(ctx):
    """rows of the translated POSC table on which a table predicate of C14 is false (tried first when a table
    theorem no longer checks)"""
    d = ctx.data["posc"]
    cats = {c["name"]: c["qtype"] for c in d["cats"]}
    seen, bad = {}, []
    for r in d["units"]:
        dc = r["default_category"] or r["qtype"]
        if cats.get(dc) != r["qtype"] or r["sym"] in seen:
            bad.append(r["sym"])
        seen[r["sym"]] = r["qtype"]
    yield dict(op="shipped", _t=dict(tag="shipped", focus=bad[:50]))


def search(ctx):
    yield dict(op="shipped", _t=dict(tag="shipped"))
    yield from _none_cases(3)
    yield from _limit_cases(2)
    yield from _family_cases(ctx, "s", 2, 300)
    yield from _probed_cases(ctx, "s", 2, 300)
    yield from _exhaustive(3)
    yield from _random_histories(ctx, "s", 2000 if ctx.tier == "quick" else 20000, 30)


def shrink(case, failure, ctx):
    if case["op"] == "chistN":
        import C15

        ops, n = list(case["_t"]["ops"]), case["_t"]["n"]
        i, budget = 0, 60
        while i < len(ops) and budget > 0 and len(ops) > 1:
            trial = ops[:i] + ops[i + 1:]
            budget -= 1
            f = _check_family(trial, n)
            if f and not f.get("no_base_registered") and f["clause"] == failure["clause"]:
                ops, failure = trial, f
            else:
                i += 1
        return C15._family(ops, n, "shrunk"), failure
    if case["op"] not in ("reghist", "chist"):
        return case, failure
    ops = list(case["_t"]["ops"])
    i, budget = 0, 80
    while i < len(ops) and budget > 0 and len(ops) > 1:
        trial = ops[:i] + ops[i + 1:]
        budget -= 1
        f = _check_history(trial)
        if f and not f.get("no_base_registered") and f["clause"] == failure["clause"]:
            ops, failure = trial, f
        else:
            i += 1
    return _history(ops, tag="shrunk"), failure


def matches_known(entry, case, failure):
    """`C14-addunit-without-base`: the first-listed unit of a type that never received an AddUnitBase is
    not an identity."""
    if entry.get("matcher", {}).get("call_site") != "AddUnit on a quantity type without base unit":
        return False
    return failure.get("clause") == "first-listed (base) unit is not an identity" and bool(failure.get("no_base_registered"))


def replay_finding(entry, ctx):
    ops = []
    for h in entry["replay_case"]["history"]:
        if h[0] == "AddUnit":
            ops.append(dict(k="unit", qt=h[1], name=h[2], unit=h[3], fb=h[4], tb=h[5], dc=None))
        elif h[0] == "AddUnitBase":
            ops.append(dict(k="base", qt=h[1], name=h[2], unit=h[3]))
    f = _check_history(ops)
    return f if f and matches_known(entry, None, f) else None
