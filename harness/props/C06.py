"""C06 - named compound units agree with the composition of their parts.

Decided by: Barril/Props/C06.lean (`compound_rows_ok`: every row of the default database that the unit
grammar decomposes into registered units, or that is an SI-prefixed form of another row by symbol and
registered name, except exactly the rows recorded as known findings, has the factor its parts demand to
the written precision) over the generated `decide +kernel` table theorems `poscC_all_c06` / `poscC_core`.

Tie: the translator (rows regenerated from the live database on every run; the compact table is proved
equal to the full table row by row) + this correspondence: for every one of the 1548 rows the model's
reading / expected factor / tolerance / verdict are compared with (a) an independent Python reading of
the same grammar (harness/c06rule.py) over the same translated rows, exactly, and (b) the real code: the
row's factor through `UnitDatabase.Convert` and the composition through real `Scalar` arithmetic
(`*`, `/`, `**` on Scalars given in the component units), within the float bound.  A seeded stream of
well-formed and malformed symbol strings compares the two grammar parsers beyond the table."""
import math
from fractions import Fraction as F

import c06rule
import translate
from common import close, err_kind, exact, qparse, qstr, sym, unsym

ID = "C06"
LEAN_MODULES = ["Barril.Props.C06"]
DRIVERS = ["drv_compound"]
DRIVER_EXE = "drv_compound"
RULE = ("one case per row of the default database (all 1548, exhaustive): reading, expected factor, written "
        "precision and verdict of the rule, model vs independent Python reading vs the real code (Convert on "
        "floats, ndarrays, lists and tuples, asked through the quantity type and through every category of it, "
        "also via the category's default unit; Scalar arithmetic on parts pre-converted to base units and on parts left "
        "to the library's own unit matching); plus seeded symbol strings for the grammar (table symbols recombined with '.', '/', "
        "exponents, multipliers, and malformed ones); distinct = distinct symbol/string; non-trivial = the rule "
        "reads the row (compound or SI) / the string decomposes")
EXHAUSTIVE = {"quick": True, "thorough": True}
ASSUMPTIONS = [
    "written precision of a literal = one part in its decimal mantissa (mantissas below 100 and whole numbers below "
    "100000 exact), summed over "
    "the literals of the executed to-base formula; computed by the translator (harness/c06rule.py)",
    "real-code factors are floats: agreement with the exact model is checked within K*eps*M, not proved",
    "the SI reading needs the registered name to say prefix+base name (lower case, metre/meter, litre/liter, "
    "one plural s dropped)",
]


# ------------------------------------------------------------------------------------------------ setup
def setup(ctx):
    ctx.db = translate.build_db("posc")
    ctx.rows = {}
    ctx.base_of = {}
    for r in ctx.data["posc"]["units"]:
        p, q, rr, s = r["tobase"]
        ctx.rows[r["sym"]] = dict(qtype=r["qtype"], name=r["name"], slope=(q / rr if rr != 0 else F(0)),
                                  prec=r["prec"], ok=r["ok"])
        ctx.base_of.setdefault(r["qtype"], r["sym"])
    ctx.judged = c06rule.judge(ctx.rows, ctx.base_of)
    ctx.units = set(ctx.rows)
    ctx.notes["rows"] = len(ctx.rows)
    ctx.notes["covered_compound"] = sum(1 for v in ctx.judged.values() if v["kind"] == "compound")
    ctx.notes["covered_si"] = sum(1 for v in ctx.judged.values() if v["kind"] == "si")
    ctx.notes["failing_rows_python_rule"] = sorted(s for s, v in ctx.judged.items() if not v["ok"])


def _row_case(s):
    return dict(op="row", sym=str(sym(s)), _t=dict(s=s))


def _parse_case(text):
    return dict(op="parse", bytes=list(text.encode("utf8")), _t=dict(text=text))


def _strings(ctx, n, salt):
    rng = ctx.fresh_rng("C06" + salt)
    syms = sorted(ctx.units)
    atoms = [s for s in syms if "/" not in s and "." not in s]
    junk = ["", "1", "0", "12", "x", "m//s", "/", ".", "m..s", "m/", "/s", "1/", "1/1", "m.1", "m/s/s", "3", "m0", "m00",
            "007m", "m 2", "2 m", "ft3(std,60F)2", "1000", "1.m", "m.1/s"]
    for t in junk:
        yield t

    def factor():
        k = rng.random()
        a = rng.choice(atoms if k < 0.8 else syms)
        if k < 0.45:
            return a
        if k < 0.7:
            return a + str(rng.choice([1, 2, 3, 4, 6, 10, 0, 12]))
        if k < 0.85:
            return str(rng.choice([10, 100, 1000, 2, 0, 1])) + a
        if k < 0.92:
            return str(rng.choice([10, 1000])) + a + str(rng.choice([2, 3]))
        return rng.choice(["1", "zz", a + "x", a[:-1] if len(a) > 1 else "q", a.upper()])

    def side():
        return ".".join(factor() for _ in range(rng.choice([1, 1, 1, 2, 2, 3, 4])))

    for _ in range(n):
        k = rng.random()
        if k < 0.35:
            yield side()
        elif k < 0.9:
            yield (side() if rng.random() < 0.85 else "1") + "/" + side()
        else:
            yield side() + "/" + side() + "/" + side()


def cases(ctx):
    for s in ctx.rows:
        yield _row_case(s)
    n = 3000 if ctx.tier == "quick" else 60000
    seen = set()
    for t in _strings(ctx, n, "parse"):
        if t not in seen:
            seen.add(t)
            yield _parse_case(t)


def model_line(c):
    return {k: v for k, v in c.items() if k != "_t"}


def case_key(c):
    return model_line(c)


def show(c):
    return dict(op=c["op"], **c["_t"])


# ------------------------------------------------------------------------------------------------ real code
def _real_slope(db, u):
    """factor of unit u to the base unit of its quantity type, by the real conversion code"""
    info = db.unit_to_unit_info[u]
    qt = info.quantity_type
    base = db.quantity_types[qt][0].unit
    return float(db.Convert(qt, u, base, 1.0)) - float(db.Convert(qt, u, base, 0.0))


def _real_slope_nd(db, u):
    """the same factor through the ndarray branch of the conversion (Array-valued amounts in the named unit)"""
    import numpy

    info = db.unit_to_unit_info[u]
    qt = info.quantity_type
    base = db.quantity_types[qt][0].unit
    r = db.Convert(qt, u, base, numpy.array([1.0, 0.0]))
    return float(r[0]) - float(r[1])


def _real_slope_nd_int(db, u):
    """the same factor through the ndarray branch with integer dtypes (int64, int32): the conversion formulas must
    not be evaluated in the array's integer arithmetic.  Returns the factor that differs most from the float one."""
    import numpy

    info = db.unit_to_unit_info[u]
    qt = info.quantity_type
    base = db.quantity_types[qt][0].unit
    ref = _real_slope(db, u)
    worst = ref
    for dt in (numpy.int64, numpy.int32):
        for k in (1, 3000):
            r = db.Convert(qt, u, base, numpy.array([k, 0], dtype=dt))
            f = (float(r[0]) - float(r[1])) / k
            if abs(f - ref) > abs(worst - ref):
                worst = f
    return worst


def _real_slope_cat(db, u):
    """the same factor asked through every category of the unit's quantity type (a category name is accepted
    wherever a quantity type is) and through the list branch of the conversion; returns the factor that differs
    most from the quantity-type route, or None when the type has no category"""
    info = db.unit_to_unit_info[u]
    qt = info.quantity_type
    base = db.quantity_types[qt][0].unit
    ref = _real_slope(db, u)
    worst = None
    for name, ci in db.categories_to_quantity_types.items():
        if ci.quantity_type != qt:
            continue
        r = db.Convert(name, u, base, [1.0, 0.0])
        cands = [float(r[0]) - float(r[1])]
        d = ci.default_unit
        if d and d != base and d != u:
            # via the category's own default unit: u -> d asked through the category, d -> base through the type
            r = db.Convert(name, u, d, (1.0, 0.0))
            cands.append((float(r[0]) - float(r[1])) * _real_slope(db, d))
        for f in cands:
            if worst is None or abs(f - ref) > abs(worst - ref):
                worst = f
    return worst


def _scalar_in_base(db, u, amount):
    """a Scalar holding `amount` of unit u, re-expressed (as an increment) in the base unit of u's type"""
    from barril.units import Scalar

    info = db.unit_to_unit_info[u]
    base = db.quantity_types[info.quantity_type][0].unit
    cat = db.GetDefaultCategory(u) or info.quantity_type
    s = Scalar(float(amount), u, cat)
    z = Scalar(0.0, u, cat)
    return Scalar(s.GetValue(base) - z.GetValue(base), base, cat)


def _real_composed(db, kind, parts, use_pow=False):
    """the amount `1 named unit` obtained by multiplying/dividing real Scalars in the component units,
    as a number of coherent base units; powers of a component as n-fold products or, with use_pow, by the
    library's own `Scalar ** n`"""
    if kind == "si":
        base, ex = parts[0]
        return _scalar_in_base(db, base, 1.0).GetValue() * (10.0 ** ex)
    acc = None
    for u, e, p in parts:
        f = _scalar_in_base(db, u, float(p))
        if abs(e) != 1:
            if use_pow:
                f = f ** abs(e)
            else:
                g = f
                for _ in range(abs(e) - 1):
                    g = g * f
                f = g
        if acc is None:
            acc = f if e > 0 else (1.0 / f)
        else:
            acc = acc * f if e > 0 else acc / f
    return float(acc.GetValue())


def _real_power_route(db, kind, parts):
    """For a reading with a single factor u^e (`1/d`, `ft2`, `psi2`): the amount built from Scalars in the
    component unit ITSELF and then re-expressed in base units by the library's own conversion of one-unit
    derived quantities (the list-of-(unit, exponent) form).  None when the reading has another shape."""
    from barril.units import Scalar

    if kind != "compound" or len(parts) != 1 or parts[0][2] != 1:
        return None
    u, e, _p = parts[0]
    info = db.unit_to_unit_info[u]
    base = db.quantity_types[info.quantity_type][0].unit
    if base == u:
        return None
    if float(db.Convert(info.quantity_type, u, base, 0.0)) != 0.0:
        return None  # units with an offset have no power conversion
    cat = db.GetDefaultCategory(u) or info.quantity_type
    one = Scalar(1.0, u, cat)
    acc = one
    for _ in range(abs(e) - 1):
        acc = acc * one
    if e < 0:
        acc = 1.0 / acc
    return float(acc.GetValue([(base, e)]))


def _real_matched(db, kind, parts):
    """The amount `1 named unit` as a number of coherent base units, left to the library's own unit matching:
    A = the product of real Scalars in the component units THEMSELVES, B = the same product with one base unit
    per factor; A / B is dimensionless and its value is the factor (the matching of B's units to A's scales by
    each unit ratio raised to its exponent).  None for readings with an offset unit or of SI kind."""
    from barril.units import Scalar

    if kind != "compound":
        return None
    a = b = None
    for u, e, p in parts:
        info = db.unit_to_unit_info[u]
        qt = info.quantity_type
        base = db.quantity_types[qt][0].unit
        if float(db.Convert(qt, u, base, 0.0)) != 0.0:
            return None
        cat = db.GetDefaultCategory(u) or qt
        bcat = db.GetDefaultCategory(base) or qt
        for acc_is_a, f in ((True, Scalar(float(p), u, cat)), (False, Scalar(1.0, base, bcat))):
            g = f
            for _ in range(abs(e) - 1):
                g = g * f
            cur = a if acc_is_a else b
            if cur is None:
                cur = g if e > 0 else (1.0 / g)
            else:
                cur = cur * g if e > 0 else cur / g
            if acc_is_a:
                a = cur
            else:
                b = cur
    r = a / b
    if not isinstance(r, Scalar):
        return float(r)
    if r.GetUnit() not in ("", None):
        raise ValueError("A / B is not dimensionless: %r" % (r.GetUnit(),))
    return float(r.GetValue())


def _parts_json(kind, parts):
    if kind == "si":
        return dict(kind="si", base=parts[0][0], ex=parts[0][1])
    return dict(kind="compound", num=[[u, e, p] for u, e, p in parts if e > 0],
                den=[[u, -e, p] for u, e, p in parts if e < 0])


def impl(c, ctx):
    t = c["_t"]
    if c["op"] == "parse":
        comp = c06rule.decompose(t["text"], ctx.units)
        return dict(ok=None if comp is None else _parts_json("compound", comp))
    s = t["s"]
    j = ctx.judged.get(s)
    out = dict(slope=qstr(ctx.rows[s]["slope"]), prec=qstr(ctx.rows[s]["prec"]))
    try:
        out["real_slope"] = _real_slope(ctx.db, s).hex()
    except Exception as e:
        out["real_slope_err"] = err_kind(e)
    try:
        out["real_slope_nd"] = _real_slope_nd(ctx.db, s).hex()
    except Exception as e:
        out["real_slope_nd_err"] = err_kind(e)
    try:
        out["real_slope_nd_int"] = float(_real_slope_nd_int(ctx.db, s)).hex()
    except Exception as e:
        out["real_slope_nd_int_err"] = err_kind(e)
    try:
        f = _real_slope_cat(ctx.db, s)
        if f is not None:
            out["real_slope_cat"] = f.hex()
    except Exception as e:
        out["real_slope_cat_err"] = err_kind(e)
    if j is None:
        out["reading"] = None
        return dict(ok=out)
    out["reading"] = _parts_json(j["kind"], j["parts"])
    out["expected"] = qstr(j["expected"])
    out["tol"] = qstr(j["tol"])
    out["base_expected"] = qstr(j["base_expected"])
    out["ok"] = bool(j["ok"] and ctx.rows[s]["ok"])
    try:
        out["real_composed"] = float(_real_composed(ctx.db, j["kind"], j["parts"])).hex()
    except Exception as e:
        out["real_composed_err"] = "%s: %r" % (err_kind(e), e)
    if j["kind"] == "compound" and any(abs(e_) >= 2 for _u, e_, _p in j["parts"]):
        try:
            out["real_composed_pow"] = float(_real_composed(ctx.db, j["kind"], j["parts"], use_pow=True)).hex()
            ctx.notes["pow_composed_rows"] = ctx.notes.get("pow_composed_rows", 0) + 1
        except Exception as e:
            out["real_composed_pow_err"] = "%s: %r" % (err_kind(e), e)
    try:
        rm = _real_matched(ctx.db, j["kind"], j["parts"])
        if rm is not None:
            out["real_matched"] = float(rm).hex()
            ctx.notes["matched_rows"] = ctx.notes.get("matched_rows", 0) + 1
    except Exception as e:
        out["real_matched_err"] = "%s: %r" % (err_kind(e), e)
    try:
        pr = _real_power_route(ctx.db, j["kind"], j["parts"])
        if pr is not None:
            out["real_power_route"] = pr.hex()
            ctx.notes["power_route_rows"] = ctx.notes.get("power_route_rows", 0) + 1
    except Exception as e:
        out["real_power_route_err"] = "%s: %r" % (err_kind(e), e)
    return dict(ok=out)


def _model_reading(m):
    if m is None:
        return None
    if m["kind"] == "si":
        return dict(kind="si", base=unsym(int(m["base"])), ex=int(m["ex"]))
    return dict(kind="compound", num=[[unsym(int(u)), int(e), int(p)] for u, e, p in m["num"]],
                den=[[unsym(int(u)), int(e), int(p)] for u, e, p in m["den"]])


def agree(c, io, mo, ctx):
    if "err" in mo:
        return "model does not know the row: %s" % mo
    if c["op"] == "parse":
        return None if _model_reading(mo["ok"]) == io["ok"] else "grammar parsers differ: python %s, model %s" % (
            io["ok"], _model_reading(mo["ok"]))
    i, m = io["ok"], mo["ok"]
    if i["slope"] != m["slope"] and qparse(i["slope"]) != qparse(m["slope"]):
        return "slope differs"
    if qparse(i["prec"]) != qparse(m["prec"]):
        return "written precision differs"
    if _model_reading(m["reading"]) != i["reading"]:
        return "readings differ: python %s, model %s" % (i["reading"], _model_reading(m["reading"]))
    if "real_slope" in i:
        r = float.fromhex(i["real_slope"])
        if not close(r, qparse(m["slope"]), abs(qparse(m["slope"])) * 8) and \
                not _affine_slack(ctx, c["_t"]["s"], r, qparse(m["slope"])):
            return "real conversion factor %r is not the model's slope %s" % (r, float(qparse(m["slope"])))
    if "real_slope_nd" in i:
        r = float.fromhex(i["real_slope_nd"])
        if not close(r, qparse(m["slope"]), abs(qparse(m["slope"])) * 8) and \
                not _affine_slack(ctx, c["_t"]["s"], r, qparse(m["slope"])):
            return "real conversion factor through the ndarray branch %r is not the model's slope %s" % (r, float(qparse(m["slope"])))
    elif "real_slope_nd_err" in i and "real_slope" in i:
        return "the ndarray branch of the conversion raised: " + i["real_slope_nd_err"]
    if "real_slope_nd_int" in i:
        r = float.fromhex(i["real_slope_nd_int"])
        if not close(r, qparse(m["slope"]), abs(qparse(m["slope"])) * 8) and \
                not _affine_slack(ctx, c["_t"]["s"], r, qparse(m["slope"])):
            return "real conversion factor through the ndarray branch with an integer dtype %r is not the model's slope %s" % (r, float(qparse(m["slope"])))
    elif "real_slope_nd_int_err" in i and "real_slope" in i:
        return "the ndarray branch of the conversion raised on an integer array: " + i["real_slope_nd_int_err"]
    if "real_slope_cat" in i:
        r = float.fromhex(i["real_slope_cat"])
        if not close(r, qparse(m["slope"]), abs(qparse(m["slope"])) * 8) and \
                not _affine_slack(ctx, c["_t"]["s"], r, qparse(m["slope"])):
            return "real conversion factor asked through a category of the type %r is not the model's slope %s" % (r, float(qparse(m["slope"])))
    elif "real_slope_cat_err" in i and "real_slope" in i:
        return "the conversion asked through a category of the type raised: " + i["real_slope_cat_err"]
    if i["reading"] is None:
        return None
    for k in ("expected", "tol", "base_expected"):
        if m.get(k) is None or qparse(i[k]) != qparse(m[k]):
            return "%s differs: python %s, model %s" % (k, i[k], m.get(k))
    if bool(m["ok"]) != i["ok"]:
        return "verdicts differ: python %s, model %s" % (i["ok"], m["ok"])
    if "real_composed" in i:
        r = float.fromhex(i["real_composed"])
        e = qparse(m["expected"])
        if not close(r, e, abs(e) * 64):
            return "composition by real Scalar arithmetic %r is not the model's product %s" % (r, float(e))
    if "real_composed_pow" in i:
        r = float.fromhex(i["real_composed_pow"])
        e = qparse(m["expected"])
        if not close(r, e, abs(e) * 64):
            return "composition by real Scalar arithmetic with Scalar ** n %r is not the model's product %s" % (r, float(e))
    elif "real_composed_pow_err" in i and "real_composed" in i:
        return "composition with Scalar ** n raised: " + i["real_composed_pow_err"]
    if "real_matched" in i:
        r = float.fromhex(i["real_matched"])
        e = qparse(m["expected"])
        if not close(r, e, abs(e) * 256):
            return "composition left to the library's unit matching %r is not the model's product %s" % (r, float(e))
    elif "real_matched_err" in i and "real_composed" in i:
        return "composition left to the library's unit matching raised: " + i["real_matched_err"]
    elif "real_composed_err" in i:
        return "real Scalar composition raised: " + i["real_composed_err"]
    if "real_power_route" in i:
        r = float.fromhex(i["real_power_route"])
        e = qparse(m["expected"])
        if not close(r, e, abs(e) * 64):
            return "power of a component Scalar, converted by the library's derived conversion, is %r; the model's product is %s" % (r, float(e))
    elif "real_power_route_err" in i:
        return "derived conversion of a component power raised: " + i["real_power_route_err"]
    return None


def _affine_slack(ctx, s, real, slope):
    """units with an offset: the real slope is a difference of two floats near the offset; allow the rounding
    of that subtraction (absolute, relative to the offset)"""
    for r in ctx.data["posc"]["units"]:
        if r["sym"] == s:
            p, q, rr, _s = r["tobase"]
            off = abs(p / rr) if rr != 0 else F(0)
            return abs(exact(real) - slope) <= F(2) ** -44 * (off + abs(slope))
    return False


def nontrivial(c, io):
    if c["op"] == "parse":
        return io["ok"] is not None
    return io["ok"].get("reading") is not None


# ------------------------------------------------------------- the property itself, on the real code only
def oracle(c, ctx):
    if c["op"] != "row":
        return None
    s = c["_t"]["s"]
    rows, units = ctx.rows, ctx.units
    kind, parts = c06rule._reading(s, rows[s], rows, units)
    if kind is None:
        return None
    db = ctx.db
    try:
        named = _real_slope(db, s)
        named_nd = _real_slope_nd(db, s)
        if abs(named_nd - named) > 1e-9 * abs(named) + 1e-300:
            return dict(clause="an ndarray amount in the named unit converts with another factor than a float amount",
                        symbol=s, float_factor=named, ndarray_factor=named_nd)
        named_ndi = _real_slope_nd_int(db, s)
        if abs(named_ndi - named) > 1e-9 * abs(named) + 1e-300:
            return dict(clause="an integer ndarray amount in the named unit converts with another factor than a float "
                               "amount", symbol=s, float_factor=named, integer_ndarray_factor=named_ndi)
        named_cat = _real_slope_cat(db, s)
        if named_cat is not None and abs(named_cat - named) > 1e-9 * abs(named) + 1e-300:
            return dict(clause="the named unit converts with another factor when the conversion is asked through a "
                               "category of its quantity type", symbol=s, factor=named, through_category=named_cat)
        composed = _real_composed(db, kind, parts)
        tol = float(rows[s]["prec"] + c06rule._expected(kind, parts, rows)[1])
        b = ctx.base_of[rows[s]["qtype"]]
        bkind, bparts = c06rule._reading(b, rows[b], rows, units)
        bfac = 1.0
        if bkind == "compound":
            bfac = _real_composed(db, bkind, bparts)
            tol += float(c06rule._expected(bkind, bparts, rows)[1])
    except Exception as e:
        return dict(clause="the named unit or its parts cannot be used in Scalar arithmetic", symbol=s,
                    parts=_parts_json(kind, parts), error=repr(e))
    if not (math.isfinite(named) and math.isfinite(composed)) or composed == 0.0:
        return dict(clause="non-finite or zero factor", symbol=s, named=named, composed=composed)
    try:
        matched = _real_matched(db, kind, parts)
    except Exception as e:
        return dict(clause="the parts of the named unit cannot be combined by Scalar arithmetic with unit matching",
                    symbol=s, parts=_parts_json(kind, parts), error=repr(e))
    if matched is not None and not abs(matched - composed) <= 1e-9 * abs(composed):
        return dict(clause="composition of the parts depends on the route: pre-converted to base units vs left to "
                           "the library's unit matching", symbol=s, parts=_parts_json(kind, parts),
                    pre_converted=composed, matched=matched)
    if kind == "compound" and any(abs(e_) >= 2 for _u, e_, _p in parts):
        try:
            cp = _real_composed(db, kind, parts, use_pow=True)
        except Exception as e:
            return dict(clause="the parts of the named unit cannot be combined with Scalar ** n", symbol=s,
                        parts=_parts_json(kind, parts), error=repr(e))
        if not abs(cp - composed) <= 1e-9 * abs(composed):
            return dict(clause="composition of the parts depends on the route: n-fold product vs Scalar ** n",
                        symbol=s, parts=_parts_json(kind, parts), n_fold_product=composed, with_pow=cp)
    try:
        pr = _real_power_route(db, kind, parts)
    except Exception as e:
        return dict(clause="a power of the component unit cannot be converted to base units", symbol=s,
                    parts=_parts_json(kind, parts), error=repr(e))
    if pr is not None and abs(named * bfac - pr) / abs(pr) > tol + 1e-12:
        return dict(clause="named unit differs from the power of its component Scalar re-expressed in base units",
                    symbol=s, name=rows[s]["name"], parts=_parts_json(kind, parts), named_factor=named,
                    component_power_in_base_units=pr, written_precision=tol)
    dev = abs(named * bfac - composed) / abs(composed)
    if dev > tol + 1e-12:
        return dict(clause="factor of the named unit differs from the composition of its parts", symbol=s,
                    name=rows[s]["name"], parts=_parts_json(kind, parts), named_factor=named, base_factor=bfac,
                    composed_factor=composed, relative_deviation=dev, written_precision=tol)
    return None


def matches_known(entry, case, failure):
    return case.get("op") == "row" and entry.get("matcher", {}).get("symbol") == case["_t"]["s"]


def replay_finding(entry, ctx):
    s = entry.get("matcher", {}).get("symbol")
    if s not in ctx.rows:
        return None
    return oracle(_row_case(s), ctx)


def table_candidates(ctx):
    """rows on which the model's executable row predicate is false and that are not recorded findings"""
    import engine
    from common import dumps

    res, _ = engine.run_driver(DRIVER_EXE, [dumps(dict(op="badrows"))])
    out = [_row_case(unsym(int(s))) for s in res[0].get("rows", [])]
    ctx.notes["rows_failing_row_predicate"] = [c["_t"]["s"] for c in out]
    return [c for c in out if c["_t"]["s"] in ctx.rows]


def search(ctx):
    for s in ctx.rows:
        yield _row_case(s)
