"""C02 - all conversion routes agree and keep physical value, category and type.

Decided by: Barril/Props/C02.lean - for every public route a theorem `route = (map of) Db.convert`
over all values / all container lengths (induction on the containers), category and quantity type
kept by CreateCopy / ChangeScalars / ConvertScalarToCurrent, default-in-unit, own-unit unchanged
(simple and derived) - about the model Barril/Model/Routes.lean, which follows the Python function
by function.  Tie: this correspondence (every route, every modelled branch, real code vs model)."""
import math
from collections import OrderedDict

import numpy as np

import translate
from common import close, err_kind, exact, qparse, qstr, sym

ID = "C02"
LEAN_MODULES = ["Barril.Props.C02"]
DRIVERS = ["drv_routes"]
DRIVER_EXE = "drv_routes"
RULE = ("per database (posc, simple; nocat for UnitDatabase.Convert) and per quantity type a seeded sample of ordered "
        "unit pairs that always contains the base unit, every unit with an offset and one legacy spelling (thorough: "
        "every ordered pair); per pair a category sharing the type (always a non-default one when it exists) and "
        "every route: Scalar.GetValue, Quantity.ConvertScalarValue/Convert, UnitDatabase.Convert on "
        "float/int/list/tuple/ndarray and with (unit,exp) lists, Array.GetValues incl. tuple-of-tuples, CreateCopy, "
        "ChangeScalars, category default in a unit, IndexAsScalar, ChangingIndex, ConvertToCurrent, "
        "ConvertScalarToCurrent; containers of length 0-5; int64/int32 ndarrays with magnitudes beyond 2**63/coefficient "
        "from every unit with a coefficient >= 2**31; route SEQUENCES on one Array/FixedArray (a route with a foreign "
        "unit, the caller edits the returned container, further routes with the same / alternating units); the same "
        "numpy-backed object / caller-owned float64, float32 or int ndarray asked several times (offset units first); "
        "ALWAYS every (offset unit x smallest-step / largest-step / base / next offset unit) pair of every type, chosen by the "
        "shape of the formulas in the regenerated table, through every container route (list, tuple, ndarray, list of tuples, "
        "tuple of tuples; Array, FixedArray, Quantity.Convert, UnitDatabase.Convert, CreateCopy, the index and manager routes) "
        "on amounts from one step up to the size of the type's offsets; CreateCopy in every argument form {unit given/not} x "
        "{category not given / own / another of the same quantity type} x {Scalar, Array, FixedArray} x container kind (+ the "
        "empty quantity); HISTORIES on one UnitSystemManager (AddUnitSystem, convert with float/int/list/tuple/ndarray, "
        "SetDefaultUnit / RemoveCategory on the current or another system, SetCurrent to another system / back / None, "
        "RemoveUnitSystem, the same request again), every step compared; plus derived/empty quantities and a malformed stream; "
        "distinct = distinct model line; non-trivial = succeeded with from-unit != to-unit")
EXHAUSTIVE = {"quick": False, "thorough": False}
ASSUMPTIONS = [
    "float results stay within K*eps*M (K=64) of the exact model: checked on every run, not proved",
    "numpy applies the conversion closures element by element (ndarray path modelled as map)",
    "the quantity cache and the unit-validity memo are invisible (C07/C15): ObtainQuantity is modelled cache-free",
    "a UnitSystemManager is modelled by the part of its state the two routes read (unit systems' mappings, which one is "
    "current, the null unit system's mapping); template checks, callbacks and registered objects are C17's business",
    "exponent path (_ConvertWithExp, exponent != 1): modelled by the closed form sign(v)*k^e*|v| for offset-free "
    "units only; units with an offset (irrational intermediate root) and ndarray values are outside the model "
    "and are skipped by the correspondence of that one route",
    "a tuple item handed to a conversion closure raises TypeError (true for float coefficients; for a coefficient "
    "written as an int Python replicates the tuple first, so MemoryError/OverflowError is accepted there; the "
    "formulas of FillSimple are not exercised with nested tuples)",
]
KINDS = ("posc", "simple", "nocat")


# ----------------------------------------------------------------------------------------- setup
def setup(ctx):
    ctx.dbs = {k: translate.build_db(k) for k in KINDS}
    ctx.dbs["poscdef"] = translate.build_db("posc")  # categories get re-registered with other defaults
    ctx.cats_of_type, ctx.affine, ctx.legacy_of = {}, {}, {}
    legacy = list(ctx.data["consts"]["legacy"])
    for k in KINDS:
        db = ctx.dbs[k]
        m = {}
        for name, ci in db.categories_to_quantity_types.items():
            m.setdefault(ci.quantity_type, []).append(name)
        ctx.cats_of_type[k] = {qt: sorted(v) for qt, v in m.items()}
        ctx.affine[k] = {r["sym"] for r in ctx.data[k]["units"] if r["tobase"][0] != 0 or r["frombase"][0] != 0}
        from barril.units.unit_database import FixUnitIfIsLegacy
        lo = {}
        for infos in db.quantity_types.values():
            for i in infos:
                for old, new in legacy:
                    if new in i.unit:
                        cand = i.unit.replace(new, old, 1)
                        try:
                            ok, fixed = FixUnitIfIsLegacy(cand)
                        except Exception:
                            continue
                        if ok and fixed == i.unit and cand not in db.unit_to_unit_info:
                            lo.setdefault(i.unit, cand)
        ctx.legacy_of[k] = lo


# ----------------------------------------------------------------------------------------- encoding
def _n(x):
    return qstr(exact(x))


def _s(name):
    return None if name is None else str(sym(name))


def _enc_q(q):
    if q["k"] == "s":
        return dict(cat=_s(q["cat"]), unit=_s(q["unit"]))
    return dict(entries=[[_s(c), _s(u), int(e)] for c, u, e in q["entries"]])


def _enc_val(v):
    if v["k"] == "num":
        return dict(k="num", x=_n(v["x"]))
    if v["k"] == "nd":
        return dict(k="nd", xs=[_n(x) for x in v["xs"]])
    return dict(k=v["k"], es=[[_n(y) for y in e] if isinstance(e, list) else _n(e) for e in v["es"]])


def _enc_unitarg(a):
    if a["k"] == "str":
        return dict(k="str", u=_s(a["u"]))
    return dict(k=a["k"], es=[[_s(u), int(e)] for u, e in a["es"]])


def _enc_catarg(a):
    if a["k"] == "str":
        return dict(k="str", c=_s(a["c"]))
    return dict(k=a["k"], cs=[_s(c) for c in a["cs"]])


def model_line(c):
    t = c["_t"]
    op = c["op"]
    o = dict(op=op, db=("posc" if t["db"] == "poscdef" else t["db"]))
    if "q" in t:
        o["q"] = _enc_q(t["q"])
    if "val" in t:
        o["val"] = _enc_val(t["val"])
    if "x" in t:
        o["x"] = _n(t["x"])
    for k in ("unit", "to", "category", "c", "u", "def_unit"):
        if t.get(k) is not None:
            o[k] = _s(t[k])
    for k in ("value", "def_value"):
        if t.get(k) is not None:
            o[k] = _n(t[k])
    if op == "db_convert":
        o["cq"] = _enc_catarg(t["cq"])
        o["from"] = _enc_unitarg(t["from"])
        o["to"] = _enc_unitarg(t["to_arg"])
    if op == "change_scalars":
        o["owner"] = [dict(name=_s(a["name"]), q=_enc_q(a["q"]), x=_n(a["x"])) for a in t["owner"]]
        o["changes"] = [dict(name=_s(a["name"]), value=(None if a["value"] is None else _n(a["value"])), unit=_s(a["unit"]))
                        for a in t["changes"]]
    if op in ("index_as_scalar", "changing_index"):
        o["dim"] = int(t["dim"])
        o["index"] = int(t["index"])
    if op == "index_as_scalar" and t.get("quantity") is not None:
        o["quantity"] = _enc_q(t["quantity"])
    if op == "changing_index":
        nv = t["nv"]
        if nv["k"] == "number":
            o["nv"] = dict(k="number", x=_n(nv["x"]))
        elif nv["k"] == "scalar":
            o["nv"] = dict(k="scalar", q=_enc_q(nv["q"]), x=_n(nv["x"]))
        else:
            o["nv"] = dict(k="tuple", value=(None if nv["value"] is None else _n(nv["value"])), unit=_s(nv["unit"]),
                           category=_s(nv["category"]))
        o["use_value_unit"] = bool(t["use_value_unit"])
    if op in ("convert_to_current", "convert_scalar_to_current") and t.get("mapping") is not None:
        o["mapping"] = [[_s(a), _s(b)] for a, b in t["mapping"]]
    if op == "mgr_history":
        o["ops"] = [_enc_mgr_op(a) for a in t["ops"]]
    return o


def _enc_mgr_op(a):
    k = a["k"]
    if k == "add":
        return dict(k=k, id=_s(a["id"]), mapping=[[_s(c), _s(u)] for c, u in a["mapping"]])
    if k in ("remove", "set_current"):
        return dict(k=k, id=_s(a["id"]))
    if k == "set_default_unit":
        return dict(k=k, on=_s(a["on"]), c=_s(a["c"]), u=_s(a["u"]))
    if k == "remove_category":
        return dict(k=k, on=_s(a["on"]), c=_s(a["c"]))
    if k == "convert":
        return dict(k=k, c=_s(a["c"]), u=_s(a["u"]), val=_enc_val(a["val"]))
    return dict(k=k, q=_enc_q(a["q"]), x=_n(a["x"]))


def case_key(c):
    return dict(model_line(c), pre=c["_t"].get("pre"))


def show(c):
    return dict(op=c["op"], **c["_t"])


# ----------------------------------------------------------------------------------------- real objects
class _Pushed:
    def __init__(self, db):
        self.db = db

    def __enter__(self):
        from barril.units.unit_database import UnitDatabase
        UnitDatabase.PushSingleton(self.db)
        return self.db

    def __exit__(self, *a):
        from barril.units.unit_database import UnitDatabase
        UnitDatabase.PopSingleton()


def _mk_q(q):
    from barril.units import ObtainQuantity, Quantity
    if q["k"] == "s":
        return ObtainQuantity(q["unit"], q["cat"])
    return Quantity.CreateDerived(OrderedDict((c, [u, e]) for c, u, e in q["entries"]))


def _mk_val(v):
    if v["k"] == "num":
        return v["x"]
    if v["k"] == "nd":
        xs = v["xs"]
        if xs and all(isinstance(x, int) for x in xs):
            return np.array(xs, dtype=(np.int32 if v.get("dtype") == "int32" else np.int64))
        return np.array(xs, dtype=(np.float32 if v.get("dtype") == "float32" else float))
    items = [tuple(e) if isinstance(e, list) else e for e in v["es"]]
    return tuple(items) if v["k"] == "tuple" else items


def _mk_scalar(q, x):
    from barril.units import Scalar
    if q["k"] == "s":
        return Scalar(x, q["unit"], q["cat"])
    return Scalar(_mk_q(q), x)


def _mk_array(q, v):
    from barril.units import Array
    if q["k"] == "s":
        return Array(_mk_val(v), q["unit"], q["cat"])
    return Array(_mk_q(q), _mk_val(v))


def _mk_fixed(dim, q, v):
    from barril.units import FixedArray
    if q["k"] == "s":
        return FixedArray(dim, q["cat"], _mk_val(v), q["unit"])
    return FixedArray(dim, _mk_q(q), _mk_val(v))


def _mk_unitarg(a):
    if a["k"] == "str":
        return a["u"]
    es = [(u, e) for u, e in a["es"]]
    return tuple(es) if a["k"] == "tuple" else es


def _mk_catarg(a):
    if a["k"] == "str":
        return a["c"]
    return tuple(a["cs"]) if a["k"] == "tuple" else list(a["cs"])


def _mk_manager(mapping):
    from barril.units.unit_system_manager import UnitSystemManager
    m = UnitSystemManager()
    if mapping is not None:
        m.AddUnitSystem("s1", "S1", dict((a, b) for a, b in mapping))
    return m


class _Owner:
    pass


def _mgr_step(m, a, db):
    """one call of a manager history on the real manager `m`; state-changing calls answer with the mapping now current"""
    k = a["k"]
    extra = () if a.get("nodb") else (db,)      # without the argument the (pushed) singleton is used: the same database
    if k == "convert":
        return m.ConvertToCurrent(a["c"], a["u"], _mk_val(a["val"]), *extra)
    if k == "convert_scalar":
        return m.ConvertScalarToCurrent(_mk_scalar(a["q"], a["x"]), *extra)
    if k == "add":
        m.AddUnitSystem(a["id"], a["id"].upper(), dict((c, u) for c, u in a["mapping"]))
    elif k == "remove":
        m.RemoveUnitSystem(a["id"])
    elif k == "set_current":
        m.SetCurrent(None if a["id"] is None else m.GetUnitSystemById(a["id"]))
    else:
        system = m.GetCurrent() if a["on"] is None else m.GetUnitSystemById(a["on"])
        if k == "set_default_unit":
            system.SetDefaultUnit(a["c"], a["u"])
        else:
            system.RemoveCategory(a["c"])
    return dict(cur=sorted(m.GetCurrent().GetUnitsMapping().items()))


def _run_mgr(t, ctx):
    """a whole history on ONE new UnitSystemManager; per step ("ok", raw result) or ("err", exception)"""
    from barril.units.unit_system_manager import UnitSystemManager
    db = ctx.dbs[t["db"]]
    outs = []
    with _Pushed(db):
        m = UnitSystemManager()
        for a in t["ops"]:
            try:
                outs.append(("ok", a["k"], _mgr_step(m, a, db)))
            except Exception as e:
                outs.append(("err", a["k"], e))
    return outs


_NUM = (int, float, np.floating, np.integer)


def _hx(x):
    if isinstance(x, bool) or not isinstance(x, _NUM):
        raise TypeError("non-number in a result: %r" % (x,))
    return float(x).hex()


def _cv(r):
    if isinstance(r, np.ndarray):
        if r.ndim != 1:
            raise TypeError("ndarray result is not 1-d")
        return dict(k="nd", es=[_hx(x) for x in r.tolist()])
    if isinstance(r, (list, tuple)):
        return dict(k=("tuple" if isinstance(r, tuple) else "list"),
                    es=[[_hx(y) for y in e] if isinstance(e, tuple) else _hx(e) for e in r])
    return dict(k="num", x=_hx(r))


def _cs(s):
    return dict(cat=s.GetCategory(), qtype=s.GetQuantityType(), unit=s.GetUnit(), derived=bool(s.GetQuantity().IsDerived()),
                x=_hx(s.GetValue()))


def _mutate(r, how):
    """what a caller may do with a container it received from a route (it is a result, not the object's store)"""
    try:
        if isinstance(r, np.ndarray):
            if how == "set":
                r[0] = 12345.5
            elif how == "scale":
                r *= 3.0
            elif how == "fill":
                r.fill(-1.0)
        elif isinstance(r, list):
            if how == "set":
                r[0] = 12345.5
            elif how == "append":
                r.append(-1.0)
            elif how == "clear":
                r.clear()
            elif how == "sort":
                r.sort(reverse=True)
                r.pop()
    except Exception:
        pass


def _pre_step(obj, st):
    """one earlier route call on the same object; returns (result, the container the caller got hold of)"""
    if st["route"] == "getvalues":
        r = obj.GetValues(st["unit"])
        return r, r
    if st["route"] == "values_of_copy":
        cp = obj.CreateCopy(unit=st["unit"])
        return cp.GetValues(), cp.GetValues()
    from barril.units import ObtainQuantity
    return obj.IndexAsScalar(st["index"], ObtainQuantity(st["unit"], st["cat"])), None


def _apply_pre(obj, pre, on_result=None, call=None):
    """route SEQUENCES on one object: r1 with a foreign unit, the caller scribbles on what r1 returned, then the
    next route; the stored values are never touched (a container that IS the store is left alone)"""
    for k, st in enumerate(pre or []):
        r, container = call(st) if call is not None else _pre_step(obj, st)
        if on_result is not None:
            bad = on_result(k, st, r)
            if bad:
                return bad
        if container is not None and st.get("mutate") and container is not obj.GetValues():
            _mutate(container, st["mutate"])
    return None


def _run(c, ctx):
    """the real route; returns the raw Python result (exceptions propagate)"""
    from barril.units import ChangeScalars, Scalar
    t, op = c["_t"], c["op"]
    db = ctx.dbs[t["db"]]
    with _Pushed(db):
        if op == "scalar_getvalue":
            s = _mk_scalar(t["q"], t["x"])
            return s.GetValue(t["unit"]) if t.get("unit") is not None else s.GetValue()
        if op == "q_convert_scalar":
            return _mk_q(t["q"]).ConvertScalarValue(t["x"], t["to"])
        if op == "q_convert":
            q, val = _mk_q(t["q"]), _mk_val(t["val"])
            for st in t.get("pre") or []:
                q.Convert(val, st["unit"])          # the same caller-owned container is converted again
            return q.Convert(val, t["to"])
        if op == "db_convert":
            val = _mk_val(t["val"])
            for st in t.get("pre") or []:
                db.Convert(_mk_catarg(t["cq"]), _mk_unitarg(t["from"]), st["unit"], val)
            return db.Convert(_mk_catarg(t["cq"]), _mk_unitarg(t["from"]), _mk_unitarg(t["to_arg"]), val)
        if op == "array_getvalues":
            a = _mk_fixed(t["dim"], t["q"], t["val"]) if t.get("dim") else _mk_array(t["q"], t["val"])
            _apply_pre(a, t.get("pre"))
            return a.GetValues(t["unit"]) if t.get("unit") is not None else a.GetValues()
        if op == "create_copy":
            kw = {k: t[k] for k in ("value", "unit", "category") if t.get(k) is not None}
            return _mk_scalar(t["q"], t["x"]).CreateCopy(**kw)
        if op == "array_create_copy":
            kw = {k: t[k] for k in ("unit", "category") if t.get(k) is not None}
            a = _mk_fixed(t["dim"], t["q"], t["val"]) if t.get("dim") else _mk_array(t["q"], t["val"])
            _apply_pre(a, t.get("pre"))
            return a.CreateCopy(**kw)
        if op == "default_scalar":
            if t.get("def_unit") is not None:
                ci = db.GetCategoryInfo(t["c"])
                db.AddCategory(t["c"], ci.quantity_type, valid_units=ci.valid_units, override=True,
                               default_unit=t["def_unit"], default_value=t["def_value"], caption=ci.caption)
            return Scalar(t["c"], unit=t["unit"]) if t.get("unit") is not None else Scalar(t["c"])
        if op == "scalar_of_q":
            return Scalar(_mk_q(t["q"]))
        if op == "change_scalars":
            o = _Owner()
            for a in t["owner"]:
                setattr(o, a["name"], _mk_scalar(a["q"], a["x"]))
            ChangeScalars(o, **{a["name"]: (a["value"], a["unit"]) for a in t["changes"]})
            return [(a["name"], getattr(o, a["name"])) for a in t["owner"]]
        if op == "index_as_scalar":
            fa = _mk_fixed(t["dim"], t["q"], t["val"])
            _apply_pre(fa, t.get("pre"))
            if t.get("quantity") is not None:
                return fa.IndexAsScalar(t["index"], _mk_q(t["quantity"]))
            return fa.IndexAsScalar(t["index"])
        if op == "changing_index":
            fa = _mk_fixed(t["dim"], t["q"], t["val"])
            _apply_pre(fa, t.get("pre"))
            nv = t["nv"]
            if nv["k"] == "number":
                value = nv["x"]
            elif nv["k"] == "scalar":
                value = _mk_scalar(nv["q"], nv["x"])
            else:
                value = (nv["value"], nv["unit"]) if nv["category"] is None else (nv["value"], nv["unit"], nv["category"])
            return fa.ChangingIndex(t["index"], value, t["use_value_unit"])
        if op == "convert_to_current":
            return _mk_manager(t.get("mapping")).ConvertToCurrent(t["c"], t["u"], _mk_val(t["val"]), db)
        if op == "convert_scalar_to_current":
            return _mk_manager(t.get("mapping")).ConvertScalarToCurrent(_mk_scalar(t["q"], t["x"]), db)
        if op == "mgr_history":
            return _run_mgr(t, ctx)
    raise ValueError("unknown op %s" % op)


def _canon(c, r):
    op = c["op"]
    if op in ("scalar_getvalue", "q_convert_scalar"):
        return _hx(r)
    if op in ("q_convert", "db_convert", "array_getvalues"):
        return _cv(r)
    if op in ("create_copy", "default_scalar", "scalar_of_q", "index_as_scalar", "convert_scalar_to_current"):
        return _cs(r)
    if op == "array_create_copy":
        return dict(cat=r.GetCategory(), qtype=r.GetQuantityType(), unit=r.GetUnit(), val=_cv(r.GetValues()))
    if op == "change_scalars":
        return [dict(name=n, **_cs(s)) for n, s in r]
    if op == "changing_index":
        return dict(dim=r.dimension, cat=r.GetCategory(), qtype=r.GetQuantityType(), unit=r.GetUnit(), val=_cv(r.GetValues()))
    if op == "convert_to_current":
        return dict(val=_cv(r[0]), unit=r[1])
    if op == "mgr_history":
        out = []
        for tag, k, x in r:
            if tag == "err":
                out.append(dict(err=err_kind(x)))
            elif k == "convert":
                out.append(dict(ok=dict(val=_cv(x[0]), unit=x[1])))
            elif k == "convert_scalar":
                out.append(dict(ok=_cs(x)))
            else:
                out.append(dict(ok=dict(cur=[[a, b] for a, b in x["cur"]])))
        return out
    raise ValueError(op)


def impl(c, ctx):
    try:
        r = _run(c, ctx)
    except Exception as e:
        return dict(err=err_kind(e))
    try:
        return dict(ok=_canon(c, r))
    except Exception as e:
        return dict(err="other", detail="uncanonical result: %r" % (e,))


# ----------------------------------------------------------------------------------------- comparison
_KTOL = [64]     # 64 for doubles; a float32 ndarray is computed in single precision (eps 2**-24)


def _set_tol(c):
    f32 = (c["_t"].get("val") or {}).get("dtype") == "float32"
    _KTOL[0] = 64 * 2 ** 29 if f32 else 64
    _REL[0] = 1e-5 if f32 else 1e-9


def _num_agree(rh, ym):
    r = float.fromhex(rh)
    y, m = qparse(ym[0]), qparse(ym[1])
    if r != r or r in (math.inf, -math.inf):
        return "non-finite result %r" % r
    if m == 0:
        # (an int64 beyond 2**53 handed through unchanged is read back as the nearest double)
        return None if (exact(r) == y or r == float(y)) else "value %r should be exactly %s (handed through unchanged)" % (r, float(y))
    return None if close(r, y, m, _KTOL[0]) else "float %r is not within K*eps*M of the exact %s" % (r, float(y))


def _val_agree(iv, mv):
    if iv["k"] != mv["k"]:
        return "container kinds differ: impl %s model %s" % (iv["k"], mv["k"])
    if iv["k"] == "num":
        return _num_agree(iv["x"], mv["x"])
    if len(iv["es"]) != len(mv["es"]):
        return "lengths differ: impl %d model %d" % (len(iv["es"]), len(mv["es"]))
    for a, b in zip(iv["es"], mv["es"]):
        a_t = isinstance(a, list)
        b_t = not (len(b) == 2 and isinstance(b[0], str))   # a [y, M] pair of strings is a number
        if a_t != b_t:
            return "item shapes differ (number vs tuple)"
        if not a_t:
            w = _num_agree(a, b)
            if w:
                return w
            continue
        if len(a) != len(b):
            return "inner tuple lengths differ"
        for x, y in zip(a, b):
            w = _num_agree(x, y)
            if w:
                return w
    return None


def _scalar_agree(i, m):
    for k in ("cat", "qtype", "unit"):
        if str(sym(i[k])) != m[k]:
            return "%s differs: impl %r" % (k, i[k])
    if "derived" in i and "derived" in m and bool(i["derived"]) != bool(m["derived"]):
        return "derived flag differs"
    return _num_agree(i["x"], m["x"])


def agree(c, io, mo, ctx):
    _set_tol(c)
    if mo.get("outside"):
        return None  # outside the model (stated in ASSUMPTIONS); counted separately
    if "err" in io or "err" in mo:
        if ("err" in io) != ("err" in mo):
            return "one side fails: impl=%s model=%s" % (str(io)[:200], str(mo)[:200])
        if io["err"] == mo["err"]:
            return None
        t = c["_t"]
        if (mo["err"] == "type" and io["err"] == "other" and "val" in t
                and any(isinstance(e, list) for e in t["val"].get("es", []))):
            # a tuple item handed to a closure whose coefficient is written as an int (e.g. 6894757000*x) is
            # replicated instead of rejected: MemoryError/OverflowError instead of TypeError (malformed input)
            return None
        return "error kinds differ: impl %s model %s" % (io["err"], mo["err"])
    i, m, op = io["ok"], mo["ok"], c["op"]
    if op in ("scalar_getvalue", "q_convert_scalar"):
        return _num_agree(i, m)
    if op in ("q_convert", "db_convert", "array_getvalues"):
        return _val_agree(i, m)
    if op in ("create_copy", "default_scalar", "scalar_of_q", "index_as_scalar", "convert_scalar_to_current"):
        return _scalar_agree(i, m)
    if op == "array_create_copy":
        for k in ("cat", "qtype", "unit"):
            if str(sym(i[k])) != m[k]:
                return "%s differs: impl %r" % (k, i[k])
        return _val_agree(i["val"], m["val"])
    if op == "change_scalars":
        if len(i) != len(m):
            return "owner sizes differ"
        for a, b in zip(i, m):
            if str(sym(a["name"])) != b["name"]:
                return "attribute order differs"
            w = _scalar_agree(a, b)
            if w:
                return w
        return None
    if op == "changing_index":
        if i["dim"] != m["dim"]:
            return "dimension differs"
        for k in ("cat", "qtype", "unit"):
            if str(sym(i[k])) != m[k]:
                return "%s differs: impl %r" % (k, i[k])
        return _val_agree(i["val"], m["val"])
    if op == "convert_to_current":
        if str(sym(i["unit"])) != m["unit"]:
            return "target unit differs"
        return _val_agree(i["val"], m["val"])
    if op == "mgr_history":
        if len(i) != len(m):
            return "history lengths differ"
        for n, (a, b, st) in enumerate(zip(i, m, c["_t"]["ops"])):
            where = "step %d (%s): " % (n + 1, st["k"])
            if "err" in a or "err" in b:
                if a.get("err") != b.get("err"):
                    return where + "one side fails / error kinds differ: impl=%s model=%s" % (str(a)[:120], str(b)[:120])
                continue
            a, b = a["ok"], b["ok"]
            if st["k"] == "convert":
                if str(sym(a["unit"])) != b["unit"]:
                    return where + "target unit differs: impl %r" % (a["unit"],)
                w = _val_agree(a["val"], b["val"])
            elif st["k"] == "convert_scalar":
                w = _scalar_agree(a, b)
            else:
                w = None if sorted((str(sym(x)), str(sym(y))) for x, y in a["cur"]) == sorted((x, y) for x, y in b["cur"]) \
                    else "current units mapping differs: impl %s" % (a["cur"],)
            if w:
                return where + w
        return None
    return "unknown op"


def nontrivial(c, io):
    if "ok" not in io:
        return False
    t = c["_t"]
    return bool(t.get("_nt", True))


# ----------------------------------------------------------------------------------------- generators
def _values(db, qt, u, rng, n, ints=True):
    pool = [0.0, 1.0, -1.0, 10.0 ** rng.uniform(-9, 9) * rng.choice((1, -1)), rng.uniform(-1000, 1000),
            rng.uniform(-10, 10)]
    if ints:
        pool += [7, -3]
    try:
        base = db.quantity_types[qt][0].unit
        z = db.Convert(qt, base, u, 0.0)
        if z != 0.0 and math.isfinite(z):
            pool += [z, math.nextafter(z, math.inf)]
    except Exception:
        pass
    return [rng.choice(pool) for _ in range(n)]


def _int_items(xs, rng):
    """an integer ndarray (int64): the numbers of `xs` truncated, plus a large magnitude now and then (a table
    coefficient written as a Python int would wrap around in int64: repaired defect 43dda34)"""
    out = [int(max(-2.0 ** 62, min(2.0 ** 62, y))) for y in xs]
    if out and rng.random() < 0.6:
        out[rng.randrange(len(out))] = rng.choice((1, -1)) * 10 ** rng.randrange(3, 18) + rng.randrange(0, 1000)
    return out


def _flat(kind, xs):
    if kind == "nd":
        return dict(k="nd", xs=[x for x in xs])
    return dict(k=kind, es=list(xs))


def _nested(kind, xss):
    return dict(k=kind, es=[list(xs) for xs in xss])


def _sq(cat, unit):
    return dict(k="s", cat=cat, unit=unit)


def _case(op, **t):
    return dict(op=op, _t=t)


def _pick_pairs(ctx, kind, qt, rng, npairs, all_pairs):
    db = ctx.dbs[kind]
    units = [i.unit for i in db.quantity_types[qt]]
    if all_pairs:
        pairs = [(u, v) for u in units for v in units]
    else:
        base = units[0]
        aff = sorted(u for u in units if u in ctx.affine[kind])
        pairs = []
        others = [u for u in units if u != base]
        if others:
            o = rng.choice(others)
            pairs += [(base, o), (o, base)]
        for a in aff:
            b = rng.choice([u for u in units if u != a] or [a])
            pairs += [(a, b), (b, a)]
        for _ in range(npairs):
            pairs.append((rng.choice(units), rng.choice(units)))
        pairs.append((base, base))
    # one legacy spelling on either side
    leg = sorted(u for u in units if u in ctx.legacy_of[kind])
    if leg:
        lu = rng.choice(leg)
        o = rng.choice(units)
        pairs += [(ctx.legacy_of[kind][lu], o), (o, ctx.legacy_of[kind][lu])]
    return pairs


def _cat_for(ctx, kind, qt, rng):
    cats = ctx.cats_of_type[kind].get(qt, [])
    nd = [c for c in cats if c != qt]
    if nd and rng.random() < 0.7:
        return rng.choice(nd)
    return rng.choice(cats) if cats else None


ROUTES = ("scalar_getvalue", "q_convert_scalar", "q_convert", "db_convert", "db_convert_exp", "array_getvalues",
          "array_tuples", "create_copy", "array_create_copy", "default_scalar", "change_scalars", "index_as_scalar",
          "changing_index", "convert_to_current", "convert_scalar_to_current")


def _route_cases(ctx, kind, qt, c, u, v, rng, routes, force=None):
    """the cases of the listed routes for one (database, type, category, from-unit, to-unit); `force` = the numbers to
    use (the unit-shape stream chooses the magnitudes itself)"""
    db = ctx.dbs[kind]
    cats = ctx.cats_of_type[kind].get(qt, [])
    c2 = rng.choice(cats) if cats else None
    nt = u != v
    L = rng.randrange(0, 6)
    xs = _values(db, qt, u, rng, L)
    x = _values(db, qt, u, rng, 1)[0]
    if force:
        xs, x, L = list(force), rng.choice(force), len(force)
    fk = rng.choice(("list", "tuple", "nd"))
    for r in routes:
        if r == "db_convert":
            cq = rng.choice([qt] + ([c] if c else []))
            for val in (dict(k="num", x=x), dict(k="num", x=rng.choice((7, -2, 0, 12))), _flat("list", xs), _flat("tuple", xs),
                        _flat("nd", [float(y) for y in xs] if rng.random() < 0.7 else _int_items(xs, rng))):
                yield _case("db_convert", db=kind, cq=dict(k="str", c=cq), to_arg=dict(k="str", u=v), val=val, _nt=nt,
                            **{"from": dict(k="str", u=u)})
            continue
        if r == "db_convert_exp":
            cq = rng.choice([qt] + ([c] if c else []))
            e = rng.choice((1, 1, 2, -1, 3, -2, 2))
            fa = dict(k=rng.choice(("list", "tuple")), es=[[u, e]])
            ta = rng.choice([dict(k=rng.choice(("list", "tuple")), es=[[v, e]]), dict(k="str", u=v)])
            cqa = rng.choice([dict(k="str", c=cq), dict(k="list", cs=[cq]), dict(k="tuple", cs=[cq])])
            val = rng.choice([dict(k="num", x=x), dict(k="num", x=x), _flat(fk, xs)])
            yield _case("db_convert", db=kind, cq=cqa, to_arg=ta, val=val, _nt=nt, **{"from": fa})
            continue
        if c is None:
            continue  # the object routes need a category
        q = _sq(c, u)
        if r == "scalar_getvalue":
            yield _case(r, db=kind, q=q, x=x, unit=v, _nt=nt)
            if rng.random() < 0.15:
                yield _case(r, db=kind, q=q, x=x, unit=None, _nt=False)
        elif r == "q_convert_scalar":
            yield _case(r, db=kind, q=q, x=x, to=v, _nt=nt)
        elif r == "q_convert":
            yield _case(r, db=kind, q=q, val=dict(k="num", x=x), to=v, _nt=nt)
            yield _case(r, db=kind, q=q, val=_flat(fk, xs), to=v, _nt=nt)
            if force:
                for k in ("list", "tuple", "nd"):
                    if k != fk:
                        yield _case(r, db=kind, q=q, val=_flat(k, xs), to=v, _nt=nt)
        elif r == "array_getvalues":
            for k in ("list", "tuple", "nd"):
                yield _case(r, db=kind, q=q, val=_flat(k, xs), unit=v, _nt=nt)
                if force and len(xs) >= 2:
                    yield _case(r, db=kind, q=q, dim=len(xs), val=_flat(k, xs), unit=v, _nt=nt)
        elif r == "array_tuples":
            n_out = rng.randrange(1, 4)
            xss = [_values(db, qt, u, rng, rng.randrange(0, 4)) for _ in range(n_out)]
            if force:
                xss = [list(force[:2]), list(force[2:])]
                yield _case("array_getvalues", db=kind, q=q, val=_nested("tuple", xss), unit=v, _nt=nt)
                yield _case("array_create_copy", db=kind, q=q, val=_nested("list", xss), unit=v, category=None, _nt=nt)
                yield _case("array_getvalues", db=kind, q=q, dim=2, val=_nested("list", [list(force[:2]), list(force[1:3])]), unit=v, _nt=nt)
                yield _case("array_getvalues", db=kind, q=q, val=_nested("list", xss), unit=v, _nt=nt)
                continue
            yield _case("array_getvalues", db=kind, q=q, val=_nested(rng.choice(("list", "tuple")), xss), unit=v, _nt=nt)
        elif r == "create_copy":
            yield _case(r, db=kind, q=q, x=x, value=None, unit=v, category=None, _nt=nt)
            z = rng.random()
            if z < 0.2:
                yield _case(r, db=kind, q=q, x=x, value=None, unit=v, category=c2, _nt=nt)
            elif z < 0.3:
                yield _case(r, db=kind, q=q, x=x, value=rng.uniform(-5, 5), unit=v, category=None, _nt=nt)
            elif z < 0.35:
                yield _case(r, db=kind, q=q, x=x, value=None, unit=None, category=None, _nt=False)
        elif r == "array_create_copy":
            yield _case(r, db=kind, q=q, val=_flat(fk, xs), unit=v, category=None, _nt=nt)
            if force:
                for k in ("list", "tuple", "nd"):
                    if k != fk:
                        yield _case(r, db=kind, q=q, val=_flat(k, xs), unit=v, category=None, _nt=nt)
                if len(xs) >= 2:
                    yield _case(r, db=kind, q=q, dim=len(xs), val=_flat(fk, xs), unit=v, category=None, _nt=nt)
        elif r == "default_scalar":
            yield _case(r, db=kind, c=c, unit=v, _nt=True)
            if rng.random() < 0.3:
                yield _case("scalar_of_q", db=kind, q=q, _nt=False)
            if kind == "posc":
                yield _case(r, db="poscdef", c=c, unit=v, def_unit=u if u in db.unit_to_unit_info else db.quantity_types[qt][0].unit,
                            def_value=float(rng.choice((12.5, -3.0, 1000.0, 0.25, rng.uniform(-50, 50)))), _nt=True)
        elif r == "change_scalars":
            owner = [dict(name="alpha", q=q, x=x)]
            changes = [dict(name="alpha", value=None, unit=v)]
            if rng.random() < 0.5:
                owner.append(dict(name="beta", q=_sq(c2, v), x=float(rng.uniform(-9, 9))))
                changes.append(dict(name="beta", value=rng.choice((None, 2.5)), unit=rng.choice((u, None))))
                if rng.random() < 0.5:
                    changes.reverse()
            yield _case(r, db=kind, owner=owner, changes=changes, _nt=nt)
        elif r == "index_as_scalar":
            n = rng.randrange(2, 6)
            ys = _values(db, qt, u, rng, n)
            if force and len(force) >= 2:
                n, ys = len(force), list(force)
            idx = rng.randrange(-n, n)
            yield _case(r, db=kind, dim=n, q=q, val=_flat(fk, ys), index=idx, quantity=_sq(c2, v), _nt=nt)
            if rng.random() < 0.2:
                yield _case(r, db=kind, dim=n, q=q, val=_flat(fk, ys), index=idx, quantity=None, _nt=False)
        elif r == "changing_index":
            n = rng.randrange(2, 6)
            ys = _values(db, qt, u, rng, n)
            if force and len(force) >= 2:
                n, ys = len(force), list(force)
            idx = rng.randrange(-n, n)
            z = rng.random()
            if z < 0.5:
                nv = dict(k="scalar", q=_sq(c2, v), x=float(rng.uniform(-100, 100)))
            elif z < 0.8:
                nv = dict(k="tuple", value=rng.choice((None, 4.5)), unit=v, category=rng.choice((None, c2)))
            else:
                nv = dict(k="number", x=rng.choice((2.5, 3)))
            yield _case(r, db=kind, dim=n, q=q, val=_flat(fk, ys), index=idx, nv=nv, use_value_unit=rng.random() < 0.75, _nt=nt)
        elif r == "convert_to_current":
            val = rng.choice([dict(k="num", x=x), _flat(rng.choice(("list", "tuple")), xs)])
            if force:
                for val2 in (dict(k="num", x=x), _flat("list", xs), _flat("tuple", xs), _flat("nd", [float(y) for y in xs])):
                    yield _case(r, db=kind, mapping=[[c, v]], c=c, u=u, val=val2, _nt=nt)
                continue
            mapping = rng.choice([[[c, v]], ([[c, v], [c2, u]] if c2 != c else [[c, v]]), [[c2 + "_x", v]], None])
            yield _case(r, db=kind, mapping=mapping, c=c, u=u, val=val, _nt=nt)
        elif r == "convert_scalar_to_current":
            mapping = rng.choice([[[c, v]], [[c, v]], [[qt, v]], None])
            yield _case(r, db=kind, mapping=mapping, q=q, x=x, _nt=nt)


def _main_stream(ctx, salt, npairs, all_pairs, routes_per_pair):
    rng = ctx.fresh_rng("C02" + salt)
    for kind in KINDS:
        db = ctx.dbs[kind]
        for qt in db.quantity_types:
            for (u, v) in _pick_pairs(ctx, kind, qt, rng, npairs, all_pairs and kind != "nocat"):
                c = _cat_for(ctx, kind, qt, rng)
                routes = ROUTES if routes_per_pair is None else rng.sample(ROUTES, routes_per_pair)
                if kind == "nocat":
                    routes = [r for r in routes if r.startswith("db_convert")]
                yield from _route_cases(ctx, kind, qt, c, u, v, rng, routes)


def _derived_stream(ctx, salt, n):
    """derived and empty quantities: own unit unchanged, other units rejected the way the code rejects them"""
    rng = ctx.fresh_rng("C02der" + salt)
    db = ctx.dbs["posc"]
    qts = sorted(qt for qt in db.quantity_types if ctx.cats_of_type["posc"].get(qt))
    from barril.units import Quantity
    for _ in range(n):
        k = rng.choice((0, 1, 1, 2, 2, 3))
        entries, used = [], set()
        for _j in range(k):
            qt = rng.choice(qts)
            cat = rng.choice(ctx.cats_of_type["posc"][qt])
            if cat in used:
                continue
            used.add(cat)
            entries.append([cat, rng.choice([i.unit for i in db.quantity_types[qt]]), rng.choice((1, 1, 2, -1, -2, 3))])
        q = dict(k="d", entries=entries)
        own = None
        with _Pushed(db):
            try:
                own = _mk_q(q).GetUnit()
            except Exception:
                pass
        other = rng.choice([own, own, "m", "m2", "kg/s", entries[0][1] if entries else "s", "nope", "1000ft3", "lbmole", "gmole/foo"])
        x = float(rng.uniform(-100, 100))
        xs = [float(rng.uniform(-9, 9)) for _ in range(rng.randrange(0, 5))]
        fk = rng.choice(("list", "tuple", "nd"))
        yield _case("scalar_getvalue", db="posc", q=q, x=x, unit=other, _nt=False)
        yield _case("q_convert_scalar", db="posc", q=q, x=x, to=other if other is not None else "m", _nt=False)
        yield _case("array_getvalues", db="posc", q=q, val=_flat(fk, xs), unit=other, _nt=False)
        yield _case("q_convert", db="posc", q=q, val=_flat(fk, xs), to=other if other is not None else "m", _nt=False)
        yield _case("create_copy", db="posc", q=q, x=x, value=None, unit=rng.choice((None, other)), category=None, _nt=False)
        yield _case("scalar_of_q", db="posc", q=q, _nt=False)
        yield _case("convert_scalar_to_current", db="posc", mapping=[["length", "cm"]], q=q, x=x, _nt=False)
        if len(xs) >= 2:
            yield _case("index_as_scalar", db="posc", dim=len(xs), q=q, val=_flat(fk, xs), index=rng.randrange(-len(xs), len(xs)),
                        quantity=None, _nt=False)
            yield _case("changing_index", db="posc", dim=len(xs), q=q, val=_flat(fk, xs), index=rng.randrange(-len(xs), len(xs)),
                        nv=dict(k="number", x=1.5), use_value_unit=rng.random() < 0.5, _nt=False)


def _malformed_stream(ctx, salt, n):
    rng = ctx.fresh_rng("C02bad" + salt)
    db = ctx.dbs["posc"]
    qts = sorted(db.quantity_types)
    allu = sorted(db.unit_to_unit_info)
    allc = sorted(db.categories_to_quantity_types)
    for _ in range(n):
        qt = rng.choice(qts)
        units = [i.unit for i in db.quantity_types[qt]]
        u = rng.choice(units)
        bad_v = rng.choice(allu + ["nope", ""])
        v_ok = rng.choice(units)
        c = rng.choice(ctx.cats_of_type["posc"].get(qt) or allc)
        bad_c = rng.choice(allc + ["no such category"])
        x = float(rng.uniform(-10, 10))
        xs = [float(rng.uniform(-9, 9)) for _ in range(rng.randrange(0, 4))]
        z = rng.randrange(12)
        if z == 0:
            yield _case("scalar_getvalue", db="posc", q=_sq(c, u), x=x, unit=bad_v, _nt=False)
        elif z == 1:
            yield _case("scalar_getvalue", db="posc", q=_sq(bad_c, u), x=x, unit=v_ok, _nt=False)
        elif z == 2:
            yield _case("db_convert", db="posc", cq=dict(k=rng.choice(("list", "tuple")), cs=[qt] * rng.choice((0, 1, 2))),
                        to_arg=dict(k="str", u=v_ok), val=dict(k="num", x=x), _nt=False, **{"from": dict(k="str", u=u)})
        elif z == 3:
            n1, n2 = rng.choice(((0, 1), (1, 0), (2, 1), (1, 2), (2, 2), (0, 0)))
            yield _case("db_convert", db="posc", cq=dict(k="str", c=qt), to_arg=dict(k="list", es=[[v_ok, 1]] * n2), val=dict(k="num", x=x),
                        _nt=False, **{"from": dict(k="list", es=[[u, 1]] * n1)})
        elif z == 4:
            e1, e2 = rng.choice(((1, 2), (2, 1), (2, 3), (0, 0), (-1, -1), (2, 2)))
            yield _case("db_convert", db="posc", cq=dict(k="str", c=qt), to_arg=dict(k="list", es=[[v_ok, e2]]),
                        val=rng.choice([dict(k="num", x=rng.choice((x, 0.0, 0))), _flat(rng.choice(("list", "tuple")), xs)]),
                        _nt=False, **{"from": dict(k="list", es=[[u, e1]])})
        elif z == 5:
            es = [rng.choice((y, [y, y])) for y in xs] or [[1.0]]
            yield _case("db_convert", db="posc", cq=dict(k="str", c=qt), to_arg=dict(k="str", u=v_ok), val=dict(k=rng.choice(("list", "tuple")), es=es),
                        _nt=False, **{"from": dict(k="str", u=u)})
        elif z == 6:
            es = [rng.choice((y, [y, y])) for y in xs]
            yield _case("array_getvalues", db="posc", q=_sq(c, u), val=dict(k=rng.choice(("list", "tuple")), es=es), unit=rng.choice((v_ok, bad_v)), _nt=False)
        elif z == 7:
            yield _case("create_copy", db="posc", q=_sq(c, u), x=x, value=None, unit=rng.choice((None, bad_v, v_ok)), category=rng.choice((bad_c, c)), _nt=False)
        elif z == 8:
            n_ = max(2, len(xs))
            ys = (xs + [1.0, 2.0])[:n_]
            yield _case("index_as_scalar", db="posc", dim=n_, q=_sq(c, u), val=_flat(rng.choice(("list", "tuple", "nd")), ys),
                        index=rng.choice((n_, -n_ - 1, 0, n_ + 3)), quantity=rng.choice((None, _sq(bad_c, bad_v), _sq(c, v_ok))), _nt=False)
        elif z == 9:
            n_ = max(2, len(xs))
            ys = (xs + [1.0, 2.0])[:n_]
            yield _case("changing_index", db="posc", dim=n_, q=_sq(c, u), val=_flat(rng.choice(("list", "tuple", "nd")), ys),
                        index=rng.choice((n_, -n_ - 1, 0, -1)), nv=rng.choice([dict(k="scalar", q=_sq(bad_c, bad_v), x=1.0),
                                                                              dict(k="tuple", value=None, unit=bad_v, category=None),
                                                                              dict(k="number", x=2.0)]),
                        use_value_unit=rng.random() < 0.5, _nt=False)
        elif z == 10:
            yield _case("default_scalar", db="posc", c=bad_c, unit=rng.choice((None, bad_v, v_ok)), _nt=False)
        else:
            yield _case("change_scalars", db="posc", owner=[dict(name="alpha", q=_sq(c, u), x=x)],
                        changes=[dict(name=rng.choice(("alpha", "gamma")), value=None, unit=bad_v)], _nt=False)


def _int_array_stream(ctx, salt, per_row):
    """integer ndarrays (int64 and int32) through every route that takes an ndarray, from every unit whose formulas
    hold a coefficient >= 2**31 ('Ma', 'kpsi2', 'tcf', ...) with magnitudes beyond 2**63/coefficient, and from
    seeded other units with large magnitudes"""
    rng = ctx.fresh_rng("C02int" + salt)
    for kind in ("posc", "nocat"):
        db = ctx.dbs[kind]
        rows = []
        for r in ctx.data[kind]["units"]:
            big = max(abs(r["tobase"][1]), abs(r["tobase"][2]), abs(r["frombase"][1]), abs(r["frombase"][2]))
            if big >= 2 ** 31 and r["sym"] in db.unit_to_unit_info:
                rows.append((r["qtype"], r["sym"], int(big)))
        allrows = [(r["qtype"], r["sym"], 1) for r in ctx.data[kind]["units"] if r["sym"] in db.unit_to_unit_info]
        rows = rows + [rng.choice(allrows) for _ in range(max(20, len(rows) // 3))]
        for qt, u, big in rows:
            units = [i.unit for i in db.quantity_types[qt]]
            for _ in range(per_row):
                v = rng.choice([units[0], rng.choice(units)])
                w = u
                if rng.random() < 0.25:
                    w, v = v, u          # the big row as the target
                lim = min(2 ** 62, (2 ** 63 // max(big, 1)) * rng.randrange(2, 60) + rng.randrange(0, 1000))
                lim = max(lim, 5000)
                xs = [rng.choice((7, -3, 0, lim, -lim, rng.randrange(-lim, lim))) for _ in range(rng.randrange(1, 6))]
                xs[rng.randrange(len(xs))] = rng.choice((lim, -lim))
                val = dict(k="nd", xs=xs)
                if rng.random() < 0.3:
                    val = dict(k="nd", xs=[max(-2 ** 31 + 1, min(2 ** 31 - 1, x)) for x in xs], dtype="int32")
                nt = w != v
                yield _case("db_convert", db=kind, cq=dict(k="str", c=qt), to_arg=dict(k="str", u=v), val=val, _nt=nt,
                            **{"from": dict(k="str", u=w)})
                cats = ctx.cats_of_type[kind].get(qt, [])
                if not cats:
                    continue
                q = _sq(rng.choice(cats), w)
                z = rng.randrange(5)
                if z == 0:
                    yield _case("array_getvalues", db=kind, q=q, val=val, unit=v, _nt=nt)
                elif z == 1:
                    yield _case("q_convert", db=kind, q=q, val=val, to=v, _nt=nt)
                elif z == 2:
                    yield _case("array_create_copy", db=kind, q=q, val=val, unit=v, category=None, _nt=nt)
                elif z == 3 and len(xs) >= 2:
                    yield _case("index_as_scalar", db=kind, dim=len(xs), q=q, val=val, index=rng.randrange(-len(xs), len(xs)),
                                quantity=_sq(rng.choice(cats), v), _nt=nt)
                elif len(xs) >= 2:
                    yield _case("changing_index", db=kind, dim=len(xs), q=q, val=val, index=rng.randrange(-len(xs), len(xs)),
                                nv=dict(k="scalar", q=_sq(rng.choice(cats), v), x=2.5), use_value_unit=True, _nt=nt)


def _seq_stream(ctx, salt, n):
    """route sequences on ONE Array / FixedArray: a route with a foreign unit, the caller edits the container it got
    (element, append, clear, sort, in-place arithmetic), then further routes with the same unit or with two units
    alternating; the last route of the sequence is the case's op (compared with the stateless model on the stored
    values), every earlier one is checked by the oracle"""
    rng = ctx.fresh_rng("C02seq" + salt)
    for _ in range(n):
        kind = rng.choice(("posc", "posc", "simple"))
        db = ctx.dbs[kind]
        qts = sorted(qt for qt in db.quantity_types if ctx.cats_of_type[kind].get(qt) and len(db.quantity_types[qt]) >= 2)
        qt = rng.choice(qts)
        units = [i.unit for i in db.quantity_types[qt]]
        cats = ctx.cats_of_type[kind][qt]
        c = rng.choice(cats)
        u = rng.choice(units)
        foreign = [w for w in units if w != u]
        v1 = rng.choice(foreign)
        v2 = rng.choice(foreign)
        fixed = rng.random() < 0.5
        L = rng.randrange(2, 6) if fixed else rng.randrange(1, 6)
        xs = [float(y) for y in _values(db, qt, u, rng, L, ints=False)]
        fk = rng.choice(("list", "list", "nd", "nd", "tuple"))
        val = _flat(fk, xs)
        muts = ("set", "append", "clear", "sort") if fk == "list" else ("set", "scale", "fill")
        pre = []
        pattern = rng.choice(("same", "same", "same", "alternate"))
        for k in range(rng.randrange(1, 4)):
            w = v1 if (pattern == "same" or k % 2 == 0) else v2
            route = rng.choice(("getvalues", "getvalues", "values_of_copy") + (("index_as_scalar",) if fixed else ()))
            st = dict(route=route, unit=w, mutate=rng.choice(muts))
            if route == "index_as_scalar":
                st.update(index=rng.randrange(-L, L), cat=rng.choice(cats), mutate=None)
            pre.append(st)
        if not any(st["mutate"] for st in pre):
            pre.insert(0, dict(route="getvalues", unit=v1, mutate=rng.choice(muts)))
        last = v1 if (pattern == "same" or rng.random() < 0.5) else v2
        q = _sq(c, u)
        extra = dict(dim=L) if fixed else {}
        z = rng.randrange(4 if fixed else 2)
        if z == 0:
            yield _case("array_getvalues", db=kind, q=q, val=val, unit=last, pre=pre, _nt=True, **extra)
        elif z == 1:
            yield _case("array_create_copy", db=kind, q=q, val=val, unit=last, category=None, pre=pre, _nt=True, **extra)
        elif z == 2:
            yield _case("index_as_scalar", db=kind, dim=L, q=q, val=val, index=rng.randrange(-L, L), quantity=_sq(rng.choice(cats), last),
                        pre=pre, _nt=True)
        else:
            yield _case("changing_index", db=kind, dim=L, q=q, val=val, index=rng.randrange(-L, L),
                        nv=dict(k="scalar", q=_sq(rng.choice(cats), last), x=float(rng.uniform(-50, 50))), use_value_unit=True,
                        pre=pre, _nt=True)


def _f32(x):
    return float(np.float32(x))


def _same_container_stream(ctx, salt, n):
    """the SAME numpy-backed object (Array / FixedArray) or the same caller-owned ndarray (UnitDatabase.Convert,
    Quantity.Convert) is asked several times: every later answer must still be the float conversion of the original
    values and the own-unit values must be unchanged (a conversion closure that works in place on its argument
    shifts the store).  float64 / float32 / int ndarrays; own units with an offset (degC, Pa(g), degF, psig, ...)
    and without"""
    rng = ctx.fresh_rng("C02same" + salt)
    db = ctx.dbs["posc"]
    aff_types = sorted({r["qtype"] for r in ctx.data["posc"]["units"] if r["sym"] in ctx.affine["posc"]
                        and ctx.cats_of_type["posc"].get(r["qtype"])})
    all_types = sorted(qt for qt in db.quantity_types if ctx.cats_of_type["posc"].get(qt) and len(db.quantity_types[qt]) >= 2)
    for _ in range(n):
        qt = rng.choice(aff_types) if rng.random() < 0.75 else rng.choice(all_types)
        units = [i.unit for i in db.quantity_types[qt]]
        aff = sorted(w for w in units if w in ctx.affine["posc"])
        special = [w for w in ("degC", "Pa(g)", "degF", "psig") if w in units]
        z = rng.random()
        u = rng.choice(special) if (special and z < 0.5) else (rng.choice(aff) if (aff and z < 0.75) else rng.choice(units))
        cats = ctx.cats_of_type["posc"][qt]
        c = rng.choice(cats)
        L = rng.randrange(2, 6)
        dt = rng.choice(("float64", "float64", "float32", "int"))
        if dt == "int":
            xs = [int(rng.uniform(-300, 300)) for _ in range(L)]
            val = dict(k="nd", xs=xs)
        elif dt == "float32":
            val = dict(k="nd", xs=[_f32(rng.uniform(-300, 300)) for _ in range(L)], dtype="float32")
        else:
            val = dict(k="nd", xs=[float(y) for y in _values(db, qt, u, rng, L, ints=False)])
        targets = [rng.choice(units + [u]) for _ in range(rng.randrange(1, 4))]
        if all(w == u for w in targets):
            targets[0] = rng.choice([w for w in units if w != u])
        last = rng.choice(units + [u, u])
        kind = rng.randrange(5)
        q = _sq(c, u)
        if kind == 0:
            pre = [dict(route="db_convert", unit=w, mutate=None) for w in targets]
            yield _case("db_convert", db="posc", cq=dict(k="str", c=rng.choice((qt, c))), to_arg=dict(k="str", u=last), val=val,
                        pre=pre, _nt=True, **{"from": dict(k="str", u=u)})
        elif kind == 1:
            pre = [dict(route="q_convert", unit=w, mutate=None) for w in targets]
            yield _case("q_convert", db="posc", q=q, val=val, to=last, pre=pre, _nt=True)
        else:
            fixed = rng.random() < 0.5
            pre = []
            for w in targets:
                route = rng.choice(("getvalues", "getvalues", "values_of_copy") + (("index_as_scalar",) if fixed else ()))
                st = dict(route=route, unit=w, mutate=None)
                if route == "index_as_scalar":
                    st.update(index=rng.randrange(-L, L), cat=rng.choice(cats))
                pre.append(st)
            extra = dict(dim=L) if fixed else {}
            if kind == 2:
                yield _case("array_getvalues", db="posc", q=q, val=val, unit=rng.choice((last, u, None)), pre=pre, _nt=True, **extra)
            elif kind == 3:
                yield _case("array_create_copy", db="posc", q=q, val=val, unit=last, category=None, pre=pre, _nt=True, **extra)
            else:
                yield _case("index_as_scalar", db="posc", dim=L, q=q, val=val, index=rng.randrange(-L, L),
                            quantity=_sq(rng.choice(cats), last), pre=pre, _nt=True)


def _unit_shapes(ctx, kind, qt):
    """the units of one quantity type by the SHAPE of their formulas (read from the regenerated table): the units with an
    offset, and the units with the smallest / largest step (|d base / d unit|) among the plain scalings"""
    db = ctx.dbs[kind]
    here = {i.unit for i in db.quantity_types[qt]}
    offs, steps = [], {}
    for r in ctx.data[kind]["units"]:
        if r["qtype"] != qt or r["sym"] not in here or not r.get("ok", True):
            continue
        p, q, rr, s_ = r["tobase"]
        if r["sym"] in ctx.affine[kind]:
            offs.append(r["sym"])
        elif s_ == 0 and rr != 0 and q != 0:
            steps[r["sym"]] = abs(q / rr)
    offs.sort()
    names = sorted(steps)
    small = min(names, key=lambda u: (steps[u], u)) if names else None
    large = max(names, key=lambda u: (steps[u], u)) if names else None
    return offs, small, large, steps


def _shape_pairs(ctx, kind, qt):
    """every (offset unit x smallest-step / largest-step / base unit) pair in both directions and every offset unit
    paired with the next offset unit (degC/degF/K, gauge/gauge): deterministic, always all of them"""
    db = ctx.dbs[kind]
    offs, small, large, _steps = _unit_shapes(ctx, kind, qt)
    base = db.quantity_types[qt][0].unit
    pairs = []
    for k, o in enumerate(offs):
        for w in (small, large, base, offs[(k + 1) % len(offs)]):
            if w is not None and w != o:
                pairs += [(w, o), (o, w)]
    if small is not None and large is not None and small != large and offs:
        pairs += [(small, large), (large, small)]
    out, seen = [], set()
    for pr in pairs:
        if pr not in seen:
            seen.add(pr)
            out.append(pr)
    return out


def _magnitudes(ctx, kind, qt, u, rng, n):
    """numbers in unit `u` of several magnitudes: from one step of `u` up to amounts of the size of the offsets of the
    type (so that a tiny-step unit is driven with 1e12, 1e17, ...) - a conversion that loses the amount next to the
    target's offset shows only on the large ones"""
    _offs, _s, _l, steps = _unit_shapes(ctx, kind, qt)
    step = float(steps.get(u, 1.0)) or 1.0
    offsets = [abs(float(r["tobase"][0] / r["tobase"][2])) for r in ctx.data[kind]["units"]
               if r["qtype"] == qt and r["tobase"][2] != 0 and r["tobase"][0] != 0]
    top = max(offsets + [1.0])
    amounts = [top * 10.0 ** k for k in (-6, -3, -1, 0, 1, 3)] + [1.0, 1e3]
    out = []
    for _ in range(n):
        a = rng.choice(amounts) * rng.uniform(1.0, 9.9) * rng.choice((1, 1, -1))
        x = a / step
        out.append(float(x) if math.isfinite(x) and abs(x) < 1e300 else 1.0)
    return out


SHAPE_ROUTES = ("scalar_getvalue", "q_convert_scalar", "q_convert", "db_convert", "array_getvalues", "array_tuples",
                "create_copy", "array_create_copy", "change_scalars", "index_as_scalar", "changing_index",
                "convert_to_current", "convert_scalar_to_current")


def _shape_stream(ctx, salt, sets):
    """EVERY container route on every (offset unit x smallest/largest-step unit) pair of every quantity type, numbers of
    several magnitudes (seeded defect class: a route that re-derives the straight line from f(0), f(1) loses the
    amount next to the target's offset: pPa -> bar(g))"""
    rng = ctx.fresh_rng("C02shape" + salt)
    n_pairs = 0
    for kind in KINDS:
        db = ctx.dbs[kind]
        for qt in db.quantity_types:
            pairs = _shape_pairs(ctx, kind, qt)
            if not pairs:
                continue
            cats = ctx.cats_of_type[kind].get(qt, [])
            for (u, v) in pairs:
                n_pairs += 1
                for _k in range(sets):
                    c = rng.choice(cats) if cats else None
                    force = _magnitudes(ctx, kind, qt, u, rng, 4)
                    routes = SHAPE_ROUTES if kind != "nocat" else ("db_convert",)
                    yield from _route_cases(ctx, kind, qt, c, u, v, rng, routes, force=force)
    ctx.notes["unit_shape_pairs_every_route"] = n_pairs


def _copy_stream(ctx, salt, pairs_per_type, max_other):
    """CreateCopy in every argument form: {unit given / not} x {category not given / the object's own / another
    category of the same quantity type} x {Scalar, Array, FixedArray} x container kind (float, list, tuple, ndarray,
    list of tuples, tuple of tuples), value omitted (and, for Scalar, given)"""
    rng = ctx.fresh_rng("C02copy" + salt)
    forms = {}
    for kind in ("posc", "simple"):
        db = ctx.dbs[kind]
        for qt in db.quantity_types:
            cats = ctx.cats_of_type[kind].get(qt, [])
            units = [i.unit for i in db.quantity_types[qt]]
            if not cats:
                continue
            shaped = _shape_pairs(ctx, kind, qt)
            for j in range(pairs_per_type):
                if shaped and j == 0:
                    u, v = rng.choice(shaped)
                else:
                    u = rng.choice(units)
                    v = rng.choice([w for w in units if w != u] or [u])
                own = rng.choice(cats)
                others = [c for c in cats if c != own]
                rng.shuffle(others)
                cat_forms = [("none", None), ("own", own)] + [("other", c) for c in others[:max_other]]
                nt = u != v
                q = _sq(own, u)
                L = rng.randrange(2, 5)
                xs = [float(y) for y in (_magnitudes(ctx, kind, qt, u, rng, L) if shaped and j == 0 else _values(db, qt, u, rng, L, ints=False))]
                x = xs[0]
                for cname, c2 in cat_forms:
                    for unit in (v, None):
                        forms[(cname, unit is not None)] = forms.get((cname, unit is not None), 0) + 1
                        tr = nt and unit is not None
                        yield _case("create_copy", db=kind, q=q, x=x, value=None, unit=unit, category=c2, _nt=tr)
                        if rng.random() < 0.3:
                            yield _case("create_copy", db=kind, q=q, x=rng.choice((7, -3, 12)), value=None, unit=unit, category=c2, _nt=tr)
                        if rng.random() < 0.3:
                            yield _case("create_copy", db=kind, q=q, x=x, value=float(rng.uniform(-5, 5)), unit=unit, category=c2, _nt=False)
                        for k in ("list", "tuple", "nd"):
                            yield _case("array_create_copy", db=kind, q=q, val=_flat(k, xs), unit=unit, category=c2, _nt=tr)
                            yield _case("array_create_copy", db=kind, q=q, dim=L, val=_flat(k, xs), unit=unit, category=c2, _nt=tr)
                        for k in ("list", "tuple"):
                            yield _case("array_create_copy", db=kind, q=q, val=_nested(k, [xs[:1], xs[1:]]), unit=unit, category=c2, _nt=tr)
                        if rng.random() < 0.3:
                            yield _case("array_create_copy", db=kind, q=q, val=_flat("nd", _int_items(xs, rng)), unit=unit, category=c2, _nt=tr)
            # an object with the EMPTY quantity given a unit (and a category): `ObtainQuantity(unit)` branch of CreateCopy
            empty = dict(k="d", entries=[])
            u_e = rng.choice(units + ([ctx.legacy_of[kind][w] for w in units if w in ctx.legacy_of[kind]][:1]))
            yield _case("create_copy", db=kind, q=empty, x=1.5, value=float(rng.uniform(-9, 9)), unit=u_e, category=None, _nt=False)
            yield _case("create_copy", db=kind, q=empty, x=1.5, value=float(rng.uniform(-9, 9)), unit=u_e, category=rng.choice(cats), _nt=False)
            if rng.random() < 0.2:
                yield _case("create_copy", db=kind, q=empty, x=1.5, value=None, unit=rng.choice((u_e, None)), category=rng.choice((None, cats[0])), _nt=False)
    ctx.notes["create_copy_argument_forms(category,unit_given)"] = {"%s/%s" % (a, "unit" if b else "no-unit"): n for (a, b), n in sorted(forms.items())}


def _mgr_stream(ctx, salt, n):
    """short HISTORIES on one UnitSystemManager: AddUnitSystem, ConvertToCurrent / ConvertScalarToCurrent with
    float / int / list / tuple / ndarray values, SetDefaultUnit / RemoveCategory on the current system (and on a
    system that is not current), SetCurrent to another system and back / to None, RemoveUnitSystem, the same request
    again.  Every conversion of the history is compared with the model (a pure function of the mapping then current)."""
    rng = ctx.fresh_rng("C02mgr" + salt)
    shapes = {}
    for _ in range(n):
        kind = rng.choice(("posc", "posc", "posc", "simple"))
        db = ctx.dbs[kind]
        qts = sorted(qt for qt in db.quantity_types if ctx.cats_of_type[kind].get(qt) and len(db.quantity_types[qt]) >= 2)
        aff = [qt for qt in qts if any(i.unit in ctx.affine[kind] for i in db.quantity_types[qt])]
        qt = rng.choice(aff) if (aff and rng.random() < 0.3) else rng.choice(qts)
        units = [i.unit for i in db.quantity_types[qt]]
        cats = ctx.cats_of_type[kind][qt]
        c = rng.choice(cats)
        u = rng.choice(units)
        foreign = [w for w in units if w != u]
        w1, w2, w3 = rng.choice(foreign), rng.choice(units), rng.choice(units)
        if w2 == w1:
            w2 = rng.choice([w for w in units if w != w1])
        qt_b = rng.choice(qts)
        cb, ub = rng.choice(ctx.cats_of_type[kind][qt_b]), rng.choice([i.unit for i in db.quantity_types[qt_b]])
        x = float(_values(db, qt, u, rng, 1, ints=False)[0])
        xs = [float(y) for y in _values(db, qt, u, rng, rng.randrange(1, 4), ints=False)]

        def value():
            z = rng.randrange(7)
            if z <= 1:
                return dict(k="num", x=x)
            if z == 2:
                return dict(k="num", x=rng.choice((7, -3, 12, 0)))
            if z == 3:
                return dict(k="num", x=float(rng.uniform(-100, 100)))
            return _flat(("list", "tuple", "nd")[z - 4], xs)

        def conv(val=None):
            return dict(k="convert", c=c, u=u, val=val or value(), nodb=rng.random() < 0.2)

        def conv_s():
            return dict(k="convert_scalar", q=_sq(c, u), x=rng.choice((x, 7, float(rng.uniform(-50, 50)))), nodb=rng.random() < 0.2)

        m1 = dict([(c, w1)] + ([(cb, ub)] if cb != c and rng.random() < 0.6 else []))
        ops = [dict(k="add", id="s1", mapping=[[a, b] for a, b in m1.items()])]
        pattern = rng.choice(("edit", "edit", "edit_scalar", "remove_cat", "switch", "random", "random"))
        shapes[pattern] = shapes.get(pattern, 0) + 1
        first = rng.choice((dict(k="num", x=x), dict(k="num", x=x), dict(k="num", x=7), None))
        if pattern == "edit":
            ops += [conv(first), dict(k="set_default_unit", on=rng.choice((None, None, "s1")), c=c, u=w2), conv(first), conv_s(), conv()]
        elif pattern == "edit_scalar":
            ops += [conv_s(), dict(k="set_default_unit", on=None, c=c, u=w2), conv_s(), conv(first)]
        elif pattern == "remove_cat":
            ops += [conv(first), dict(k="remove_category", on=None, c=c), conv(first), conv_s(),
                    dict(k="set_default_unit", on=None, c=c, u=w2), conv(first)]
        elif pattern == "switch":
            ops += [conv(first), dict(k="add", id="s2", mapping=[[c, w3]]), conv(first), dict(k="set_current", id="s2"), conv(first),
                    dict(k="set_default_unit", on="s1", c=c, u=w2), conv(first), dict(k="set_current", id="s1"), conv(first), conv_s(),
                    dict(k="set_current", id=None), conv(first), dict(k="set_default_unit", on=None, c=c, u=w3), conv(first)]
        else:
            have = ["s1"]
            for _k in range(rng.randrange(3, 9)):
                z = rng.randrange(12)
                if z <= 2:
                    ops.append(conv(first if rng.random() < 0.5 else None))
                elif z == 3:
                    ops.append(conv_s())
                elif z <= 5:
                    ops.append(dict(k="set_default_unit", on=rng.choice([None, None] + have), c=rng.choice((c, c, cb)), u=rng.choice(units)))
                elif z == 6:
                    ops.append(dict(k="remove_category", on=rng.choice([None] + have), c=rng.choice((c, cb))))
                elif z == 7:
                    nid = "s%d" % (len(have) + 1 if rng.random() < 0.85 else 1)      # now and then an id already in use
                    ops.append(dict(k="add", id=nid, mapping=[[c, rng.choice(units)]]))
                    if nid not in have:
                        have.append(nid)
                elif z == 8:
                    ops.append(dict(k="set_current", id=rng.choice(have + [None, "nope"])))
                elif z == 9:
                    ops.append(dict(k="remove", id=rng.choice(have + ["nope"])))
                elif z == 10:
                    ops.append(dict(k="convert", c=cb, u=ub, val=dict(k="num", x=float(rng.uniform(-9, 9)))))
                else:
                    ops.append(dict(k="convert", c=c, u=rng.choice((u, "nope", ub)), val=value()))
            ops.append(conv(first))
        yield _case("mgr_history", db=kind, ops=ops, _nt=True)
    ctx.notes["manager_history_patterns"] = dict(sorted(shapes.items()))


def cases(ctx):
    quick = ctx.tier == "quick"
    ctx.notes["streams"] = {}
    n0 = 0
    out = []
    for name, gen in (("main_all_routes", _main_stream(ctx, "corr", 3 if quick else 4, False, None)),
                      ("all_pairs_sampled_routes", iter(()) if quick else _main_stream(ctx, "pairs", 0, True, 4)),
                      ("unit_shape_pairs_every_route", _shape_stream(ctx, "corr", 2 if quick else 6)),
                      ("create_copy_every_argument_form", _copy_stream(ctx, "corr", 1 if quick else 4, 2 if quick else 30)),
                      ("manager_histories", _mgr_stream(ctx, "corr", 1500 if quick else 15000)),
                      ("derived_empty", _derived_stream(ctx, "corr", 150 if quick else 1500)),
                      ("integer_ndarrays", _int_array_stream(ctx, "corr", 4 if quick else 25)),
                      ("route_sequences_on_one_object", _seq_stream(ctx, "corr", 600 if quick else 6000)),
                      ("same_container_asked_again", _same_container_stream(ctx, "corr", 600 if quick else 6000)),
                      ("malformed", _malformed_stream(ctx, "corr", 400 if quick else 4000))):
        for c in gen:
            out.append(c)
        ctx.notes["streams"][name] = len(out) - n0
        n0 = len(out)
    ops = {}
    for c in out:
        t = c["_t"]
        k = c["op"]
        if "val" in t:
            k += ":" + t["val"]["k"] + ("-int" if t["val"]["k"] == "nd" and t["val"]["xs"] and all(isinstance(x, int) for x in t["val"]["xs"]) else "") + ("-of-tuples" if any(isinstance(e, list) for e in t["val"].get("es", [])) else "")
        if c["op"] == "db_convert" and (t["from"]["k"] != "str" or t["to_arg"]["k"] != "str"):
            k += ":exps"
        ops[k] = ops.get(k, 0) + 1
    ctx.notes["route_and_container_counts"] = dict(sorted(ops.items()))
    return out


# ----------------------------------------------------------------------------------------- the property, on the real code only
_REL = [1e-9]


def _tol(*mags):
    return _REL[0] * sum(abs(m) for m in mags if isinstance(m, (int, float)) and math.isfinite(m)) + 1e-300


def _ref(db, cq, u, v, x):
    """the database's float conversion for the unit pair"""
    return db.Convert(cq, u, v, float(x))


def _mid_f32(db, cq, u, v, x):
    """single precision only: the intermediate magnitudes of from(to(x)) in the target's unit (the target's offset, the
    amount and the source's offset scaled by the target's slope).  A float32 ndarray is converted in float32, so the
    rounding is relative to these, not to the (possibly cancelled) result: Pa(g) -> bar(g) near 0."""
    try:
        qt = db.GetCategoryQuantityType(cq) if cq in db.categories_to_quantity_types else cq
        base = db.GetBaseUnit(qt)
        o = _ref(db, cq, base, v, 0.0)
        sl = _ref(db, cq, base, v, 1.0) - o
        return [o, sl * _ref(db, cq, u, base, x), sl * _ref(db, cq, u, base, 0.0)]
    except Exception:
        return []


def _near(db, cq, u, v, got, x):
    want = _ref(db, cq, u, v, x)
    if u == v:
        return (None if float(got) == float(x) else dict(got=float(got), want=float(x), note="own unit must return the stored value unchanged")), want
    tol = _tol(want, _ref(db, cq, u, v, 0.0), x * 0 + (_ref(db, cq, u, v, 1.0) - _ref(db, cq, u, v, 0.0)) * float(x),
               *(_mid_f32(db, cq, u, v, x) if _REL[0] > 1e-9 else []))
    if not abs(float(got) - want) <= tol:
        return dict(got=float(got), want=want, tol=tol), want
    return None, want


def _flat_items(v):
    if v["k"] == "num":
        return [v["x"]]
    if v["k"] == "nd":
        return list(v["xs"])
    out = []
    for e in v["es"]:
        out += list(e) if isinstance(e, list) else [e]
    return out


def _flat_result(r):
    if isinstance(r, np.ndarray):
        return [float(x) for x in r.tolist()], "nd"
    if isinstance(r, (list, tuple)):
        out = []
        for e in r:
            out += [float(y) for y in e] if isinstance(e, tuple) else [float(e)]
        return out, ("tuple" if isinstance(r, tuple) else "list")
    return [float(r)], "num"


def _shape(v):
    if v["k"] in ("num", "nd"):
        return None
    return [len(e) if isinstance(e, list) else -1 for e in v["es"]]


def _shape_r(r):
    if isinstance(r, (list, tuple)):
        return [len(e) if isinstance(e, tuple) else -1 for e in r]
    return None


def _check_vals(db, cq, u, v, val, r, clause):
    got, kind = _flat_result(r)
    xs = _flat_items(val)
    # (the property speaks about the numbers, element by element: the container class itself is not demanded)
    if len(got) != len(xs) or (_shape(val) is not None and _shape_r(r) is not None and _shape(val) != _shape_r(r)):
        return dict(clause=clause, note="number of elements / nesting changed", got=len(got), want=len(xs))
    for g, x in zip(got, xs):
        bad, _w = _near(db, cq, u, v, g, x)
        if bad:
            return dict(clause=clause, frm=u, to=v, x=x, **bad)
    return None


def _seq_oracle(c, ctx):
    """every earlier route of a sequence on one object (or on one caller-owned container) must already equal the
    float conversion of the ORIGINAL stored values, element by element and with the stored length, whatever the
    caller did with earlier results; and the stored values / the caller's container are unchanged afterwards"""
    t, op = c["_t"], c["op"]
    db = ctx.dbs[t["db"]]
    if any(isinstance(e, list) for e in t["val"].get("es", [])):
        return None
    xs = _flat_items(t["val"])
    try:
        with _Pushed(db):
            try:
                if op == "db_convert":
                    if t["cq"]["k"] != "str" or t["from"]["k"] != "str":
                        return None
                    cat, own = t["cq"]["c"], t["from"]["u"]
                    obj = None
                    arr = _mk_val(t["val"])
                    call = lambda st: (db.Convert(cat, own, st["unit"], arr), None)
                elif op == "q_convert":
                    if t["q"]["k"] != "s":
                        return None
                    q = _mk_q(t["q"])
                    cat, own = q.GetCategory(), q.GetUnit()
                    obj = None
                    arr = _mk_val(t["val"])
                    call = lambda st: (q.Convert(arr, st["unit"]), None)
                else:
                    if t["q"]["k"] != "s":
                        return None
                    q = _mk_q(t["q"])
                    cat, own = q.GetCategory(), q.GetUnit()
                    obj = _mk_fixed(t["dim"], t["q"], t["val"]) if t.get("dim") else _mk_array(t["q"], t["val"])
                    call = None
                for st in t["pre"]:
                    _ref(db, cat, own, st["unit"], 1.0)
            except Exception:
                return None  # not a convertible pair / not constructible: outside the property

            def on_result(k, st, r):
                where = "step %d of a route sequence on one object: %s(%s)" % (k + 1, st["route"], st["unit"])
                if st["route"] == "index_as_scalar":
                    bad, _w = _near(db, cat, own, st["unit"], r.GetValue(), xs[st["index"]])
                    return dict(clause=where, index=st["index"], **bad) if bad else None
                if st["unit"] == own:
                    got, _k = _flat_result(r)
                    return None if got == [float(x) for x in xs] else dict(clause=where, note="own unit must return the stored values", got=got[:6], want=xs[:6])
                return _check_vals(db, cat, own, st["unit"], t["val"], r, where)

            bad = _apply_pre(obj, t["pre"], on_result, call)
            if bad:
                return bad
            stored = arr if obj is None else obj.GetValues()
            got, _k = _flat_result(stored)
            if got != [float(x) for x in xs]:
                return dict(clause="conversion routes must leave the stored values / the caller's container unchanged "
                                   "(own-unit value = stored value)", unit=own, after=[st["unit"] for st in t["pre"]], got=got[:6], want=xs[:6])
            return None
    except Exception as e:
        return dict(clause="a route of a sequence on one object raised for a convertible unit pair", error=repr(e)[:300])


def _mgr_oracle(c, ctx):
    """every conversion of a manager history, at the moment it is made, against the database's float conversion for
    (given unit, the unit the CURRENT unit system maps the category to at that moment); read from the real manager"""
    from barril.units import ObtainQuantity
    from barril.units.unit_system_manager import UnitSystemManager
    t = c["_t"]
    db = ctx.dbs[t["db"]]

    def quiet(m, a):
        try:
            _mgr_step(m, a, db)
        except Exception:
            pass

    with _Pushed(db):
        m = UnitSystemManager()
        for n, a in enumerate(t["ops"]):
            k = a["k"]
            if k not in ("convert", "convert_scalar"):
                quiet(m, a)
                continue
            where = "step %d of a history on one UnitSystemManager (%s)" % (n + 1, ", ".join(b["k"] for b in t["ops"][:n + 1]))
            try:
                if k == "convert":
                    cat, u, x0 = a["c"], a["u"], None
                    if any(isinstance(e, list) for e in a["val"].get("es", [])):
                        raise ValueError("nested")
                else:
                    s0 = _mk_scalar(a["q"], a["x"])
                    if s0.GetQuantity().IsDerived():
                        raise ValueError("derived")
                    cat, u, x0 = s0.GetCategory(), s0.GetUnit(), s0.GetValue()
                v = m.GetCurrent().GetDefaultUnit(cat) or u
                _ref(db, cat, u, v, 1.0)
                ObtainQuantity(v, cat)
            except Exception:
                quiet(m, a)      # not a convertible pair: outside the property
                continue
            try:
                r = _mgr_step(m, a, db)
            except Exception as e:
                return dict(clause=where + ": raised for a convertible unit pair", error=repr(e)[:200])
            if k == "convert":
                if r[1] != v:
                    return dict(clause=where + ": ConvertToCurrent answers in the unit the current system maps the category to",
                                category=cat, got=r[1], want=v)
                bad = _check_vals(db, cat, u, v, a["val"], r[0], where + ": ConvertToCurrent = float conversion")
                if bad:
                    return dict(bad, category=cat)
            else:
                if r.GetCategory() != cat or r.GetQuantityType() != s0.GetQuantityType() or r.GetUnit() != v:
                    return dict(clause=where + ": ConvertScalarToCurrent keeps category / quantity type and answers in the current unit",
                                got=(r.GetCategory(), r.GetQuantityType(), r.GetUnit()), want=(cat, s0.GetQuantityType(), v))
                bad, _w = _near(db, cat, u, v, r.GetValue(), x0)
                if bad:
                    return dict(clause=where + ": ConvertScalarToCurrent value = float conversion", category=cat, frm=u, to=v, x=x0, **bad)
    return None


def oracle(c, ctx):
    """C02 on the real code: every route against UnitDatabase.Convert on floats, category/type kept,
    default-in-unit, own unit unchanged.  None = holds or the input is outside the property's scope."""
    t, op = c["_t"], c["op"]
    db = ctx.dbs[t["db"]]
    from barril.units import ObtainQuantity
    _set_tol(c)
    if op == "mgr_history":
        try:
            return _mgr_oracle(c, ctx)
        except Exception as e:
            return dict(clause="a manager history could not be judged", error=repr(e)[:300])
    if t.get("pre"):
        bad = _seq_oracle(c, ctx)
        if bad:
            return bad
    try:
        with _Pushed(db):
            # ---- the unit pair the case is about
            if op == "db_convert":
                fa, ta, cqa = t["from"], t["to_arg"], t["cq"]
                fe = [[fa["u"], 1]] if fa["k"] == "str" else fa["es"]
                te = [[ta["u"], 1]] if ta["k"] == "str" else ta["es"]
                if len(fe) != 1 or len(te) != 1 or fe[0][1] != te[0][1] or fe[0][1] == 0:
                    return None
                cq = cqa["c"] if cqa["k"] == "str" else (cqa["cs"][0] if len(cqa["cs"]) == 1 and (fa["k"] != "str" or ta["k"] != "str") else None)
                if cq is None:
                    return None
                u, v, e = fe[0][0], te[0][0], fe[0][1]
                try:
                    k1 = _ref(db, cq, u, v, 1.0)
                    k0 = _ref(db, cq, u, v, 0.0)
                except Exception:
                    return None  # not a convertible pair: outside the property
                if any(isinstance(x, list) for x in t["val"].get("es", [])):
                    return None
                if e != 1:
                    if k0 != 0.0 or t["val"]["k"] != "num" or _ref(db, cq, v, u, 0.0) != 0.0:
                        return None
                    x = float(t["val"]["x"])
                    if e < 0 and x == 0:
                        return None
                    r = _run(c, ctx)
                    want = math.copysign(abs(x) * k1 ** e, x) if u != v else x
                    if not abs(float(r) - want) <= 1e-9 * abs(want) + 1e-300:
                        return dict(clause="UnitDatabase.Convert with (unit, exp) lists", frm=u, to=v, exp=e, x=x, got=float(r), want=want)
                    return None
                r = _run(c, ctx)
                return _check_vals(db, cq, u, v, t["val"], r, "UnitDatabase.Convert = float conversion element by element")
            if op == "default_scalar":
                try:
                    if t.get("def_unit") is not None:
                        ci0 = db.GetCategoryInfo(t["c"])
                        db.AddCategory(t["c"], ci0.quantity_type, valid_units=ci0.valid_units, override=True,
                                       default_unit=t["def_unit"], default_value=t["def_value"], caption=ci0.caption)
                    ci = db.GetCategoryInfo(t["c"])
                    v = t.get("unit") or ci.default_unit
                    want = _ref(db, t["c"], ci.default_unit, v, ci.default_value)
                except Exception:
                    return None
                s = _run(c, ctx)
                bad, _w = _near(db, t["c"], ci.default_unit, v, s.GetValue(), ci.default_value)
                if bad:
                    return dict(clause="object created from a category default in a non-default unit carries the default amount",
                                category=t["c"], unit=v, default=(ci.default_value, ci.default_unit), **bad)
                if s.GetCategory() != t["c"] or s.GetQuantityType() != ci.quantity_type:
                    return dict(clause="default object keeps category/type", got=(s.GetCategory(), s.GetQuantityType()))
                return None
            if op == "convert_to_current":
                mp = dict((a, b) for a, b in (t.get("mapping") or []))
                v = mp.get(t["c"]) or t["u"]
                try:
                    _ref(db, t["c"], t["u"], v, 1.0)
                except Exception:
                    return None
                if any(isinstance(x, list) for x in t["val"].get("es", [])):
                    return None
                r = _run(c, ctx)
                if r[1] != v:
                    return dict(clause="ConvertToCurrent target unit", got=r[1], want=v)
                return _check_vals(db, t["c"], t["u"], v, t["val"], r[0], "ConvertToCurrent = float conversion")
            if op == "change_scalars":
                qs = {a["name"]: a for a in t["owner"]}
                for ch in t["changes"]:
                    if ch["name"] not in qs:
                        return None
                srcs = {}
                try:
                    for n, a in qs.items():
                        srcs[n] = _mk_scalar(a["q"], a["x"])
                        if a["q"]["k"] != "s":
                            return None
                    for ch in t["changes"]:
                        if ch["unit"] is not None:
                            _ref(db, srcs[ch["name"]].GetCategory(), srcs[ch["name"]].GetUnit(), ch["unit"], 1.0)
                            ObtainQuantity(ch["unit"], srcs[ch["name"]].GetCategory())
                except Exception:
                    return None
                r = dict(_run(c, ctx))
                for ch in t["changes"]:
                    src, new = srcs[ch["name"]], r[ch["name"]]
                    if new.GetCategory() != src.GetCategory() or new.GetQuantityType() != src.GetQuantityType():
                        return dict(clause="ChangeScalars keeps category and quantity type", attr=ch["name"],
                                    got=(new.GetCategory(), new.GetQuantityType()), want=(src.GetCategory(), src.GetQuantityType()))
                    if ch["value"] is None and ch["unit"] is not None:
                        bad, _w = _near(db, src.GetCategory(), src.GetUnit(), new.GetUnit(), new.GetValue(), src.GetValue())
                        if bad:
                            return dict(clause="ChangeScalars value = float conversion", attr=ch["name"], frm=src.GetUnit(), to=new.GetUnit(), **bad)
                return None
            # ---- the remaining routes start from an object with quantity t["q"]
            try:
                q = _mk_q(t["q"])
            except Exception:
                return None
            own = q.GetUnit()
            cat, qtype = q.GetCategory(), q.GetQuantityType()
            derived = q.IsDerived()

            def convertible(v):
                if v is None or v == own:
                    return True
                if derived:
                    return False
                try:
                    _ref(db, cat, own, v, 1.0)
                    return True
                except Exception:
                    return False

            if op in ("scalar_getvalue", "q_convert_scalar"):
                v = t.get("unit") if op == "scalar_getvalue" else t["to"]
                if not convertible(v):
                    return None
                r = _run(c, ctx)
                if v is None or v == own:
                    return None if float(r) == float(t["x"]) else dict(clause="value in the object's own unit is the stored value",
                                                                        unit=own, derived=derived, got=float(r), want=float(t["x"]))
                bad, _w = _near(db, cat, own, v, r, t["x"])
                return dict(clause="%s = float conversion" % op, category=cat, frm=own, to=v, x=t["x"], **bad) if bad else None
            if op in ("q_convert", "array_getvalues"):
                v = t.get("unit") if op == "array_getvalues" else t["to"]
                if not convertible(v):
                    return None
                if op == "q_convert" and derived:
                    return None
                es = t["val"].get("es", [])
                if es and any(isinstance(e, list) for e in es) and not all(isinstance(e, list) for e in es):
                    return None  # mixed items: not a container kind of the property
                if es and all(isinstance(e, list) for e in es) and op != "array_getvalues":
                    return None
                r = _run(c, ctx)
                if v is None or v == own:
                    got, _k = _flat_result(r)
                    return None if got == [float(x) for x in _flat_items(t["val"])] else dict(
                        clause="values in the object's own unit are the stored values", unit=own, derived=derived)
                return _check_vals(db, cat, own, v, t["val"], r, "%s = float conversion element by element" % op)
            if op in ("create_copy", "array_create_copy"):
                v = t.get("unit")
                c2 = t.get("category")
                if derived and (v is not None or c2 is not None):
                    return None
                want_cat = cat
                if c2 is not None:
                    # CreateCopy(unit=..., category=...): the own category or another category of the same quantity
                    # type; a category without a unit is rejected by the code (outside the property)
                    if v is None:
                        return None
                    try:
                        if db.GetCategoryInfo(c2).quantity_type != qtype:
                            return None
                    except Exception:
                        return None
                    want_cat = c2
                if not convertible(v):
                    return None
                if v is not None:
                    try:
                        ObtainQuantity(v, want_cat)
                    except Exception:
                        return None
                es = t["val"].get("es", []) if op == "array_create_copy" else []
                if any(isinstance(e, list) for e in es) and not all(isinstance(e, list) for e in es):
                    return None
                r = _run(c, ctx)
                if r.GetCategory() != want_cat or r.GetQuantityType() != qtype:
                    return dict(clause="CreateCopy keeps the quantity type and has the category of its source (or the one given)",
                                frm=own, to=v, category_given=c2, got=(r.GetCategory(), r.GetQuantityType()), want=(want_cat, qtype))
                if op == "create_copy":
                    if t.get("value") is not None:
                        return None if float(r.GetValue()) == float(t["value"]) else dict(clause="CreateCopy(value=…) stores the value")
                    bad, _w = _near(db, cat, own, r.GetUnit(), r.GetValue(), t["x"])
                    return dict(clause="CreateCopy(unit=…%s) value = float conversion" % (", category=…" if c2 else ""), category=cat,
                                category_given=c2, frm=own, to=r.GetUnit(), x=t["x"], **bad) if bad else None
                return _check_vals(db, cat, own, r.GetUnit(), t["val"], r.GetValues(),
                                   "Array.CreateCopy(unit=…%s) = float conversion" % (", category=…" if c2 else ""))
            if op == "convert_scalar_to_current":
                mp = dict((a, b) for a, b in (t.get("mapping") or []))
                v = mp.get(cat) or own
                if not convertible(v):
                    return None
                try:
                    ObtainQuantity(v, cat) if not derived else None
                except Exception:
                    return None
                r = _run(c, ctx)
                if r.GetCategory() != cat or r.GetQuantityType() != qtype:
                    return dict(clause="ConvertScalarToCurrent keeps category and quantity type", scalar=(t["x"], own, cat),
                                got=(r.GetCategory(), r.GetQuantityType()), want=(cat, qtype))
                bad, _w = _near(db, cat, own, r.GetUnit(), r.GetValue(), t["x"])
                return dict(clause="ConvertScalarToCurrent value = float conversion", frm=own, to=r.GetUnit(), **bad) if bad else None
            if op in ("index_as_scalar", "changing_index"):
                n = t["dim"]
                i = t["index"]
                if not (-n <= i < n) or t["val"]["k"] == "num" or any(isinstance(e, list) for e in t["val"].get("es", [])):
                    return None
                xs = _flat_items(t["val"])
                if op == "index_as_scalar":
                    try:
                        q2 = _mk_q(t["quantity"]) if t.get("quantity") is not None else q
                    except Exception:
                        return None
                    v = q2.GetUnit()
                    if not convertible(v):
                        return None
                    r = _run(c, ctx)
                    if r.GetCategory() != q2.GetCategory() or r.GetUnit() != v:
                        return dict(clause="IndexAsScalar quantity", got=(r.GetCategory(), r.GetUnit()))
                    if v == own:
                        return None if float(r.GetValue()) == float(xs[i]) else dict(clause="IndexAsScalar own unit unchanged")
                    bad, _w = _near(db, cat, own, v, r.GetValue(), xs[i])
                    return dict(clause="IndexAsScalar = float conversion", frm=own, to=v, index=i, **bad) if bad else None
                nv = t["nv"]
                if nv["k"] == "number":
                    r = _run(c, ctx)
                    if r.GetCategory() != cat or r.GetUnit() != own or r.GetQuantityType() != qtype:
                        return dict(clause="ChangingIndex with a plain number keeps the quantity", got=(r.GetCategory(), r.GetUnit()))
                    vals = list(r.GetValues())
                    want = [float(x) for x in xs]
                    want[i] = float(nv["x"])
                    return None if [float(x) for x in vals] == want else dict(clause="ChangingIndex with a plain number", got=vals, want=want)
                if derived:
                    return None
                if nv["k"] == "scalar":
                    try:
                        s = _mk_scalar(nv["q"], nv["x"])
                    except Exception:
                        return None
                    if s.GetQuantity().IsDerived():
                        return None
                else:
                    if nv["unit"] is None:
                        return None
                    try:
                        s = _mk_scalar(t["q"], xs[i]).CreateCopy(*([nv["value"], nv["unit"]] + ([nv["category"]] if nv["category"] else [])))
                    except Exception:
                        return None
                v = s.GetUnit() if t["use_value_unit"] else own
                if not convertible(v):
                    return None
                try:
                    _ref(db, s.GetCategory(), s.GetUnit(), v, 1.0)
                except Exception:
                    return None
                r = _run(c, ctx)
                wantcat = s.GetCategory() if t["use_value_unit"] else cat
                if r.GetUnit() != v or r.GetCategory() != wantcat or len(r.GetValues()) != n:
                    return dict(clause="ChangingIndex unit/category/length", got=(r.GetUnit(), r.GetCategory(), len(r.GetValues())), want=(v, wantcat, n))
                vals = [float(x) for x in r.GetValues()]
                for j, (g, x) in enumerate(zip(vals, xs)):
                    if j == i % n:
                        bad, _w = _near(db, s.GetCategory(), s.GetUnit(), v, g, s.GetValue())
                    else:
                        bad, _w = _near(db, cat, own, v, g, x)
                    if bad:
                        return dict(clause="ChangingIndex items = float conversion", index=j, frm=own, to=v, **bad)
                return None
            if op == "scalar_of_q":
                return None
    except Exception as e:
        return dict(clause="a route raised for a convertible unit pair of one quantity type", error=repr(e)[:300])
    return None


def search(ctx):
    quick = ctx.tier == "quick"
    yield from _main_stream(ctx, "search", 2 if quick else 4, False, None)
    yield from _shape_stream(ctx, "search", 2)
    yield from _copy_stream(ctx, "search", 2, 3)
    yield from _mgr_stream(ctx, "search", 1500)
    yield from _same_container_stream(ctx, "search", 400)
    yield from _seq_stream(ctx, "search", 400)
    yield from _int_array_stream(ctx, "search", 6)
    yield from _derived_stream(ctx, "search", 300)
    if not quick:
        yield from _main_stream(ctx, "search2", 0, True, 3)
