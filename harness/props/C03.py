"""C03 - addition and subtraction are physically sound, also for derived units.

Decided by: Barril/Props/C03.lean (theorems about `Db.opSame` of Barril/Model/Alg.lean for every database,
all well-formed operand shapes and all rational values).  Tie: correspondence of the real `Scalar` operators
`+ -` on the default database with the model (drv_alg) on pairs of seeded expression trees.

Known finding (class `simple-operands-different-affine-offsets`): for two SIMPLE operands whose units have
different affine offsets (degC + K) a+b and b+a do not denote the same amount; Lean: `add_comm_phys_partial`
carries the excluding hypothesis and `add_comm_affine_counterexample` is the concrete witness.

Repaired defect (class `derived-operand-affine-unit-exponent-1`, fix "unit matching inside a derived quantity
scales units that have an offset instead of shifting them"): inside a derived operand a unit with an offset and
exponent 1 was converted with its offset ((10 degC*m) + (1 m*K) gave -262.15 degC.m, now 11); Lean:
`add_derived_affine_scaled`.  The class is never excused: the stream derived-with-affine-unit is part of the
correspondence AND of the failing-input sweep, and the oracle reports such an input as a violation."""
import math

import _alg_common as A
from _alg_common import agree, case_key, impl, model_line, nontrivial, show  # noqa: F401  (module API)

ID = "C03"
LEAN_MODULES = ["Barril.Props.C03"]
DRIVERS = ["drv_alg"]
DRIVER_EXE = "drv_alg"
RULE = ("pairs (t, t') of seeded expression trees (depth <= 3 quick, <= 5 thorough; * / ** inside) with the same "
        "dimensions but other units, categories, values and factor order (9 quantity types, up to 5 units and 4 "
        "categories per type), then + and - in both operand orders and (a+b)-b; plus streams: simple operands "
        "(affine units included), identical quantities, empty quantities, captions, quantities written directly "
        "as dicts (zero totals, two units of one type), and a minority of dimension-incompatible pairs "
        "(both sides must report `units`); distinct = distinct (op, operand quantities, exact values); "
        "non-trivial = the operation succeeded on two different quantities; "
        "Array leg: a quarter of the operand pairs is also evaluated with Arrays (ndarray / list / tuple, 2-3 "
        "elements, element i of a leaf = value * multiplier i) on ONE pair of operand objects reused for a+b, b+a, "
        "(a+b)-b, a-b; every element of every step is a case; ndarray leaves of shallow operands also with element types int64, int32, "
        "float32 on the left, the right or both sides (exact integer values go to the model; bound with eps = 2**-24 "
        "where float32 takes part; a float32 value is judged only when every exact magnitude of the evaluation lies "
        "in 1e-30..1e30); a third of the Array groups draws the container kinds of the two operands independently, and "
        "a stream array-mixed runs EVERY pair of container kinds (ndarray / list / tuple on either side) x 1-4 elements "
        "with a quantity type at exponent +-2, +-3 in different units on the two sides")
EXHAUSTIVE = {"quick": False, "thorough": False}
ASSUMPTIONS = ["float results stay within K*eps*M (K=64) of the exact model: checked on every run, not proved",
               "the model is per number: an Array operation is the model applied to every element with the operands' "
               "quantities (that reduction is C10's theorem); the container kinds of the operands are not modelled",
               "the default singleton holds the POSC database that the translator rebuilds (same fill function)"]

CLASS_AFFINE = "simple-operands-different-affine-offsets"
CLASS_DERIVED_AFFINE = "derived-operand-affine-unit-exponent-1"
DEFAULT_WITNESS = [["L", float(10.0).hex(), "degC", "temperature"], ["L", float(1.0).hex(), "K", "temperature"]]


def setup(ctx):
    ctx.uni = A.Universe(ctx.fresh_rng("alg-universe"))
    ctx.notes["universe"] = dict(types=ctx.uni.types, units={t: ctx.uni.units[t] for t in ctx.uni.types},
                                 categories={t: ctx.uni.cats[t] for t in ctx.uni.types})


def _note(ctx, key):
    d = ctx.notes.setdefault("streams", {})
    d[key] = d.get(key, 0) + 1


def _emit(ctx, stream, op, a, b):
    c = A.make_case(op, a, b)
    if c is not None:
        _note(ctx, stream)
        return [c]
    _note(ctx, stream + ":operand-not-buildable")
    return []


ARRAY_SHARE = 0.25  # share of the operand pairs that are also evaluated with Arrays (operands reused)


def _both(ctx, stream, a, b):
    for op in ("+", "-"):
        yield from _emit(ctx, stream, op, a, b)
        yield from _emit(ctx, stream + "-swapped", op, b, a)
    arng = ctx.__dict__.setdefault("_arng", ctx.fresh_rng("C03-array-leg"))
    if arng.random() < ARRAY_SHARE:
        cs = A.array_cases(ctx, "add", a, b, arng)
        if cs:
            _note(ctx, "array:%s:%s" % (cs[0]["_t"]["arr"]["kind"], stream))
            d = ctx.notes.setdefault("array_leg", {})
            d["groups"] = d.get("groups", 0) + 1
            d["element_cases"] = d.get("element_cases", 0) + len(cs)
        yield from cs


def _gen(ctx, salt, max_depth, per_level, n_simple, n_odd):
    rng = ctx.fresh_rng("C03" + salt)
    uni = ctx.uni
    levels = A.grow_pool(uni, rng, max_depth, per_level)
    pool = [t for lv in levels for t in lv]
    # 1. same dimensions, other units / categories / values / factor order
    for lv in levels:
        for t in lv[:per_level]:
            v = uni.variant(rng, t)
            yield from _both(ctx, "compatible-d%d" % A.depth(t), t, v)
            if rng.random() < 0.3:
                yield from _emit(ctx, "add-then-sub", "-", ["+", t, v], v)
            if rng.random() < 0.15:
                yield from _both(ctx, "incompatible", t, rng.choice(pool))
    # 2. simple operands: every type of the universe, affine units included
    for _ in range(n_simple):
        t = rng.choice(uni.types + sorted(uni.affine))
        aff = t in uni.affine and rng.random() < 0.8
        a, b = uni.leaf(rng, t, affine=aff), uni.leaf(rng, t, affine=aff)
        yield from _both(ctx, "simple-affine" if aff else "simple", a, b)
        same = ["L", float(uni.value(rng)).hex()] + a[2:]
        yield from _emit(ctx, "identical-quantity", rng.choice("+-"), a, same)
        yield from _emit(ctx, "add-then-sub-simple", "-", ["+", a, b], b)
    # 3. odd shapes
    for _ in range(n_odd):
        t = rng.choice(pool)
        e = ["E", float(uni.value(rng)).hex()]
        yield from _both(ctx, "empty-operand", e, t)
        yield from _emit(ctx, "empty-empty", rng.choice("+-"), e, ["E", float(uni.value(rng)).hex()])
        yield from _both(ctx, "dimensionless-quotient", ["/", t, uni.variant(rng, t)], e)
        r = A.raw_operand(uni, rng)
        yield from _both(ctx, "raw-vs-variant", r, uni.variant(rng, r))
        r2 = ["R", r[1], [[c, rng.choice(uni.units[uni.db.GetCategoryQuantityType(c)]), x] for c, _u, x in r[2]]]
        yield from _both(ctx, "raw-vs-other-units", r, r2)
        yield from _both(ctx, "raw-vs-tree", r, t)
        lf = uni.leaf(rng)
        c1 = ["C", lf[1], lf[2], lf[3], rng.choice(["cap", "other cap"])]
        lf2 = uni.variant(rng, lf)
        c2 = rng.choice([lf2, ["C", lf2[1], lf2[2], lf2[3], "cap"], ["L", lf2[1], lf[2], lf[3]]])
        yield from _both(ctx, "captioned", c1, c2)
        ta = rng.choice(sorted(uni.affine))
        a, b = uni.leaf(rng, ta, affine=True), uni.leaf(rng, ta, affine=True)
        x = rng.choice(levels[0])
        yield from _both(ctx, "derived-with-affine-unit", ["*", a, x], ["*", uni.variant(rng, x), b])


def _mixed_arrays(ctx, salt, reps):
    """Array operands with EVERY combination of container kinds (ndarray / list / tuple on either side) and 1-4
    elements; both operands have the same dimensions with a quantity type at the exponent +-2 or +-3 (a power, or a
    power in a denominator) in different units, so that the matching re-expresses a whole container with an exponent
    other than 1.  Same steps as the Array leg: a+b, b+a, (a+b)-b, a-b."""
    rng = ctx.fresh_rng("C03-mixed" + salt)
    uni = ctx.uni
    types = [t for t in uni.types if len(uni.units[t]) >= 2]
    small = [1.5, -1.25, 0.75, 2.0, -0.5, 6.0, -3.0, 50.0, 20.0, -8.0]
    i = 0
    for _rep in range(reps):
        for ka in A.ARR_CONTAINERS:
            for kb in A.ARR_CONTAINERS:
                for n in (1, 2, 3, 4):
                    e = (2, -2, 3, -3)[(i + i // 4 + _rep) % 4]
                    i += 1
                    t = rng.choice(types)
                    u1, u2 = rng.sample(uni.units[t], 2)
                    c1, c2 = rng.choice(uni.cats[t]), rng.choice(uni.cats[t])
                    a = ["^", ["L", float(rng.choice(small)).hex(), u1, c1], abs(e)]
                    b = ["^", ["L", float(rng.choice(small)).hex(), u2, c2], abs(e)]
                    if e < 0:
                        x = uni.leaf(rng, rng.choice([q for q in uni.types if q != t]))
                        a = ["/", ["L", float(rng.choice(small)).hex()] + x[2:], a]
                        b = ["/", ["L", float(rng.choice(small)).hex()] + uni.variant(rng, x)[2:], b]
                    cs = A.array_cases(ctx, "add", a, b, rng, kind=A.kind_name(ka, kb), n=n)
                    _note(ctx, "array-mixed:%s:%d-elements:exp%+d%s" % (A.kind_name(ka, kb), n, e, "" if cs else ":not-buildable"))
                    d = ctx.notes.setdefault("array_leg", {})
                    d["groups"] = d.get("groups", 0) + 1
                    d["element_cases"] = d.get("element_cases", 0) + len(cs)
                    yield from cs


def cases(ctx):
    if ctx.tier == "quick":
        yield from _gen(ctx, "corr", 3, 70, 120, 40)
        yield from _mixed_arrays(ctx, "corr", 1)
    else:
        yield from _gen(ctx, "corr", 5, 500, 2500, 700)
        yield from _mixed_arrays(ctx, "corr", 6)


def search(ctx):
    if ctx.tier == "quick":
        yield from _gen(ctx, "search", 3, 120, 200, 40)
        yield from _mixed_arrays(ctx, "search", 1)
    else:
        yield from _gen(ctx, "search", 5, 1200, 3000, 500)
        yield from _mixed_arrays(ctx, "search", 4)


# ------------------------------------------------------------- the property itself, on the real code only
def _fail(clause, c, **kw):
    d = dict(clause=clause, case=show(c))
    d.update(kw)
    return d


def _has_raw(t):
    if t is None:
        return False
    if t[0] == "R":
        return True
    if t[0] in ("L", "C", "E"):
        return False
    if t[0] == "^":
        return _has_raw(t[1])
    return _has_raw(t[1]) or _has_raw(t[2])


def _simple_pair(t):
    """(quantity type, unit a, unit b) when both operands are simple exponent-1 quantities"""
    a, b = t["a"], t["b"]
    if a is None or b is None or not (A.is_simple_tree(a) and A.is_simple_tree(b)):
        return None
    return a[2], b[2]


def _oracle_array(c, ctx):
    """The property on Arrays, real code only: the operand OBJECTS are built once and reused for a+b, b+a,
    (a+b)-b and a-b; every element is compared with the independent dimensional analysis of its own leaves."""
    t = c["_t"]
    ar = t["arr"]
    if _has_raw(t["a"]) or _has_raw(t["b"]):
        return None
    db = ctx.uni.db
    dts, tol = A.arr_dts(ar), A.arr_tol(ar)
    sa, sb = A.arr_sems(t["a"], ar["mult"], db, dts[0]), A.arr_sems(t["b"], ar["mult"], db, dts[1])

    def rc(x, y, scale=0.0):
        return A.rel_close(x, y, scale, tol)
    if any(x is None for x in sa + sb) or any(x[0] != y[0] for x, y in zip(sa, sb)):
        return None  # the property speaks about matching dimensions
    if not all(x[2] for x in sa + sb) or any(x[1] is None or not math.isfinite(x[1]) for x in sa + sb):
        return None  # units with an offset: the Scalar leg's business
    import numpy

    def fail(clause, **kw):
        return _fail(clause, c, container=ar["kind"], element_multipliers=ar["mult"],
                     element_types=dict(zip(("a", "b"), dts)), **kw)

    with numpy.errstate(all="ignore"):
        try:
            a = A.build_array(t["a"], ar["mult"], A.arr_kinds(ar)[0], dts[0])
            b = A.build_array(t["b"], ar["mult"], A.arr_kinds(ar)[1], dts[1])
            a0, b0 = A.elems(a), A.elems(b)
        except Exception:
            return None
        try:
            ma, mb = [x[1] for x in sa], [x[1] for x in sb]
            n = len(a0)
            r = a + b
            if r.GetQuantity() != a.GetQuantity():
                return fail("Array a+b has the left operand's units and categories", got=repr(r.GetQuantity()))
            if A.f32_skip(ctx, ar, [a, b, r], db, ma + mb):
                return None  # float32 range: magnitudes outside 1e-30..1e30 are not judged
            got = A.mags_of(r, db)
            rv = A.elems(r)  # as returned (the result may share its container with an operand)
            if not all(math.isfinite(x) for x in got):
                return None
            for i in range(n):
                if not rc(got[i], ma[i] + mb[i], max(abs(ma[i]), abs(mb[i]))):
                    return fail("Array a+b: element = a's element + b's element re-expressed (compared in base units)",
                                element=i, got=got[i], want=ma[i] + mb[i])
            r2 = b + a  # the SAME operand objects
            got2 = A.mags_of(r2, db)
            for i in range(n):
                if not rc(got2[i], ma[i] + mb[i], max(abs(ma[i]), abs(mb[i]))):
                    return fail("Array a+b and b+a (same operand objects) denote the same amount", element=i,
                                ab_base=got[i], ba_base=got2[i], a_values_now=A.elems(a), a_values_built=a0,
                                b_values_now=A.elems(b), b_values_built=b0)
            back = r - b
            if back.GetQuantity() != a.GetQuantity():
                return fail("Array (a+b)-b has a's units and categories", got=repr(back.GetQuantity()))
            bv = A.elems(back)
            for i in range(n):
                if not rc(bv[i], a0[i], max(abs(a0[i]), abs(rv[i]), abs(rv[i] - a0[i]))):
                    return fail("Array (a+b)-b denotes a (same operand objects)", element=i, got=bv[i], want=a0[i],
                                a_values_now=A.elems(a))
            d = a - b
            gd = A.mags_of(d, db)
            for i in range(n):
                if not rc(gd[i], ma[i] - mb[i], max(abs(ma[i]), abs(mb[i]))):
                    return fail("Array a-b: element = a's element - b's element re-expressed (operands reused)",
                                element=i, got=gd[i], want=ma[i] - mb[i], a_values_now=A.elems(a), a_values_built=a0)
        except OverflowError:
            return None
        except Exception as e:
            return fail("Array operation on dimension-compatible operands raised", error=repr(e))
    return None


def oracle(c, ctx):
    t = c["_t"]
    k = t["k"]
    if k not in ("+", "-"):
        return None
    if t.get("arr"):
        return _oracle_array(c, ctx)
    if _has_raw(t["a"]) or _has_raw(t["b"]):
        return None  # not "built from table units by products, quotients and powers"
    db = ctx.uni.db
    sa, sb = A.sem(t["a"], db), A.sem(t["b"], db)
    if sa is None or sb is None or sa[0] != sb[0]:
        return None  # the property speaks about matching dimensions
    try:
        a, b = A.build(t["a"]), A.build(t["b"])
    except Exception:
        return None
    sign = 1.0 if k == "+" else -1.0
    simple = _simple_pair(t)
    try:
        r = A.apply_op(k, a, b)
        if not math.isfinite(r.value):
            return None
        if r.GetQuantity() != a.GetQuantity():
            return _fail("result has the left operand's units and categories", c, got=repr(r.GetQuantity()),
                         want=repr(a.GetQuantity()), entries=A.entries_of(r))
        if simple is not None:
            qt = db.GetQuantityType(simple[0])
            conv = db.Convert(qt, simple[1], simple[0], b.value)
            scale = abs(a.value) + abs(conv) + abs(db.Convert(qt, simple[1], simple[0], 0.0))
            if not A.rel_close(r.value, a.value + sign * conv, scale):
                return _fail("value is a.value +/- b converted to a's unit", c, got=r.value, want=a.value + sign * conv)
        else:
            if not (sa[2] and sb[2]):
                # a derived operand holding a unit with an offset: re-expressing must SCALE (ratio ** exp)
                want = _scaled_value(a, b, db)
                if want is None:
                    return None
                if not A.rel_close(r.value, a.value + sign * want, abs(a.value) + abs(want)):
                    return _fail("a derived operand is re-expressed by scaling with each unit ratio ** exponent", c,
                                 got=r.value, want=a.value + sign * want, **{"class": CLASS_DERIVED_AFFINE})
                return None
            ma, mb = sa[1], sb[1]
            if ma is not None and mb is not None and math.isfinite(ma) and math.isfinite(mb):
                got = A.mag_of(r, db)
                if not A.rel_close(got, ma + sign * mb, max(abs(ma), abs(mb))):
                    return _fail("value is a.value +/- b re-expressed in a's units (compared in base units)", c,
                                 got=got, want=ma + sign * mb, result=repr(r))
        if k == "+":
            back = r - b
            if back.GetQuantity() != a.GetQuantity():
                return _fail("(a+b)-b has a's units and categories", c, got=repr(back.GetQuantity()))
            scale = max(abs(a.value), abs(r.value), abs(r.value - a.value))
            if not A.rel_close(back.value, a.value, scale):
                return _fail("(a+b)-b denotes a", c, got=back.value, want=a.value)
            r2 = b + a
            if simple is not None:
                qt = db.GetQuantityType(simple[0])
                base = db.GetBaseUnit(qt)
                x1 = db.Convert(qt, simple[0], base, r.value)
                x2 = db.Convert(qt, simple[1], base, r2.value)
                o1, o2 = A.offset0(db, qt, simple[0]), A.offset0(db, qt, simple[1])
                if not A.rel_close(x1, x2, abs(x1) + abs(x2) + abs(o1) + abs(o2)):
                    f = _fail("a+b and b+a denote the same amount", c, ab=repr(r), ba=repr(r2), ab_base=x1, ba_base=x2)
                    if o1 != o2:
                        f["class"] = CLASS_AFFINE
                    return f
            else:
                x1, x2 = A.mag_of(r, db), A.mag_of(r2, db)
                if not A.rel_close(x1, x2, max(abs(sa[1] or 0.0), abs(sb[1] or 0.0))):
                    return _fail("a+b and b+a denote the same amount", c, ab=repr(r), ba=repr(r2), ab_base=x1, ba_base=x2)
    except OverflowError:
        return None
    except Exception as e:
        return _fail("operation on dimension-compatible operands raised", c, error=repr(e))
    return None


def _scaled_value(a, b, db):
    """b.value re-expressed in a's units by pure scaling (one unit per quantity type on each side)"""
    ua = {}
    for cat, u, _e in A.entries_of(a):
        ua.setdefault(db.GetCategoryQuantityType(cat), u)
    v = b.value
    for cat, u, e in A.entries_of(b):
        qt = db.GetCategoryQuantityType(cat)
        if qt not in ua:
            return None
        v = v * (A.slope(db, qt, u) / A.slope(db, qt, ua[qt])) ** e
    return v


# ------------------------------------------------------------- known findings
def _offsets_differ(case, ctx):
    sp = _simple_pair(case["_t"])
    if sp is None:
        return False
    db = ctx_db(ctx)
    qt = db.GetQuantityType(sp[0])
    if qt is None or db.GetQuantityType(sp[1]) != qt:
        return False
    return A.offset0(db, qt, sp[0]) != A.offset0(db, qt, sp[1])


def ctx_db(ctx=None):
    from barril.units.unit_database import UnitDatabase

    return UnitDatabase.GetSingleton()


def matches_known(entry, case, failure):
    """Only the recorded input class is excused: two SIMPLE operands whose units have different affine offsets,
    failing the 'hence b+a' clause and nothing else."""
    cls = (entry.get("matcher") or {}).get("class")
    if cls == CLASS_AFFINE:
        return (failure.get("class") == CLASS_AFFINE and failure.get("clause") == "a+b and b+a denote the same amount"
                and case["_t"]["k"] == "+" and _offsets_differ(case, None))
    return False  # in particular the class of derived operands holding an offset unit is never excused


def _leaf_of(spec):
    """[value, unit] or [value, unit, category] of a known-findings entry -> a leaf"""
    v, u = spec[0], spec[1]
    cat = spec[2] if len(spec) > 2 else ctx_db().GetDefaultCategory(u)
    return ["L", float(v).hex(), u, cat]


def replay_finding(entry, ctx):
    cls = (entry.get("matcher") or {}).get("class")
    rc = entry.get("replay_case") or {}
    if cls == CLASS_AFFINE:
        w = [_leaf_of(rc["a"]), _leaf_of(rc["b"])] if ("a" in rc and "b" in rc) else DEFAULT_WITNESS
    else:
        return None
    c = A.make_case("+", w[0], w[1])
    if c is None:
        return None
    f = oracle(c, ctx)
    return f if (f and matches_known(entry, c, f)) else None
