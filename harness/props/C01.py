"""C01 - unit conversion is invertible, path independent and strictly increasing.

Decided by: Barril/Props/C01.lean (generic theorems over any database whose rows satisfy the row
predicate `UnitRow.wf`) + the generated `decide +kernel` table theorems over the rows the translator
reads from the three self-built databases.  Tie: translator + numeric correspondence of
`UnitDatabase.Convert` against `Db.convert` on every ordered unit pair."""
import math

import translate
from common import close, err_kind, exact, qparse, qstr, sym

ID = "C01"
LEAN_MODULES = ["Barril.Props.C01"]
DRIVERS = ["drv_conv"]
DRIVER_EXE = "drv_conv"
RULE = ("every ordered pair (u,v) of units of every quantity type of the three self-built databases, through "
        "UnitDatabase.Convert, on seeded values (0, +-1, a magnitude in [1e-12,1e12], the pre-image of base 0 "
        "of affine units and its float neighbours, ints; 20% of them through another entry point: inside a "
        "one-element list / tuple / ndarray, the exponent-list form [(u,1)] -> [(v,1)], Scalar.GetValue, "
        "Quantity.ConvertScalarValue, Array / FixedArray .GetValues holding a list, tuple, ndarray, list of tuples or "
        "tuple of tuples); plus, always, every (offset unit x smallest-step / largest-step / base / next offset unit) "
        "pair of every type through EVERY entry point on amounts of the size of the type's offsets; "
        "distinct = distinct (db, type, u, v, x); "
        "non-trivial = u != v and the conversion succeeded")
EXHAUSTIVE = {"quick": False, "thorough": False}
ASSUMPTIONS = ["float results stay within K*eps*M (K=64) of the exact model: checked on every run, not proved",
               "a Python float literal denotes the decimal it is written as (differs from the double by <= 1/2 ulp)"]
KINDS = ("posc", "nocat", "simple")


def setup(ctx):
    ctx.dbs = {k: translate.build_db(k) for k in KINDS}
    ctx.cats_of_type = {}
    for k in KINDS:
        m = {}
        for name, ci in ctx.dbs[k].categories_to_quantity_types.items():
            m.setdefault(ci.quantity_type, []).append(name)
        ctx.cats_of_type[k] = m


def _values(db, qt, u, rng, n):
    base = db.quantity_types[qt][0].unit
    pool = [0.0, 1.0, -1.0, 7, 10.0 ** rng.uniform(-12, 12) * rng.choice((1, -1)), rng.uniform(-1000, 1000)]
    try:
        z = db.Convert(qt, base, u, 0.0)
        if z != 0.0 and math.isfinite(z):
            pool += [z, math.nextafter(z, math.inf), math.nextafter(z, -math.inf)]
    except Exception:
        pass
    rng.shuffle(pool)
    return pool[:n]


def _case(kind, cq, u, v, w, x, box="num"):
    return dict(op="convert", db=kind, cq=str(sym(cq)), to=str(sym(v)), x=qstr(exact(x)),
                _t=dict(cq=cq, u=u, v=v, w=w, x=(x if isinstance(x, int) else float(x).hex()), box=box),
                **{"from": str(sym(u))})


ARRAY_BOXES = ("arr_list", "arr_tuple", "arr_nd", "arr_tuples", "arr_ttuples", "fixed_list", "fixed_tuples")
ALL_BOXES = ("num", "list", "tuple", "nd", "explist", "scalar", "quantity") + ARRAY_BOXES


def _convert(db, box, cq, u, v, x):
    """UnitDatabase.Convert on the number itself or on a one-element list / tuple / ndarray holding it (the
    container branches of Convert must agree with the float branch: same closures)"""
    if box == "num":
        return db.Convert(cq, u, v, x)
    if box == "explist":
        # the exponent-list form with exponent 1 must be the plain conversion (same closures)
        return db.Convert(cq, [(u, 1)], [(v, 1)], x)
    if box in ("scalar", "quantity"):
        # the object routes: Scalar.GetValue / Quantity.ConvertScalarValue on a value of category `cat`
        from barril.units import ObtainQuantity, Scalar
        from barril.units.unit_database import UnitDatabase

        cat = cq if cq in db.categories_to_quantity_types else db.GetDefaultCategory(u)
        if cat is None or cat not in db.categories_to_quantity_types:
            return db.Convert(cq, u, v, x)  # a database without categories has no value objects
        UnitDatabase.PushSingleton(db)
        try:
            if box == "scalar":
                return Scalar(x, u, cat).GetValue(v)
            return ObtainQuantity(u, cat).ConvertScalarValue(float(x), v)
        finally:
            UnitDatabase.PopSingleton()
    if box in ARRAY_BOXES:
        # the container objects: Array / FixedArray holding the number in a list, a tuple, an ndarray, a list of
        # tuples or a tuple of tuples (Array.GetAbstractValue has its own branch for points), read with GetValues(v)
        import numpy
        from barril.units import Array, FixedArray
        from barril.units.unit_database import UnitDatabase

        cat = cq if cq in db.categories_to_quantity_types else db.GetDefaultCategory(u)
        if cat is None or cat not in db.categories_to_quantity_types:
            return db.Convert(cq, u, v, x)  # a database without categories has no value objects
        UnitDatabase.PushSingleton(db)
        try:
            if box == "fixed_list":
                r = FixedArray(2, cat, [x, x], u).GetValues(v)
                if len(r) != 2 or r[0] != r[1]:
                    raise ValueError("FixedArray.GetValues changed the shape / treats equal items differently")
                return r[0] if isinstance(r[0], int) else float(r[0])
            if box in ("arr_tuples", "arr_ttuples", "fixed_tuples"):
                pts = [(x,), (x, x)] if box != "arr_ttuples" else ((x,), (x, x))
                r = (FixedArray(2, cat, pts, u) if box == "fixed_tuples" else Array(pts, u, cat)).GetValues(v)
                if len(r) != 2 or len(r[0]) != 1 or len(r[1]) != 2 or not (r[0][0] == r[1][0] == r[1][1]):
                    raise ValueError("list of tuples: shape changed / equal coordinates converted differently")
                return r[0][0] if isinstance(r[0][0], int) else float(r[0][0])
            held = [x] if box == "arr_list" else ((x,) if box == "arr_tuple" else numpy.array([float(x)]))
            r = Array(held, u, cat).GetValues(v)
            if len(r) != 1:
                raise ValueError("container of length %d returned for length 1" % len(r))
            return r[0] if isinstance(r[0], int) else float(r[0])
        finally:
            UnitDatabase.PopSingleton()
    if box == "list":
        r = db.Convert(cq, u, v, [x])
    elif box == "tuple":
        r = db.Convert(cq, u, v, (x,))
    else:
        import numpy

        r = db.Convert(cq, u, v, numpy.array([float(x)]))
    if len(r) != 1:
        raise ValueError("container of length %d returned for length 1" % len(r))
    return float(r[0])


def _x(t):
    return t["x"] if isinstance(t["x"], int) else float.fromhex(t["x"])


def _pairs(ctx, nvals, salt):
    rng = ctx.fresh_rng("C01" + salt)
    for kind in KINDS:
        db = ctx.dbs[kind]
        n = nvals[kind]
        for qt, infos in db.quantity_types.items():
            units = [i.unit for i in infos]
            cats = ctx.cats_of_type[kind].get(qt, [])
            for u in units:
                for v in units:
                    w = rng.choice(units)
                    for x in _values(db, qt, u, rng, n):
                        cq = rng.choice(cats) if (cats and rng.random() < 0.3) else qt
                        if cq not in db.categories_to_quantity_types and cq not in db.quantity_types:
                            cq = qt
                        box = "num" if rng.random() < 0.8 else rng.choice(ALL_BOXES[1:])
                        yield _case(kind, cq, u, v, w, x, box)


def _shape_pairs(ctx, kind, qt):
    """by the SHAPE of the formulas in the regenerated table: every unit with an offset paired (both directions) with
    the smallest-step unit, the largest-step unit, the base unit and the next unit with an offset of its type"""
    db = ctx.dbs[kind]
    here = [i.unit for i in db.quantity_types[qt]]
    offs, steps = [], {}
    for r in ctx.data[kind]["units"]:
        if r["qtype"] != qt or r["sym"] not in here or not r.get("ok", True):
            continue
        p, q, rr, s_ = r["tobase"]
        if p != 0 or r["frombase"][0] != 0:
            offs.append(r["sym"])
        elif s_ == 0 and rr != 0 and q != 0:
            steps[r["sym"]] = abs(q / rr)
    offs.sort()
    names = sorted(steps)
    small = min(names, key=lambda n: (steps[n], n)) if names else None
    large = max(names, key=lambda n: (steps[n], n)) if names else None
    pairs = []
    for k, o in enumerate(offs):
        for w in (small, large, here[0], offs[(k + 1) % len(offs)]):
            if w is not None and w != o and (w, o) not in pairs:
                pairs += [(w, o), (o, w)]
    top = max([abs(float(r["tobase"][0] / r["tobase"][2])) for r in ctx.data[kind]["units"]
               if r["qtype"] == qt and r["tobase"][2] != 0 and r["tobase"][0] != 0] + [1.0])
    return pairs, steps, top


def _shape_cases(ctx, salt, nvals):
    """every entry point (float, list, tuple, ndarray, exponent list, Scalar, Quantity, Array / FixedArray holding a
    list, tuple, ndarray, list of tuples, tuple of tuples) on every (offset unit x smallest/largest-step unit) pair,
    on amounts of the size of the type's offsets (1e17 pPa = 1 bar): a route that loses the amount next to the
    target's offset is exact on small numbers and wrong on these"""
    rng = ctx.fresh_rng("C01shape" + salt)
    n = 0
    for kind in KINDS:
        db = ctx.dbs[kind]
        for qt in db.quantity_types:
            pairs, steps, top = _shape_pairs(ctx, kind, qt)
            units = [i.unit for i in db.quantity_types[qt]]
            for (u, v) in pairs:
                n += 1
                step = float(steps.get(u, 1.0)) or 1.0
                for box in ALL_BOXES:
                    for _k in range(nvals):
                        x = top * 10.0 ** rng.choice((-3, -1, 0, 0, 1, 2)) * rng.uniform(1.0, 9.9) * rng.choice((1, 1, -1)) / step
                        if not (math.isfinite(x) and abs(x) < 1e300):
                            x = 1.0
                        yield _case(kind, qt, u, v, rng.choice(units), x, box)
    ctx.notes["unit_shape_pairs_every_entry_point"] = n


def cases(ctx):
    nv = dict(posc=2, nocat=1, simple=6) if ctx.tier == "quick" else dict(posc=8, nocat=4, simple=9)
    yield from _pairs(ctx, nv, "corr")
    yield from _shape_cases(ctx, "corr", 1 if ctx.tier == "quick" else 4)
    # a malformed stream: cross-type and unknown units must be rejected by both sides
    rng = ctx.fresh_rng("C01bad")
    db = ctx.dbs["posc"]
    allu = [i.unit for infos in db.quantity_types.values() for i in infos]
    qts = list(db.quantity_types)
    for _ in range(300 if ctx.tier == "quick" else 3000):
        qt = rng.choice(qts)
        u = rng.choice([i.unit for i in db.quantity_types[qt]])
        v = rng.choice(allu + ["nope", ""])
        yield _case("posc", rng.choice([qt, "no such type"]), u, v, u, 1.5)


def model_line(c):
    return {k: v for k, v in c.items() if k != "_t"}


def case_key(c):
    return model_line(c)


def show(c):
    t = c["_t"]
    return dict(db=c["db"], cq=t["cq"], frm=t["u"], to=t["v"], x=_x(t), container=t.get("box", "num"))


def impl(c, ctx):
    t = c["_t"]
    try:
        r = _convert(ctx.dbs[c["db"]], t.get("box", "num"), t["cq"], t["u"], t["v"], _x(t))
    except Exception as e:
        return dict(err=err_kind(e))
    if isinstance(r, bool) or not isinstance(r, (int, float)):
        return dict(err="other", detail="non-number result %r" % (r,))
    return dict(ok=float(r).hex(), same=(r is _x(t) or r == _x(t)))


def agree(c, io, mo, ctx):
    if "err" in io or "err" in mo:
        if ("err" in io) != ("err" in mo):
            return "one side fails: impl=%s model=%s" % (io, mo)
        return None if io["err"] == mo["err"] else "error kinds differ"
    r = float.fromhex(io["ok"])
    y, m = qparse(mo["ok"]), qparse(mo["M"])
    if c["from"] == c["to"]:
        return None if exact(r) == y else "same-unit conversion is not exact"
    return None if close(r, y, m) else "float result %r is not within K*eps*M of the exact %s" % (r, float(y))


def nontrivial(c, io):
    return c["from"] != c["to"] and "ok" in io


# ------------------------------------------------------------- the property itself, on the real code only
def _tol(*mags):
    return 1e-9 * sum(abs(m) for m in mags if math.isfinite(m)) + 1e-300


def oracle(c, ctx):
    t = c["_t"]
    db = ctx.dbs[c["db"]]
    cq, u, v, w, x = t["cq"], t["u"], t["v"], t.get("w") or t["u"], _x(t)
    box = t.get("box", "num")

    def C(cq_, u_, v_, x_):
        return _convert(db, box, cq_, u_, v_, x_)

    try:
        qt = db.GetInfo(db.categories_to_quantity_types[cq].quantity_type if cq in db.categories_to_quantity_types else cq, u).quantity_type
        if db.GetQuantityType(v) != qt or db.GetQuantityType(w) != qt:
            return None  # the property speaks about units of one quantity type
        base = db.quantity_types[qt][0].unit
    except Exception:
        return None
    try:
        if C(cq, u, u, x) != x:
            return dict(clause="u->u exact", got=C(cq, u, u, x), want=x, container=box)
        y = C(cq, u, v, x)
        back = C(cq, v, u, y)
        tol = _tol(x, C(cq, v, u, 0.0), C(cq, base, u, 0.0))
        if not abs(back - x) <= tol:
            return dict(clause="u->v->u", u=u, v=v, x=x, via=y, got=back, tol=tol, container=box)
        direct = C(cq, u, w, x)
        two = C(cq, v, w, y)
        tol = _tol(direct, C(cq, u, w, 0.0), C(cq, v, w, 0.0), C(cq, base, w, 0.0))
        if not abs(direct - two) <= tol:
            return dict(clause="u->w = u->v->w", u=u, v=v, w=w, x=x, direct=direct, two_step=two, tol=tol, container=box)
        x2 = x + max(abs(x) * 1e-3, 1e-3 * abs(C(cq, base, u, 1.0) - C(cq, base, u, 0.0)), 1e-200)
        y2 = C(cq, u, v, x2)
        if not y < y2:
            return dict(clause="strictly increasing", u=u, v=v, x1=x, x2=x2, y1=y, y2=y2, container=box)
    except Exception as e:
        return dict(clause="conversion inside one quantity type raised", u=u, v=v, w=w, x=x, error=repr(e))
    return None


def table_candidates(ctx):
    """Rows on which the C01 row predicate is false (evaluated by the model's executable predicate)."""
    import engine
    from common import dumps, unsym

    out = []
    for kind in KINDS:
        res, _ = engine.run_driver(DRIVER_EXE, [dumps(dict(op="badrows", db=kind))])
        db = ctx.dbs[kind]
        for s in res[0].get("rows", []):
            u = unsym(int(s))
            qt = db.GetQuantityType(u)
            if qt is None:
                continue
            units = [i.unit for i in db.quantity_types[qt]]
            for v in units[:4] + units[-2:]:
                for x in (1.0, 0.0, -3.5, 120.0, 1e6):
                    out.append(_case(kind, qt, u, v, units[0], x))
                    out.append(_case(kind, qt, v, u, units[-1], x))
    ctx.notes["rows_failing_row_predicate"] = len(out)
    return out


def search(ctx):
    nv = dict(posc=3, nocat=1, simple=9) if ctx.tier == "quick" else dict(posc=10, nocat=3, simple=9)
    yield from _shape_cases(ctx, "search", 2)
    yield from _pairs(ctx, nv, "search")
