"""C01 - unit conversion is invertible, path independent and strictly increasing.

Decided by: Barril/Props/C01.lean (generic theorems over any database whose rows satisfy the row
predicate `UnitRow.wf`) + the generated `decide +kernel` table theorems over the rows the translator
reads from the three self-built databases.  Tie: translator + numeric correspondence of
`UnitDatabase.Convert` against `Db.convert` on every ordered unit pair."""
import math

import translate
from common import close, err_kind, exact, qparse, qstr, sym

ID = "C01"
LEAN_MODULES = ["Barril.Props.C01"]
DRIVERS = ["drv_conv"]
DRIVER_EXE = "drv_conv"
RULE = ("every ordered pair (u,v) of units of every quantity type of the three self-built databases, through "
        "UnitDatabase.Convert, on seeded values (0, +-1, a magnitude in [1e-12,1e12], the pre-image of base 0 "
        "of affine units and its float neighbours, ints; 20% of them through another entry point: inside a "
        "one-element list / tuple / ndarray, the exponent-list form [(u,1)] -> [(v,1)], Scalar.GetValue, "
        "Quantity.ConvertScalarValue); "
        "distinct = distinct (db, type, u, v, x); "
        "non-trivial = u != v and the conversion succeeded")
EXHAUSTIVE = {"quick": False, "thorough": False}
ASSUMPTIONS = ["float results stay within K*eps*M (K=64) of the exact model: checked on every run, not proved",
               "a Python float literal denotes the decimal it is written as (differs from the double by <= 1/2 ulp)"]
KINDS = ("posc", "nocat", "simple")


def setup(ctx):
    ctx.dbs = {k: translate.build_db(k) for k in KINDS}
    ctx.cats_of_type = {}
    for k in KINDS:
        m = {}
        for name, ci in ctx.dbs[k].categories_to_quantity_types.items():
            m.setdefault(ci.quantity_type, []).append(name)
        ctx.cats_of_type[k] = m


def _values(db, qt, u, rng, n):
    base = db.quantity_types[qt][0].unit
    pool = [0.0, 1.0, -1.0, 7, 10.0 ** rng.uniform(-12, 12) * rng.choice((1, -1)), rng.uniform(-1000, 1000)]
    try:
        z = db.Convert(qt, base, u, 0.0)
        if z != 0.0 and math.isfinite(z):
            pool += [z, math.nextafter(z, math.inf), math.nextafter(z, -math.inf)]
    except Exception:
        pass
    rng.shuffle(pool)
    return pool[:n]


def _case(kind, cq, u, v, w, x, box="num"):
    return dict(op="convert", db=kind, cq=str(sym(cq)), to=str(sym(v)), x=qstr(exact(x)),
                _t=dict(cq=cq, u=u, v=v, w=w, x=(x if isinstance(x, int) else float(x).hex()), box=box),
                **{"from": str(sym(u))})


def _convert(db, box, cq, u, v, x):
    """UnitDatabase.Convert on the number itself or on a one-element list / tuple / ndarray holding it (the
    container branches of Convert must agree with the float branch: same closures)"""
    if box == "num":
        return db.Convert(cq, u, v, x)
    if box == "explist":
        # the exponent-list form with exponent 1 must be the plain conversion (same closures)
        return db.Convert(cq, [(u, 1)], [(v, 1)], x)
    if box in ("scalar", "quantity"):
        # the object routes: Scalar.GetValue / Quantity.ConvertScalarValue on a value of category `cat`
        from barril.units import ObtainQuantity, Scalar
        from barril.units.unit_database import UnitDatabase

        cat = cq if cq in db.categories_to_quantity_types else db.GetDefaultCategory(u)
        if cat is None or cat not in db.categories_to_quantity_types:
            return db.Convert(cq, u, v, x)  # a database without categories has no value objects
        UnitDatabase.PushSingleton(db)
        try:
            if box == "scalar":
                return Scalar(x, u, cat).GetValue(v)
            return ObtainQuantity(u, cat).ConvertScalarValue(float(x), v)
        finally:
            UnitDatabase.PopSingleton()
    if box == "list":
        r = db.Convert(cq, u, v, [x])
    elif box == "tuple":
        r = db.Convert(cq, u, v, (x,))
    else:
        import numpy

        r = db.Convert(cq, u, v, numpy.array([float(x)]))
    if len(r) != 1:
        raise ValueError("container of length %d returned for length 1" % len(r))
    return float(r[0])


def _x(t):
    return t["x"] if isinstance(t["x"], int) else float.fromhex(t["x"])


def _pairs(ctx, nvals, salt):
    rng = ctx.fresh_rng("C01" + salt)
    for kind in KINDS:
        db = ctx.dbs[kind]
        n = nvals[kind]
        for qt, infos in db.quantity_types.items():
            units = [i.unit for i in infos]
            cats = ctx.cats_of_type[kind].get(qt, [])
            for u in units:
                for v in units:
                    w = rng.choice(units)
                    for x in _values(db, qt, u, rng, n):
                        cq = rng.choice(cats) if (cats and rng.random() < 0.3) else qt
                        if cq not in db.categories_to_quantity_types and cq not in db.quantity_types:
                            cq = qt
                        box = "num" if rng.random() < 0.8 else rng.choice(["list", "tuple", "nd", "explist", "scalar", "quantity"])
                        yield _case(kind, cq, u, v, w, x, box)


def cases(ctx):
    nv = dict(posc=2, nocat=1, simple=6) if ctx.tier == "quick" else dict(posc=8, nocat=4, simple=9)
    yield from _pairs(ctx, nv, "corr")
    # a malformed stream: cross-type and unknown units must be rejected by both sides
    rng = ctx.fresh_rng("C01bad")
    db = ctx.dbs["posc"]
    allu = [i.unit for infos in db.quantity_types.values() for i in infos]
    qts = list(db.quantity_types)
    for _ in range(300 if ctx.tier == "quick" else 3000):
        qt = rng.choice(qts)
        u = rng.choice([i.unit for i in db.quantity_types[qt]])
        v = rng.choice(allu + ["nope", ""])
        yield _case("posc", rng.choice([qt, "no such type"]), u, v, u, 1.5)


def model_line(c):
    return {k: v for k, v in c.items() if k != "_t"}


def case_key(c):
    return model_line(c)


def show(c):
    t = c["_t"]
    return dict(db=c["db"], cq=t["cq"], frm=t["u"], to=t["v"], x=_x(t), container=t.get("box", "num"))


def impl(c, ctx):
    t = c["_t"]
    try:
        r = _convert(ctx.dbs[c["db"]], t.get("box", "num"), t["cq"], t["u"], t["v"], _x(t))
    except Exception as e:
        return dict(err=err_kind(e))
    if isinstance(r, bool) or not isinstance(r, (int, float)):
        return dict(err="other", detail="non-number result %r" % (r,))
    return dict(ok=float(r).hex(), same=(r is _x(t) or r == _x(t)))


def agree(c, io, mo, ctx):
    if "err" in io or "err" in mo:
        if ("err" in io) != ("err" in mo):
            return "one side fails: impl=%s model=%s" % (io, mo)
        return None if io["err"] == mo["err"] else "error kinds differ"
    r = float.fromhex(io["ok"])
    y, m = qparse(mo["ok"]), qparse(mo["M"])
    if c["from"] == c["to"]:
        return None if exact(r) == y else "same-unit conversion is not exact"
    return None if close(r, y, m) else "float result %r is not within K*eps*M of the exact %s" % (r, float(y))


def nontrivial(c, io):
    return c["from"] != c["to"] and "ok" in io


# ------------------------------------------------------------- the property itself, on the real code only
def _tol(*mags):
    return 1e-9 * sum(abs(m) for m in mags if math.isfinite(m)) + 1e-300


def oracle(c, ctx):
    t = c["_t"]
    db = ctx.dbs[c["db"]]
    cq, u, v, w, x = t["cq"], t["u"], t["v"], t.get("w") or t["u"], _x(t)
    box = t.get("box", "num")

    def C(cq_, u_, v_, x_):
        return _convert(db, box, cq_, u_, v_, x_)

    try:
        qt = db.GetInfo(db.categories_to_quantity_types[cq].quantity_type if cq in db.categories_to_quantity_types else cq, u).quantity_type
        if db.GetQuantityType(v) != qt or db.GetQuantityType(w) != qt:
            return None  # the property speaks about units of one quantity type
        base = db.quantity_types[qt][0].unit
    except Exception:
        return None
    try:
        if C(cq, u, u, x) != x:
            return dict(clause="u->u exact", got=C(cq, u, u, x), want=x, container=box)
        y = C(cq, u, v, x)
        back = C(cq, v, u, y)
        tol = _tol(x, C(cq, v, u, 0.0), C(cq, base, u, 0.0))
        if not abs(back - x) <= tol:
            return dict(clause="u->v->u", u=u, v=v, x=x, via=y, got=back, tol=tol, container=box)
        direct = C(cq, u, w, x)
        two = C(cq, v, w, y)
        tol = _tol(direct, C(cq, u, w, 0.0), C(cq, v, w, 0.0), C(cq, base, w, 0.0))
        if not abs(direct - two) <= tol:
            return dict(clause="u->w = u->v->w", u=u, v=v, w=w, x=x, direct=direct, two_step=two, tol=tol, container=box)
        x2 = x + max(abs(x) * 1e-3, 1e-3 * abs(C(cq, base, u, 1.0) - C(cq, base, u, 0.0)), 1e-200)
        y2 = C(cq, u, v, x2)
        if not y < y2:
            return dict(clause="strictly increasing", u=u, v=v, x1=x, x2=x2, y1=y, y2=y2, container=box)
    except Exception as e:
        return dict(clause="conversion inside one quantity type raised", u=u, v=v, w=w, x=x, error=repr(e))
    return None


def table_candidates(ctx):
    """Rows on which the C01 row predicate is false (evaluated by the model's executable predicate)."""
    import engine
    from common import dumps, unsym

    out = []
    for kind in KINDS:
        res, _ = engine.run_driver(DRIVER_EXE, [dumps(dict(op="badrows", db=kind))])
        db = ctx.dbs[kind]
        for s in res[0].get("rows", []):
            u = unsym(int(s))
            qt = db.GetQuantityType(u)
            if qt is None:
                continue
            units = [i.unit for i in db.quantity_types[qt]]
            for v in units[:4] + units[-2:]:
                for x in (1.0, 0.0, -3.5, 120.0, 1e6):
                    out.append(_case(kind, qt, u, v, units[0], x))
                    out.append(_case(kind, qt, v, u, units[-1], x))
    ctx.notes["rows_failing_row_predicate"] = len(out)
    return out


def search(ctx):
    nv = dict(posc=3, nocat=1, simple=9) if ctx.tier == "quick" else dict(posc=10, nocat=3, simple=9)
    yield from _pairs(ctx, nv, "search")
