"""C20 - derived unit, category and type strings render every factor unambiguously.

Decided by: Barril/Props/C20.lean - `parse_render` (parse . render = numerators ++ denominators for ANY factor
list over atomic symbols, any exponents), `unit_string_layout`, `render_unambiguous`, `parse_atomic`,
`written_factors_perm`, `joined_keys_nodup / joined_keys / joined_keys_order / joined_exponent` (what "joined"
means), `unit_string_roundtrip` (the unit string of a derived quantity built from any entry list),
`renderStr_lists_every_factor`, `derived_category_and_type_strings`, `unit_name_lists_every_factor`,
`obtain_simple_iff`, `simple_strings_verbatim`, `value_repr_shows_unit`; proved about the hand-written model
`Barril/Model/Str.lean` (the grammar parser `parseUnit`, `atomic`, `decimal`) and `Barril/Model/StrRender.lean`
(`makeStr` = `_MakeStr`, `renderUnit` = `_CreateUnitsWithJoinedExponentsString`, `joinExps` =
`GetComposingUnitsJoiningExponents`, `Quantity.unitName` = `GetUnitName`, `obtainFromDict / newSimple / newDerived`
= the dict form of `ObtainQuantity` and the two branches of `Quantity.__init__`, `scalarRepr / valueStr /
arrayRepr`).

Tie: derived quantities are built on the REAL code (Scalar / Quantity products, quotients, powers,
reciprocals; `ObtainQuantity(OrderedDict)` for entry lists arithmetic cannot produce), their internal entry
list `GetCategoryToUnitAndExps()` plus the registry facts the strings depend on (quantity type of each
category, registered name of each unit) go to the model, and `GetUnit / GetCategory / GetQuantityType /
GetUnitName / IsDerived / GetComposingUnitsJoiningExponents`, `repr/str` of a Scalar and of an Array are
compared with the model's strings verbatim.  `_MakeStr` is additionally driven directly with arbitrary
(text, exponent) lists, and the model's grammar parser / atomicity predicate are compared with an
independent Python parser on every table symbol and on random strings.

Histories (op `history`): several steps run in ONE database whose quantities cache is emptied first and then stays
warm - products / quotients / powers of Scalars, of Quantity objects and of value-less Arrays, `Quantity.CreateDerived`,
`ObtainQuantity` with a mapping (with and without unknown-unit caption) and in the list form - where later steps
compose the same factors in another order.  For these the model is NOT given the entries of the result: it gets the
expression (postfix) over the simple operands / the requested mapping and predicts the entry list itself
(`Barril.Str.opQ / qpow / spow`: `_MatchQuantities`, the merge loop, the removal of cancelled factors, written after
the same Python as engine Alg's `opNew`, value-free), then all strings, `GetComposingUnits/Categories`,
`repr/str(Quantity)`, `GetUnitCaption`, the value object's `GetUnitName/GetFormatted`.  Theorems:
`product_strings_from_operands`, `product_factor_order`, `matching_idempotent`, `quantity_pow_eq_iterated_mul`,
`pow_unit_string`, `pow_unit_string_parses`, `scalar_pow_eq_quantity_pow`.

Caller histories (`_caller_history`, model `Barril/Model/StrCaller.lean`): the caller KEEPS the mapping (dict with list
cells, for `ObtainQuantity` and `CreateDerived`) or the lists (list form with list pairs) it passed and edits them in
place afterwards - exponent cell, unit cell, added / replaced / removed key - passes the same objects again (`again`),
does arithmetic on the quantities made earlier (`arith`: q * x, q / x, q ** n on the Quantity or on a Scalar built on
it).  After every edit (and at `reread` steps) ALL strings of EVERY quantity made so far in the history are asked
again and compared exactly with the model's values, which are those of the ORIGINAL requests (the model's quantities
are immutable values; theorems `strings_stable_under_caller_mutation`, `request_answered_from_original`,
`edited_request_answered_as_edited`, `arithmetic_after_caller_mutation`)."""
import re
from collections import OrderedDict

import translate
from common import err_kind, sym, unsym

ID = "C20"
LEAN_MODULES = ["Barril.Props.C20"]
DRIVERS = ["drv_str"]
DRIVER_EXE = "drv_str"
RULE = ("derived quantities built on the real code: (a) profiles - 0..4 numerator and 0..4 denominator categories "
        "(0..6 each in the thorough tier) drawn from a pool of >= 40 (category, atomic unit) pairs over >= 12 quantity "
        "types with several categories per type (length/depth/diameter..., time/date, pressure/yield stress ...), "
        "exponents 1..4 each side, combined in random order by * / ** and 1/x on Scalars or on Quantity objects; "
        "(b) random expression trees of depth <= 4 over the same pool; (c) entry dicts handed to ObtainQuantity "
        "(zero exponents, cancelling totals, non-atomic and unregistered unit texts, one-entry dicts, the empty "
        "dict); (d) simple quantities of table units (all 1548 in the thorough tier); (e) _MakeStr on arbitrary "
        "(text, exponent) lists incl. empty texts; (f) the grammar parser and the atomicity predicate on every "
        "table symbol and on random strings; (g) histories of 1..4 steps in one database with a warm cache: 2..4 "
        "factors (distinct categories, now and then two categories of one quantity type) composed in a different random "
        "order at every step, as a chain of * and / on Scalars / Quantity objects / value-less Arrays, as "
        "Quantity.CreateDerived, as ObtainQuantity(mapping[, caption]) or in the list form, random trees followed by "
        "the same tree with products commuted, and powers x ** n for n in -2..9 of simple and derived bases "
        "(Quantity ** n, Scalar ** n, n-fold product of Arrays): the model predicts every step from the operands / "
        "the request; (h) caller histories of 3..9 steps: requests whose mapping / lists the caller keeps (dict with "
        "list cells, CreateDerived, list form with list pairs; 2..4 factors, now and then two categories of one "
        "quantity type), in-place edits of a kept request (exponent cell, unit cell among the valid units of the "
        "category, added / replaced / removed key), the same objects passed again, arithmetic on earlier quantities, "
        "other expressions; after every edit and at re-read steps all strings of every quantity made so far are read "
        "again and compared with the model's values of the original requests.  distinct = distinct model line; non-trivial = a derived quantity "
        "with >= 2 entries, or a parse of a string containing '.' or '/'")
EXHAUSTIVE = {"quick": False, "thorough": False}
ASSUMPTIONS = ["history cases: the model computes the entry list of a product / quotient / power from the simple operands "
               "(value-free copy of engine Alg's opNew on byte strings; the numbers, and which conversions fail, stay "
               "C03/C04's business: a step whose value computation fails is skipped); the quantities cache is not "
               "modelled (a memo keyed by the ordered request must be transparent: that is what the histories test)",
               "caller histories: edits keep the request valid (units of the category's quantity type, non-zero exponents, "
               "at least one factor): which requests are refused is not the subject here",
               "other cases: the model receives the quantity's internal entry list and the registry lookups (category -> quantity "
               "type, (type, unit) -> name) as data read from the real objects; how arithmetic produces the entry "
               "list is engine Alg's business (C03/C04), how lookups resolve is engine Conv's (C01/C02)",
               "the entry list is that of an existing quantity: whether a unit is valid for its category (the check in the "
               "simple branch of Quantity.__init__, legacy spellings) is engine Conv's business and is not modelled here",
               "value formatting inside repr/str (str(float), '%g') is taken from Python; only the unit part is modelled"]

CORE_TYPES = ["length", "time", "mass", "temperature", "pressure", "force", "dimensionless", "electric current",
              "energy", "power", "frequency", "plane angle", "luminous intensity", "moles", "volume", "area"]


# ------------------------------------------------------------------ independent helpers (no model involved)
def is_atomic(u):
    return u != "" and "." not in u and "/" not in u and not ("0" <= u[-1] <= "9")


_FACTOR = re.compile(r"^(.*?)([0-9]*)$", re.S)


def parse_unit(s):
    """The table's grammar, written independently of the Lean parser: factors separated by '.', at most one
    '/', integer exponent as decimal suffix, numerator '1' for a pure reciprocal."""
    if s == "":
        return []
    parts = s.split("/")
    if len(parts) > 2:
        return None

    def side(t, sign):
        out = []
        for f in t.split("."):
            m = _FACTOR.match(f)
            name, d = m.group(1), m.group(2)
            if name == "":
                return None
            e = 1
            if d != "":
                e = int(d)
                if e == 0:
                    return None
            out.append([name, sign * e])
        return out

    if len(parts) == 1:
        return side(parts[0], 1)
    n = [] if parts[0] == "1" else side(parts[0], 1)
    d = side(parts[1], -1)
    if n is None or d is None:
        return None
    return n + d


_POW = re.compile(r"^\((.*)\) \*\* ([0-9]+)$", re.S)


def parse_makestr(s):
    """Reads back a `_MakeStr` string: factors separated by ' * ', one ' / ', '1 / ' prefix."""
    if s == "":
        return []
    if s.startswith("1 / "):
        num, den = None, s[4:]
    else:
        parts = s.split(" / ")
        if len(parts) > 2:
            return None
        num, den = parts[0], (parts[1] if len(parts) == 2 else None)

    def side(t, sign):
        out = []
        for f in t.split(" * "):
            m = _POW.match(f)
            if m:
                out.append([m.group(1), sign * int(m.group(2))])
            else:
                out.append([f, sign])
        return out

    return (side(num, 1) if num is not None else []) + (side(den, -1) if den is not None else [])


def merged(pairs):
    d = OrderedDict()
    for k, e in pairs:
        d[k] = d.get(k, 0) + e
    return [[k, e] for k, e in d.items()]


def written(pairs):
    """numerator factors in order, then denominator factors in order; zero exponents are not written"""
    return [[k, e] for k, e in pairs if e > 0] + [[k, e] for k, e in pairs if e < 0]


def clean_text(t):
    return t != "" and " * " not in t and " / " not in t and " ** " not in t and not t.startswith("1 / ") and t != "1"


# ------------------------------------------------------------------ building quantities on the real code
class Pushed:
    def __init__(self, db):
        self.db = db

    def __enter__(self):
        from barril.units.unit_database import UnitDatabase

        UnitDatabase.PushSingleton(self.db)

    def __exit__(self, *a):
        from barril.units.unit_database import UnitDatabase

        UnitDatabase.PopSingleton()


def build(recipe, mode):
    """Evaluate a recipe tree on the real code.  mode 's': Scalars, mode 'q': Quantity objects."""
    from barril.units import ObtainQuantity, Scalar

    k = recipe[0]
    if k == "leaf":
        _, unit, cat, val = recipe
        if mode == "a0":   # an Array without values (the result quantity is computed without a single element)
            from barril.units import Array

            return Array([] if len(unit) % 2 else (), unit, cat)
        return Scalar(val, unit, cat) if mode == "s" else ObtainQuantity(unit, cat)
    if k == "mul":
        return build(recipe[1], mode) * build(recipe[2], mode)
    if k == "div":
        return build(recipe[1], mode) / build(recipe[2], mode)
    if k == "pow":
        if mode == "a0":   # Arrays have no **: the n-fold product
            b = build(recipe[1], mode)
            out = b
            for _ in range(recipe[2] - 1):
                out = out * b
            return out
        return build(recipe[1], mode) ** recipe[2]
    if k == "rdiv":  # number / x  (Scalars and Arrays)
        return recipe[1] / build(recipe[2], "a0" if mode == "a0" else "s")
    raise ValueError(k)


def quantity_of(t):
    """(quantity, scalar-or-None) of a python-side payload; raises what the real code raises."""
    from barril.units import ObtainQuantity, Scalar

    kind = t["kind"]
    if kind == "expr":
        s = build(t["recipe"], "s")
        return s.GetQuantity(), s
    if kind == "quant":
        return build(t["recipe"], "q"), None
    if kind == "dict":
        q = ObtainQuantity(OrderedDict((c, [u, e]) for c, u, e in t["entries"]))
        return q, Scalar.CreateWithQuantity(q, 1.5)
    if kind == "simple":
        s = Scalar(2.0, t["unit"], t["cat"])
        return s.GetQuantity(), s
    if kind == "simple_u":
        # the unit alone, after the same unit was used under another category of its quantity type
        Scalar(1.0, t["unit"], t["primer"])
        s = Scalar(2.0, t["unit"])
        return s.GetQuantity(), s
    if kind == "list":
        # the list / tuple form: what GetComposingUnits() / GetComposingCategories() of a quantity return
        cont = tuple if t.get("as_tuple") else list
        q = ObtainQuantity(cont((u, e) for u, e in t["pairs"]), cont(t["lcats"]))
        return q, Scalar.CreateWithQuantity(q, 1.5)
    raise ValueError(kind)


def uses_rdiv(r):
    return isinstance(r, list) and (r[0] == "rdiv" or any(uses_rdiv(x) for x in r[1:]))


def entries_of(q):
    return [[c, ue[0], ue[1]] for c, ue in q.GetCategoryToUnitAndExps().items()]


def lookups(db, entries):
    cats, names = [], []
    for c, u, _e in entries:
        try:
            qt = db.GetCategoryQuantityType(c)
        except Exception:
            continue
        if [c, qt] not in cats:
            cats.append([c, qt])
        try:
            n = db.GetUnitName(qt, u)
        except Exception:
            continue
        if [qt, u, n] not in names:
            names.append([qt, u, n])
    return cats, names


# ------------------------------------------------------------------ generators
def setup(ctx):
    ctx.db = translate.build_db("posc")
    db = ctx.db
    pool = {}  # quantity type -> list of (category, unit)
    for cat in sorted(db.categories_to_quantity_types):
        qt = db.categories_to_quantity_types[cat].quantity_type
        try:
            units = [u for u in db.GetValidUnits(cat) if is_atomic(u)]
        except Exception:
            continue
        for u in sorted(units):
            pool.setdefault(qt, []).append((cat, u))
    ctx.pool = pool
    ctx.core = [qt for qt in CORE_TYPES if qt in pool]
    ctx.all_units = [(i.unit, qt) for qt, infos in db.quantity_types.items() for i in infos]
    ctx.notes["pool_quantity_types"] = len(pool)
    ctx.notes["pool_pairs"] = sum(len(v) for v in pool.values())
    ctx.notes["atomic_table_symbols"] = sum(1 for u, _ in ctx.all_units if is_atomic(u))


def _leaf(ctx, rng, qt=None):
    if qt is None:
        qt = rng.choice(ctx.core) if rng.random() < 0.8 else rng.choice(sorted(ctx.pool))
    cat, unit = rng.choice(ctx.pool[qt])
    return ["leaf", unit, cat, rng.choice([1.0, 2.0, 0.5, 3.0, 10.0])]


def _power(rng, leaf, e):
    """leaf ** e written in one of several ways"""
    if e == 1:
        return leaf
    w = rng.random()
    if w < 0.5:
        return ["pow", leaf, e]
    out = leaf
    for _ in range(e - 1):
        out = ["mul", out, leaf] if rng.random() < 0.5 else ["mul", leaf, out]
    return out


def _profile(ctx, rng, max_side):
    nn, nd = rng.randint(0, max_side), rng.randint(0, max_side)
    if nn + nd == 0:
        nn = 1
    types = []
    while len(types) < nn + nd:
        qt = rng.choice(ctx.core) if rng.random() < 0.75 else rng.choice(sorted(ctx.pool))
        if qt in types and rng.random() < 0.7:
            continue  # a repeated quantity type (another category, perhaps another unit) now and then
        types.append(qt)
    facs = [(_leaf(ctx, rng, qt), rng.randint(1, 4), i < nn) for i, qt in enumerate(types)]
    rng.shuffle(facs)
    tree = None
    # the first factor: a numerator if there is one, otherwise 1/x or (x/x)/...
    firstnum = [f for f in facs if f[2]]
    rd = False
    if firstnum:
        f0 = firstnum[0]
        facs.remove(f0)
        tree = _power(rng, f0[0], f0[1])
    else:
        f0 = facs.pop(0)
        tree = ["rdiv", 1.0, _power(rng, f0[0], f0[1])]
        rd = True
    for leaf, e, isnum in facs:
        p = _power(rng, leaf, e)
        if isnum:
            tree = ["mul", tree, p] if rng.random() < 0.7 else ["mul", p, tree]
        else:
            if rng.random() < 0.7:
                tree = ["div", tree, p]
            else:  # divide factor by factor
                for _ in range(e):
                    tree = ["div", tree, leaf]
    return tree, rd


def _tree(ctx, rng, depth):
    if depth == 0 or rng.random() < 0.25:
        return _leaf(ctx, rng)
    w = rng.random()
    if w < 0.4:
        return ["mul", _tree(ctx, rng, depth - 1), _tree(ctx, rng, depth - 1)]
    if w < 0.8:
        return ["div", _tree(ctx, rng, depth - 1), _tree(ctx, rng, depth - 1)]
    if w < 0.93:
        return ["pow", _tree(ctx, rng, depth - 1), rng.randint(1, 4)]
    return ["rdiv", rng.choice([1.0, 2.0]), _tree(ctx, rng, depth - 1)]


WEIRD_UNITS = ["", "1", "m2", "m/s", "N.m", "m.", "no such unit", "m3/m3", "1/s", "inH2O", "degC", "%", "m", "s", "kg", "ft3"]


def _dict_entries(ctx, rng):
    n = rng.choice([0, 1, 1, 2, 2, 3, 4, 5])
    cats = rng.sample(sorted(ctx.db.categories_to_quantity_types), n)
    out = []
    for c in cats:
        w = rng.random()
        if w < 0.55:
            qt = ctx.db.categories_to_quantity_types[c].quantity_type
            us = [p[1] for p in ctx.pool.get(qt, []) if p[0] == c] or [i.unit for i in ctx.db.quantity_types[qt]]
            u = rng.choice(us)
        elif w < 0.8:
            u = rng.choice(["m", "s", "kg", "K"])  # the same unit text under several categories: totals join / cancel
        else:
            u = rng.choice(WEIRD_UNITS)
        out.append([c, u, rng.choice([-4, -3, -2, -1, -1, 0, 1, 1, 2, 3, 4, 12, -10])])
    return out


def _list_case(ctx, t):
    """A request in the list form; the model gets the REQUEST (pairs + categories), not the entries of the result."""
    ent = [[c, u, e] for c, (u, e) in zip(t["lcats"], t["pairs"])]
    cats, names = lookups(ctx.db, ent)
    return dict(op="obtain_list",
                pairs=[[str(sym(u)), e] for u, e in t["pairs"]],
                lcats=[str(sym(c)) for c in t["lcats"]],
                cats=[[str(sym(c)), str(sym(qt))] for c, qt in cats],
                names=[[str(sym(qt)), str(sym(u)), str(sym(n))] for qt, u, n in names],
                _t=dict(t, kind="list", entries=ent))


def _strings_case(ctx, t):
    """Builds the quantity on the real code to read its internal entry list (the model's input)."""
    if t["kind"] == "simple_u":
        # the model gets what the request MEANS (the unit under its registered default category), not what came back
        ent = [[t["cat"], t["unit"], 1]]
        cats, names = lookups(ctx.db, ent)
        return dict(op="strings",
                    entries=[[str(sym(c)), str(sym(u)), e] for c, u, e in ent],
                    cats=[[str(sym(c)), str(sym(qt))] for c, qt in cats],
                    names=[[str(sym(qt)), str(sym(u)), str(sym(n))] for qt, u, n in names],
                    _t=dict(t, entries=ent))
    with Pushed(ctx.db):
        try:
            q, _s = quantity_of(t)
            ent = entries_of(q)
        except (ZeroDivisionError, OverflowError) as e:
            # a value computation failed (1 atm is 0 kPa(g); 1e9 ** 4 ...): arithmetic on the numbers is C03/C04's
            # business, there is no quantity whose strings could be compared
            return None
        except Exception as e:
            return dict(op="strings", entries=[], cats=[], names=[], _t=dict(t, build_error=err_kind(e), detail=repr(e)[:200]))
    cats, names = lookups(ctx.db, ent)
    return dict(op="strings",
                entries=[[str(sym(c)), str(sym(u)), e] for c, u, e in ent],
                cats=[[str(sym(c)), str(sym(qt))] for c, qt in cats],
                names=[[str(sym(qt)), str(sym(u)), str(sym(n))] for qt, u, n in names],
                _t=dict(t, entries=ent))


# ------------------------------------------------------------------ histories (shared database, warm cache)
def _factor_tree(rng, facs):
    """facs: [(leaf, exp != 0)] in the order they are to be composed: a left-to-right chain of * and /"""
    (leaf, e), rest = facs[0], facs[1:]
    tree = _power(rng, leaf, e) if e > 0 else ["rdiv", 1.0, _power(rng, leaf, -e)]
    for leaf, e in rest:
        p = _power(rng, leaf, abs(e))
        if e > 0:
            tree = ["mul", tree, p]
        elif rng.random() < 0.7:
            tree = ["div", tree, p]
        else:
            for _ in range(-e):
                tree = ["div", tree, leaf]
    return tree


def _commuted(rng, r):
    """the same expression with the operands of some products swapped"""
    if not isinstance(r, list) or r[0] == "leaf":
        return r
    if r[0] == "mul":
        a, b = _commuted(rng, r[1]), _commuted(rng, r[2])
        return ["mul", b, a] if rng.random() < 0.6 else ["mul", a, b]
    if r[0] == "div":
        return ["div", _commuted(rng, r[1]), _commuted(rng, r[2])]
    if r[0] == "pow":
        return ["pow", _commuted(rng, r[1]), r[2]]
    if r[0] == "rdiv":
        return ["rdiv", r[1], _commuted(rng, r[2])]
    return r


def _mode_for(rng, trees):
    if any(uses_rdiv(t) for t in trees):
        return rng.choice(["s", "s", "a0"])
    return rng.choice(["s", "q", "q", "a0"])


def _history(ctx, rng):
    if rng.random() < 0.3:
        # a random expression, then the same expression with products commuted
        tree = _tree(ctx, rng, rng.randint(1, 3))
        trees = [tree] + [_commuted(rng, tree) for _ in range(rng.randint(1, 2))]
        return dict(kind="history", mode=_mode_for(rng, trees), steps=[dict(k="expr", recipe=t) for t in trees])
    # k factors with distinct categories (now and then two categories of one quantity type, same or different units)
    k = rng.choice([2, 2, 2, 3, 3, 4])
    facs = []
    while len(facs) < k:
        leaf = _leaf(ctx, rng)
        if rng.random() < 0.25 and facs:
            leaf = _leaf(ctx, rng, ctx.db.GetCategoryQuantityType(facs[0][0][2]))
        if leaf[2] in [f[0][2] for f in facs]:
            continue
        facs.append((leaf, rng.choice([-3, -2, -1, -1, 1, 1, 1, 2, 3])))
    steps = []
    for _ in range(rng.randint(2, 4)):
        order = list(facs)
        rng.shuffle(order)
        w = rng.random()
        if w < 0.5:
            steps.append(dict(k="expr", recipe=_factor_tree(rng, order)))
        elif w < 0.68:
            steps.append(dict(k="derived", entries=[[l[2], l[1], e] for l, e in order]))
        elif w < 0.84:
            steps.append(dict(k="dict", entries=[[l[2], l[1], e] for l, e in order]))
        else:
            steps.append(dict(k="list", pairs=[[l[1], e] for l, e in order], lcats=[l[2] for l, _e in order],
                              as_tuple=rng.random() < 0.5))
        if steps[-1]["k"] in ("derived", "dict") and rng.random() < 0.35:
            # an unknown-unit caption: part of the cache key and of Quantity.__repr__, not of the strings
            steps[-1]["cap"] = rng.choice(["", "my unit", "X"])
    return dict(kind="history", mode=_mode_for(rng, [st["recipe"] for st in steps if st["k"] == "expr"]), steps=steps)


def _pow_history(ctx, rng):
    w = rng.random()
    if w < 0.4:
        base = _leaf(ctx, rng)
    elif w < 0.8:
        k = rng.choice([2, 2, 3])
        facs = []
        while len(facs) < k:
            leaf = _leaf(ctx, rng)
            if leaf[2] not in [f[0][2] for f in facs]:
                facs.append((leaf, rng.choice([-2, -1, 1, 1, 2])))
        base = _factor_tree(rng, facs)
    else:
        base = _tree(ctx, rng, 2)
    ns = rng.sample([-2, -1, 0, 1, 2, 3, 4, 4, 5, 6, 7, 8, 9], rng.randint(1, 3))
    steps = [dict(k="expr", recipe=["pow", base, n]) for n in ns]
    if rng.random() < 0.3:
        steps.append(dict(k="expr", recipe=["mul", ["pow", base, ns[0]], base]))
    mode = "s" if uses_rdiv(base) and rng.random() < 0.7 else ("a0" if uses_rdiv(base) else rng.choice(["q", "q", "q", "s", "a0"]))
    return dict(kind="history", mode=mode, steps=steps)


NONZERO = [-3, -2, -1, -1, 1, 1, 2, 3]


def _caller_history(ctx, rng):
    """the caller KEEPS the mapping / the lists it passed and edits or re-uses them: requests (dict form with list cells,
    CreateDerived, list form with list pairs), edits of a kept request (exponent cell, unit cell, added / removed key),
    the same request object once more, other creations in between; after every edit (and at `reread` steps) ALL
    strings of every quantity made so far are asked again"""
    qt_of = ctx.db.GetCategoryQuantityType
    steps, sims = [], OrderedDict()   # sid -> dict(kind=, ents=[[c, u, e]]): the request as the caller holds it now

    def fresh_leaf(taken, qt=None):
        for _ in range(20):
            leaf = _leaf(ctx, rng, qt if qt in ctx.pool else None)
            qt = None     # (a quantity type with no further category: any other one)
            # '<unknown>' is left to the other generators: with an unknown-unit caption GetUnitCaption of the simple
            # quantity is 'caption <unknown>', which is not a string of this model
            if leaf[2] not in taken and leaf[1] != "<unknown>":
                return leaf
        return None

    def request():
        ents = []
        n = rng.choice([2, 2, 2, 3, 3, 4])
        while len(ents) < n:
            leaf = fresh_leaf([c for c, _u, _e in ents], qt_of(ents[0][0]) if ents and rng.random() < 0.25 else None)
            if leaf is None:
                break
            ents.append([leaf[2], leaf[1], rng.choice(NONZERO)])
        kind = rng.choice(["dict", "dict", "dict", "derived", "list"])
        sid = "r%d" % len(sims)
        sims[sid] = dict(kind=kind, ents=[list(x) for x in ents])
        if kind == "list":
            st = dict(k="list", pairs=[[u, e] for _c, u, e in ents], lcats=[c for c, _u, _e in ents], as_tuple=False, sid=sid)
        else:
            st = dict(k=kind, entries=[list(x) for x in ents], sid=sid)
            if rng.random() < 0.2:
                st["cap"] = rng.choice(["my unit", "X"])
        steps.append(st)

    def edit():
        sid = rng.choice(list(sims))
        sim = sims[sid]
        ents = sim["ents"]
        w = rng.random()
        if w < 0.45:
            i = rng.randrange(len(ents))
            x = rng.choice([e for e in NONZERO if e != ents[i][2]])
            if len(ents) == 1 and x == 1 and sim["kind"] == "derived":
                return
            ents[i][2] = x
            ed = ["exp", i, x]
        elif w < 0.65:
            i = rng.randrange(len(ents))
            us = sorted(set(u for c, u in ctx.pool[qt_of(ents[i][0])] if u != ents[i][1] and u != "<unknown>"))
            if not us:
                return
            ents[i][1] = rng.choice(us)
            ed = ["unit", i, ents[i][1], ents[i][0]]
        elif w < 0.85:
            if sim["kind"] != "list" and rng.random() < 0.3:
                # an existing key gets a NEW cell (the key keeps its place)
                i = rng.randrange(len(ents))
                ents[i] = [ents[i][0], ents[i][1], rng.choice(NONZERO)]
                if len(ents) == 1 and ents[i][2] == 1 and sim["kind"] == "derived":
                    ents[i][2] = 2
                ed = ["add"] + list(ents[i])
            else:
                leaf = fresh_leaf([c for c, _u, _e in ents])
                if leaf is None:
                    return
                ents.append([leaf[2], leaf[1], rng.choice(NONZERO)])
                ed = ["add"] + list(ents[-1])
        else:
            if len(ents) < 2 or (sim["kind"] == "derived" and len(ents) < 3):
                return
            i = rng.randrange(len(ents))
            del ents[i]
            ed = ["del", i]
        steps.append(dict(k="edit", of=sid, ed=ed))

    request()
    for _ in range(rng.randint(2, 6)):
        w = rng.random()
        if w < 0.45:
            edit()
        elif w < 0.72:
            steps.append(dict(k="again", of=rng.choice(list(sims))))
        elif w < 0.8:
            request()
        elif w < 0.9:
            # arithmetic on a quantity made earlier (on the quantity in mode q, on a Scalar built on it otherwise)
            sid = rng.choice(list(sims))
            if rng.random() < 0.6:
                leaf = _leaf(ctx, rng)
                steps.append(dict(k="arith", of=sid, f=rng.choice(["mul", "div"]), leaf=leaf))
            else:
                steps.append(dict(k="arith", of=sid, f="pow", n=rng.choice([2, 2, 3])))
        elif w < 0.95:
            a, b = _leaf(ctx, rng), _leaf(ctx, rng)
            steps.append(dict(k="expr", recipe=[rng.choice(["mul", "div"]), a, b] if a[2] != b[2] else ["pow", a, 2]))
        else:
            steps.append(dict(k="reread"))
    if steps[-1]["k"] != "edit":
        steps.append(dict(k="reread"))
    return dict(kind="history", mode=rng.choice(["s", "q", "q", "a0"]), steps=steps)


def _leaves(r, out):
    if r[0] == "leaf":
        out.append((r[2], r[1]))
    else:
        for x in r[1:]:
            if isinstance(x, list):
                _leaves(x, out)
    return out


def _rpn(r, mode, out):
    k = r[0]
    if k == "leaf":
        out.append(["leaf", str(sym(r[2])), str(sym(r[1]))])
    elif k in ("mul", "div"):
        _rpn(r[1], mode, out)
        _rpn(r[2], mode, out)
        out.append([k])
    elif k == "rdiv":
        _rpn(r[2], mode, out)
        out.append(["rdiv"])
    elif k == "pow":
        _rpn(r[1], mode, out)
        # Quantity.__pow__ is self * result; Scalar.__pow__ (and the n-fold product the harness writes for Arrays)
        # is result * self
        out.append(["qpow" if mode == "q" else "spow", r[2]])
    else:
        raise ValueError(k)
    return out


def _history_case(ctx, t):
    ent = []
    msteps = []
    kept = []
    caps, made_at, nmade = {}, {}, 0
    slots, nreq = {}, 0      # every dict / derived / list step is a request the model's caller holds, in this order
    for st in t["steps"]:
        if st["k"] == "expr":
            for c, u in _leaves(st["recipe"], []):
                ent.append([c, u, 1])
            msteps.append(dict(k="expr", rpn=_rpn(st["recipe"], t["mode"], [])))
        elif st["k"] in ("derived", "dict"):
            ent += st["entries"]
            msteps.append(dict(k="dict", entries=[[str(sym(c)), str(sym(u)), e] for c, u, e in st["entries"]]))
            if "cap" in st:
                msteps[-1]["cap"] = str(sym(st["cap"]))
        elif st["k"] == "list":
            ent += [[c, u, e] for c, (u, e) in zip(st["lcats"], st["pairs"])]
            msteps.append(dict(k="list", pairs=[[str(sym(u)), e] for u, e in st["pairs"]],
                               lcats=[str(sym(c)) for c in st["lcats"]]))
        elif st["k"] == "reread":
            msteps.append(dict(k="reread"))
        elif st["k"] in ("again", "edit", "arith"):
            if st["of"] not in slots:
                continue      # (shrinking removed the request this step is about)
            if st["k"] == "arith":
                m = dict(k="arith", on=made_at[st["of"]])
                if st["f"] == "pow":
                    m.update(f="qpow" if t["mode"] == "q" else "spow", n=st["n"])
                else:
                    ent.append([st["leaf"][2], st["leaf"][1], 1])
                    m.update(f=st["f"], c=str(sym(st["leaf"][2])), u=str(sym(st["leaf"][1])))
                msteps.append(m)
            elif st["k"] == "again":
                msteps.append(dict(k="again", slot=slots[st["of"]]))
                if caps.get(st["of"]) is not None:
                    msteps[-1]["cap"] = str(sym(caps[st["of"]]))   # the same caption is passed again
            else:
                ed = st["ed"]
                if ed[0] == "unit":
                    ent.append([ed[3], ed[2], 1])
                    med = ["unit", ed[1], str(sym(ed[2]))]
                elif ed[0] == "add":
                    ent.append([ed[1], ed[2], ed[3]])
                    med = ["add", str(sym(ed[1])), str(sym(ed[2])), ed[3]]
                else:
                    med = list(ed)
                msteps.append(dict(k="edit", slot=slots[st["of"]], ed=med))
        else:
            raise ValueError(st["k"])
        if st["k"] in ("derived", "dict", "list"):
            if "sid" in st:
                slots[st["sid"]] = nreq
                caps[st["sid"]] = st.get("cap")
                made_at[st["sid"]] = nmade
            nreq += 1
        if st["k"] not in ("edit", "reread"):
            nmade += 1
        kept.append(st)
    if len(kept) != len(t["steps"]):
        t = dict(t, steps=kept)
    # matching can put the unit of one factor on another factor of the same quantity type: every (type, unit) pair
    cats, _n = lookups(ctx.db, ent)
    qt_of = dict((c, qt) for c, qt in cats)
    names = []
    for qt in sorted(set(qt_of.values())):
        for u in sorted(set(u for c, u, _e in ent if qt_of.get(c) == qt)):
            try:
                names.append([qt, u, ctx.db.GetUnitName(qt, u)])
            except Exception:
                pass
    return dict(op="history", steps=msteps,
                cats=[[str(sym(c)), str(sym(qt))] for c, qt in cats],
                names=[[str(sym(qt)), str(sym(u)), str(sym(n))] for qt, u, n in names],
                _t=t)


def _obtain(kind, obj, cap):
    from barril.units import ObtainQuantity, Quantity

    if kind == "derived":
        return Quantity.CreateDerived(obj, cap) if cap is not None else Quantity.CreateDerived(obj)
    if kind == "dict":
        return ObtainQuantity(obj, None, cap) if cap is not None else ObtainQuantity(obj)
    return ObtainQuantity(obj[0], obj[1])


def _run_step(st, mode, held=None):
    """one creation step on the real code: (quantity, value object or None).  `held` (sid -> (kind, the very objects
    that were passed, caption)) is the caller's side: a step with a `sid` leaves its mapping / lists there, `again`
    passes the same objects once more"""
    if st["k"] == "expr":
        x = build(st["recipe"], mode)
        return (x, None) if mode == "q" else (x.GetQuantity(), x)
    if st["k"] == "again":
        kind, obj, cap = held[st["of"]]
        return _obtain(kind, obj, cap), None
    if st["k"] == "arith":
        from barril.units import ObtainQuantity, Scalar

        q0 = held[("made", st["of"])]
        if isinstance(q0, Exception):
            raise q0
        if mode == "q":
            if st["f"] == "pow":
                return q0 ** st["n"], None
            other = ObtainQuantity(st["leaf"][1], st["leaf"][2])
            return (q0 * other if st["f"] == "mul" else q0 / other), None
        x = Scalar.CreateWithQuantity(q0, 1.5)
        if st["f"] == "pow":
            x = x ** st["n"]
        else:
            other = Scalar(st["leaf"][3], st["leaf"][1], st["leaf"][2])
            x = x * other if st["f"] == "mul" else x / other
        return x.GetQuantity(), x
    cap = st.get("cap")
    if st["k"] in ("derived", "dict"):
        obj = OrderedDict((c, [u, e]) for c, u, e in st["entries"])
    elif st.get("as_tuple"):
        obj = (tuple((u, e) for u, e in st["pairs"]), tuple(st["lcats"]))
    else:
        # list cells when the caller keeps them (they can be edited in place), tuples otherwise
        cell = list if "sid" in st else tuple
        obj = ([cell((u, e)) for u, e in st["pairs"]], list(st["lcats"]))
    if held is None or "sid" not in st:
        return _obtain(st["k"], obj, cap), None
    held[st["sid"]] = (st["k"], obj, cap)
    try:
        q = held[("made", st["sid"])] = _obtain(st["k"], obj, cap)
    except Exception as e:
        held[("made", st["sid"])] = e
        raise
    return q, None


def _apply_edit(held, st):
    """the caller edits, in place, what it passed earlier"""
    kind, obj, _cap = held[st["of"]]
    ed = st["ed"]
    if kind == "list":
        pairs, lcats = obj
        if ed[0] == "exp":
            pairs[ed[1]][1] = ed[2]
        elif ed[0] == "unit":
            pairs[ed[1]][0] = ed[2]
        elif ed[0] == "add":
            pairs.append([ed[2], ed[3]])
            lcats.append(ed[1])
        else:
            del pairs[ed[1]]
            del lcats[ed[1]]
    else:
        keys = list(obj)
        if ed[0] == "exp":
            obj[keys[ed[1]]][1] = ed[2]
        elif ed[0] == "unit":
            obj[keys[ed[1]]][0] = ed[2]
        elif ed[0] == "add":
            obj[ed[1]] = [ed[2], ed[3]]
        else:
            del obj[keys[ed[1]]]


def _held_entries(held, sid):
    """the request the caller holds, as it is now: [(category, unit, exp)]"""
    kind, obj, _cap = held[sid]
    if kind == "list":
        return [(c, p[0], p[1]) for c, p in zip(obj[1], obj[0])]
    return [(c, cell[0], cell[1]) for c, cell in obj.items()]


def _plain(x):
    return all(32 <= ord(ch) < 127 and ch not in "'\\" for ch in x)


def _describe_step(st, mode, held=None, made=None):
    try:
        q, v = _run_step(st, mode, held)
    except (ZeroDivisionError, OverflowError):
        out = dict(skip=True)   # a failed value computation (C03/C04/C10's business): no strings to compare
        if made is not None:
            made.append(out)
        return out
    except Exception as e:
        out = dict(err=err_kind(e), detail=repr(e)[:200])
        if made is not None:
            made.append(out)
        return out
    if made is not None:
        made.append((q, v))
    return _describe(q, v)


def _describe(q, v):
    """ALL strings of a quantity and of the value objects on it"""
    from barril.basic.format_float import FormatFloat
    from barril.units import Array, Scalar

    out = dict(entries=entries_of(q), unit=q.GetUnit(), category=q.GetCategory(), qtype=q.GetQuantityType(),
               derived=bool(q.IsDerived()), joined=[[u, e] for u, e in q.GetComposingUnitsJoiningExponents()],
               qrepr=repr(q), qstr=str(q), unit_caption=q.GetUnitCaption())
    cu, cc = q.GetComposingUnits(), q.GetComposingCategories()
    out["composing"] = [cu, cc] if isinstance(cu, str) else [[[u, e] for u, e in cu], list(cc)]
    try:
        out["unit_name"] = dict(ok=q.GetUnitName())
    except Exception as e:
        out["unit_name"] = dict(err=err_kind(e))
    if v is None:
        v = Scalar.CreateWithQuantity(q, 1.5)
    if isinstance(v, Scalar):
        out["repr"] = repr(v)
        out["str"] = str(v)
        out["formatted"] = v.GetFormatted()
        out["repr_head"] = "%s(%s" % (type(v).__name__, v.value)
        out["str_head"] = FormatFloat("%g", v.value)
        out["value_getters"] = [v.GetUnit(), v.GetCategory(), v.GetQuantityType()]
    else:   # an Array without values
        out["arepr"] = repr(v)
        out["astr"] = str(v)
        out["value_getters"] = [v.GetUnit(), v.GetCategory(), v.GetQuantityType()]
    try:
        out["value_unit_name"] = dict(ok=v.GetUnitName())
    except Exception as e:
        out["value_unit_name"] = dict(err=err_kind(e))
    a = Array.CreateWithQuantity(q, [1.0, 2.5])
    out["arepr2"] = repr(a)
    out["astr2"] = str(a)
    return out


def _reread(made):
    outs = []
    for x in made:
        if isinstance(x, dict):
            outs.append(x)     # the step failed: nothing was made
            continue
        try:
            outs.append(_describe(*x))
        except Exception as e:
            outs.append(dict(err=err_kind(e), detail="a getter raised: " + repr(e)[:200]))
    return outs


def _run_history(t, ctx):
    """the steps of a history on the real code, in order, in the shared database whose cache is emptied first"""
    outs = []
    held, made = {}, []
    with Pushed(ctx.db):
        ctx.db.quantities_cache.clear()
        for st in t["steps"]:
            try:
                if st["k"] in ("edit", "reread"):
                    if st["k"] == "edit":
                        _apply_edit(held, st)
                    outs.append(dict(reread=_reread(made)))
                else:
                    outs.append(_describe_step(st, t["mode"], held, made))
            except Exception as e:
                outs.append(dict(err=err_kind(e), detail="a getter raised: " + repr(e)[:200]))
    return outs


def _agree_step(r, mo, ctx):
    if "skip" in r:
        ctx.notes["history_steps_numeric_failure_skipped"] = ctx.notes.get("history_steps_numeric_failure_skipped", 0) + 1
        return None
    if "err" in r or "err" in mo:
        if ("err" in r) != ("err" in mo):
            return "one side fails: impl=%s model=%s" % (r, mo)
        return None if r["err"] == mo["err"] else "error kinds differ: impl=%s model=%s" % (r, mo)
    m = mo["ok"]
    me = [[_u(c_), _u(u_), e_] for c_, u_, e_ in m["entries"]]
    if r["entries"] != me:
        return "entries: the real quantity has %s, the model predicts %s from the operands" % (r["entries"], me)
    for k in ("unit", "category", "qtype"):
        if r[k] != _u(m[k]):
            return "%s: real %r, model %r" % (k, r[k], _u(m[k]))
    if r["derived"] != m["derived"]:
        return "IsDerived differs"
    if r["derived"]:
        want = [[[u_, e_] for _c, u_, e_ in me], [c_ for c_, _u2, _e in me]]
    else:
        want = [me[0][1], me[0][0]]
    if r["composing"] != want:
        return "GetComposingUnits/GetComposingCategories: real %s, model %s" % (r["composing"], want)
    un_m = m["unit_name"]
    for key in ("unit_name", "value_unit_name"):
        un_r = r[key]
        if ("err" in un_r) != ("err" in un_m) or ("err" in un_r and un_r["err"] != un_m["err"]):
            return "GetUnitName (%s): real %s, model %s" % (key, un_r, un_m)
        if "ok" in un_r and un_r["ok"] != _u(un_m["ok"]):
            return "GetUnitName (%s): real %r, model %r" % (key, un_r["ok"], _u(un_m["ok"]))
    jm = [[_u(x), e] for x, e in m["joined"]]
    if r["joined"] != jm:
        return "GetComposingUnitsJoiningExponents: real %s, model %s" % (r["joined"], jm)
    if _plain(r["category"] + r["unit"]):
        if r["qrepr"] != _u(m["quantity_repr"]) or r["qstr"] != _u(m["quantity_repr"]):
            return "repr/str(Quantity): real %r / %r, model %r" % (r["qrepr"], r["qstr"], _u(m["quantity_repr"]))
    if r["unit_caption"] != _u(m["unit"]):
        return "GetUnitCaption: real %r, model %r (a registered unit: the unit itself)" % (r["unit_caption"], _u(m["unit"]))
    if r["value_getters"] != [r["unit"], r["category"], r["qtype"]]:
        return "the value object's getters differ from its quantity's"
    if "repr" in r:
        if r["repr"] != r["repr_head"] + _u(m["scalar_repr_tail"]):
            return "repr(Scalar): real %r, model tail %r" % (r["repr"], _u(m["scalar_repr_tail"]))
        if r["str"] != r["str_head"] + _u(m["suffix"]) or r["formatted"] != r["str"]:
            return "str/GetFormatted(Scalar): real %r / %r, model suffix %r" % (r["str"], r["formatted"], _u(m["suffix"]))
    else:
        if r["arepr"] != "Array(" + _u(m["array_repr_head"]) + "[]" + _u(m["array_repr_tail"]):
            return "repr(Array without values): real %r" % r["arepr"]
        if r["astr"] != _u(m["suffix"]):
            return "str(Array without values): real %r" % r["astr"]
    if r["arepr2"] != "Array(" + _u(m["array_repr_head"]) + "[1.0, 2.5]" + _u(m["array_repr_tail"]):
        return "repr(Array): real %r" % r["arepr2"]
    if r["astr2"] != "1 2.5" + _u(m["suffix"]):
        return "str(Array): real %r" % r["astr2"]
    pm = None if m["parsed"] is None else [[_u(x), e] for x, e in m["parsed"]]
    if pm != parse_unit(r["unit"]):
        return "parse of %r: python %s, model %s" % (r["unit"], parse_unit(r["unit"]), pm)
    if m["all_atomic"] and r["derived"] and pm != written(jm):
        return "model: parse . render is not the written joined factors (contradicts theorem parse_render)"
    return None


# ---- the property on a history, on the real code only: what the factors of an expression ARE, from its operands
def _expected(r, qt_of):
    """[(category, unit, exp)] of an expression, in composition order: left operand's factors first, then the new
    factors of the right operand; None = outside what the oracle decides (a power below 1, an exponent or a unit
    total that cancels to zero, two different units of one quantity type: which one is kept is C03/C04's matter)"""
    k = r[0]
    if k == "leaf":
        return [(r[2], r[1], 1)]
    if k in ("mul", "div"):
        a, b = _expected(r[1], qt_of), _expected(r[2], qt_of)
        if a is None or b is None:
            return None
        sign = 1 if k == "mul" else -1
        out = OrderedDict((c, [u, e]) for c, u, e in a)
        for c, u, e in b:
            if c in out:
                out[c][1] += sign * e
            else:
                out[c] = [u, sign * e]
        res = [(c, u, e) for c, (u, e) in out.items()]
    elif k == "rdiv":
        a = _expected(r[2], qt_of)
        if a is None:
            return None
        res = [(c, u, -e) for c, u, e in a]
    elif k == "pow":
        a = _expected(r[1], qt_of)
        if a is None or r[2] < 1:
            return None
        res = [(c, u, e * r[2]) for c, u, e in a]
    else:
        return None
    units = {}
    for c, u, e in res:
        if units.setdefault(qt_of(c), u) != u:
            return None
    tot = OrderedDict()
    for c, u, e in res:
        tot[u] = tot.get(u, 0) + e
    if any(e == 0 for _c, _u2, e in res) or any(v == 0 for v in tot.values()):
        return None
    return res


def _snapshot(q, v):
    """every string the property talks about, of a quantity, of value objects on it and of its square (real code only)"""
    from barril.units import Array, Scalar

    def attempt(f):
        try:
            return f()
        except (ZeroDivisionError, OverflowError):
            return "numeric failure"
        except Exception as e:
            return "raises " + err_kind(e)

    out = dict(unit=q.GetUnit(), category=q.GetCategory(), quantity_type=q.GetQuantityType(),
               unit_name=attempt(q.GetUnitName), entries=entries_of(q),
               composing=attempt(lambda: [_plain_list(q.GetComposingUnits()), _plain_list(q.GetComposingCategories())]),
               joined=attempt(lambda: [list(x) for x in q.GetComposingUnitsJoiningExponents()]),
               quantity_repr=repr(q), unit_caption=q.GetUnitCaption())
    s = Scalar.CreateWithQuantity(q, 1.5)
    out["scalar"] = [repr(s), str(s), s.GetFormatted(), attempt(s.GetUnitName)]
    a = Array.CreateWithQuantity(q, [1.0, 2.5])
    out["array"] = [repr(a), str(a)]
    if v is not None:
        out["value_object"] = [repr(v), str(v), v.GetUnit(), v.GetCategory(), v.GetQuantityType(), attempt(v.GetUnitName)]

    def square():
        p = s * s
        return [repr(p), str(p), p.GetQuantityType(), attempt(p.GetUnitName)]

    def qsquare():
        p = q ** 2
        return [p.GetUnit(), p.GetCategory(), p.GetQuantityType(), attempt(p.GetUnitName)]

    out["scalar_times_itself"] = attempt(square)
    out["quantity_squared"] = attempt(qsquare)
    return out


def _plain_list(x):
    return x if isinstance(x, str) else [list(y) if isinstance(y, tuple) else y for y in x]


def _oracle_history(c, ctx):
    t = c["_t"]
    db = ctx.db
    from barril.units import Scalar

    with Pushed(db):
        db.quantities_cache.clear()
        done = []
        held, snaps = {}, []     # the caller's objects; (step, quantity, value object, its strings when it was made)
        for i, st in enumerate(t["steps"]):
            where = dict(input=show(c), step=i, after=done[:])
            done.append(st)
            if st["k"] in ("edit", "reread"):
                if st["k"] == "edit":
                    _apply_edit(held, st)
                for j, q0, v0, first in snaps:
                    now = _snapshot(q0, v0)
                    diff = sorted(k_ for k_ in first if now.get(k_) != first[k_])
                    if diff:
                        return dict(where, clause="every string of a quantity (unit, category, quantity type, unit name, "
                                                  "composing factors, repr/str of value objects on it, the strings of its "
                                                  "square) is the same whenever it is asked - here after the caller %s"
                                                  % ("edited the mapping / lists it had passed (%s)" % (st["ed"],)
                                                     if st["k"] == "edit" else "made further requests"),
                                    quantity_made_at_step=j, changed=diff,
                                    when_made=dict((k_, first[k_]) for k_ in diff),
                                    now=dict((k_, now.get(k_)) for k_ in diff))
                continue
            try:
                q, v = _run_step(st, t["mode"], held)
            except (ZeroDivisionError, OverflowError):
                continue
            except Exception as e:
                return dict(where, clause="building the quantity raised", error=repr(e))
            try:
                snaps.append((i, q, v, _snapshot(q, v)))
            except Exception as e:
                return dict(where, clause="a string getter raised", error=repr(e))
            if st["k"] == "expr":
                want = _expected(st["recipe"], db.GetCategoryQuantityType)
            elif st["k"] == "again":
                # the request as the caller holds it NOW
                want = _held_entries(held, st["of"])
            elif st["k"] == "arith":
                want = None     # (its strings take part in the "same whenever asked" clause from now on)
            elif st["k"] == "list":
                want = [(c_, u_, e_) for c_, (u_, e_) in zip(st["lcats"], st["pairs"])]
            else:
                want = [(c_, u_, e_) for c_, u_, e_ in st["entries"]]
            if want is None:
                continue
            try:
                ent = [tuple(x) for x in entries_of(q)]
                unit, cat, qt = q.GetUnit(), q.GetCategory(), q.GetQuantityType()
                where = dict(where, factors_of_the_operands=[list(x) for x in want], entries=[list(x) for x in ent],
                             unit=unit, category=cat, quantity_type=qt)
                if ent != want:
                    return dict(where, clause="the quantity holds every factor of the operands / of the requested mapping, "
                                              "in the order and with the exponents they were multiplied / divided / "
                                              "requested (whatever was created before in the same database)")
                if len(want) == 1 and want[0][2] == 1:
                    if [unit, cat, qt] != [want[0][1], want[0][0], db.GetCategoryQuantityType(want[0][0])]:
                        return dict(where, clause="simple quantity strings are its registered unit/category/type")
                    continue
                f = _check_makestr("category string", cat, [[c_, e] for c_, _u, e in want])
                if f:
                    return dict(where, **f)
                f = _check_makestr("quantity type string", qt, merged([[db.GetCategoryQuantityType(c_), e] for c_, _u, e in want]))
                if f:
                    return dict(where, **f)
                units = [[u, e] for _c, u, e in want]
                if all(is_atomic(u) for u, _e in units) and parse_unit(unit) != written(merged(units)):
                    return dict(where, clause="parsing the unit string recovers the joined factors of the operands",
                                parsed=parse_unit(unit), joined_factors=written(merged(units)))
                cu, cc = q.GetComposingUnits(), q.GetComposingCategories()
                if [tuple(x) for x in cu] != [(u, e) for _c, u, e in want] or list(cc) != [c_ for c_, _u, _e in want]:
                    return dict(where, clause="composing units / categories are the factors of the operands in order",
                                got=[list(cu), list(cc)])
                if v is None:
                    v = Scalar.CreateWithQuantity(q, 1.5)
                if not str(v).endswith(" [%s]" % unit) or v.GetUnit() != unit:
                    return dict(where, clause="str of the value object shows the unit", got=str(v))
                if isinstance(v, Scalar) and "'" not in unit + cat and re.findall(r"'([^']*)'", repr(v))[:2] != [unit, cat]:
                    return dict(where, clause="repr(Scalar) shows the unit, then the category", got=repr(v))
            except Exception as e:
                return dict(where, clause="a string getter raised", error=repr(e))
    return None


ALPHA = ["m", "s", "kg", "K", "1", "2", "0", "10", ".", "/", "ft", "(", ")", " ", "inH2O", "%"]


def _gen(ctx, salt, scale):
    rng = ctx.fresh_rng("C20" + salt)
    thorough = ctx.tier == "thorough"
    n_prof = (2200 if not thorough else 36000) * scale
    n_tree = (600 if not thorough else 9000) * scale
    n_dict = (500 if not thorough else 5000) * scale
    n_mk = (300 if not thorough else 3000) * scale
    max_side = 6 if thorough else 4
    for i in range(n_prof):
        tree, rd = _profile(ctx, rng, max_side)
        kind = "expr" if (rd or rng.random() < 0.7) else "quant"
        c = _strings_case(ctx, dict(kind=kind, recipe=tree))
        if c is None:
            ctx.notes["numeric_failures_skipped"] = ctx.notes.get("numeric_failures_skipped", 0) + 1
            continue
        yield c
    for i in range(n_tree):
        tree = _tree(ctx, rng, rng.randint(1, 4))
        kind = "expr" if (uses_rdiv(tree) or rng.random() < 0.7) else "quant"
        c = _strings_case(ctx, dict(kind=kind, recipe=tree))
        if c is None:
            ctx.notes["numeric_failures_skipped"] = ctx.notes.get("numeric_failures_skipped", 0) + 1
            continue
        yield c
    for i in range(n_dict):
        c = _strings_case(ctx, dict(kind="dict", entries=_dict_entries(ctx, rng)))
        if c is None or "build_error" in c["_t"]:
            # a one-entry dict with exponent 1 goes to the validating simple constructor (engine Conv's
            # business): a refused dict is no quantity, there are no strings to compare
            ctx.notes["dicts_refused_by_the_real_code"] = ctx.notes.get("dicts_refused_by_the_real_code", 0) + 1
            continue
        yield c
    # the list form of ObtainQuantity: (a) a quantity re-obtained from its own composing units and categories,
    # (b) single factors with every exponent (only exponent 1 is the simple case), (c) short hand-made requests
    n_list = (500 if not thorough else 6000) * scale
    for i in range(n_list):
        w = rng.random()
        if w < 0.45:
            tree, rd = _profile(ctx, rng, 3)
            try:
                with Pushed(ctx.db):
                    q, _s = quantity_of(dict(kind="expr", recipe=tree))
                cu, cc = q.GetComposingUnits(), q.GetComposingCategories()
            except Exception:
                continue
            if isinstance(cu, str) or isinstance(cc, str):
                cu, cc = [(cu, 1)], [cc]
            t = dict(pairs=[[u, e] for u, e in cu], lcats=list(cc), recipe=tree)
        elif w < 0.8:
            leaf = _leaf(ctx, rng)
            t = dict(pairs=[[leaf[1], rng.choice([-4, -3, -2, -1, 1, 1, 2, 3, 4])]], lcats=[leaf[2]])
        else:
            n = rng.choice([2, 2, 3])
            leaves = [_leaf(ctx, rng) for _ in range(n)]
            if len({l[2] for l in leaves}) < n:
                continue
            t = dict(pairs=[[l[1], rng.choice([-3, -2, -1, 1, 1, 2, 3])] for l in leaves], lcats=[l[2] for l in leaves])
        t["as_tuple"] = rng.random() < 0.5
        yield _list_case(ctx, t)
    # simple quantities of table units
    units = list(ctx.all_units)
    if not thorough:
        units = rng.sample(units, 250)
    for u, qt in units:
        cats = [c for c, ci in sorted(ctx.db.categories_to_quantity_types.items()) if ci.quantity_type == qt]
        ok = []
        for c in cats:
            try:
                if u in ctx.db.GetValidUnits(c):
                    ok.append(c)
            except Exception:
                pass
        if ok:
            c = _strings_case(ctx, dict(kind="simple", unit=u, cat=rng.choice(ok)))
            if c is not None:
                yield c
    # the unit alone (default category) after the same unit was used under ANOTHER category of its quantity type,
    # preferably the one named like the quantity type
    pool_u = [(u, qt) for u, qt in ctx.all_units]
    if not thorough:
        pool_u = rng.sample(pool_u, 300)
    for u, qt in pool_u:
        try:
            dc = ctx.db.GetDefaultCategory(u)
        except Exception:
            dc = None
        if not dc:
            continue
        others = []
        for c, ci in sorted(ctx.db.categories_to_quantity_types.items()):
            if ci.quantity_type == qt and c != dc:
                others.append(c)   # a unit is accepted under every category of its quantity type
        if not others:
            continue
        primer = qt if (qt in others and rng.random() < 0.7) else rng.choice(others)
        yield _strings_case(ctx, dict(kind="simple_u", unit=u, primer=primer, cat=dc))
    # histories in ONE database with a warm cache (the cache is emptied at the start of the history, so a history is
    # self-contained): the same factors composed in several orders and forms; every step is predicted by the model
    # from the OPERANDS / the requested mapping, never from the result object
    n_hist = (260 if not thorough else 4000) * scale
    for i in range(n_hist):
        yield _history_case(ctx, _history(ctx, rng))
    # the caller keeps, edits and re-uses what it passed; all strings of every earlier quantity are asked again
    n_call = (220 if not thorough else 3000) * scale
    for i in range(n_call):
        yield _history_case(ctx, _caller_history(ctx, rng))
    # powers: Quantity ** n (self * result), Scalar ** n (result * self), the n-fold product on value-less Arrays
    n_pow = (160 if not thorough else 2500) * scale
    for i in range(n_pow):
        yield _history_case(ctx, _pow_history(ctx, rng))
    # _MakeStr directly
    texts = ["length", "time", "m", "", "a b", "x * y", "volume per time", "(p)", "1"]
    for i in range(n_mk):
        items = [[rng.choice(texts), rng.choice([-12, -3, -2, -1, -1, 0, 1, 1, 2, 3, 10])] for _ in range(rng.randint(0, 6))]
        yield dict(op="makestr", items=[[str(sym(r)), e] for r, e in items], _t=dict(kind="makestr", items=items))
    # the parser and the atomicity predicate
    syms = [u for u, _ in ctx.all_units]
    for _ in range((400 if not thorough else 4000) * scale):
        syms.append("".join(rng.choice(ALPHA) for _ in range(rng.randint(0, 6))))
    for i in range(0, len(syms), 50):
        part = syms[i:i + 50]
        yield dict(op="parse", syms=[str(sym(s)) for s in part], _t=dict(kind="parse", syms=part))


def cases(ctx):
    yield from _gen(ctx, "corr", 1)


def table_candidates(ctx):
    """When the table theorem `posc_unit_names_distinguish_types` stops checking: every pair of atomic units of
    different quantity types that share a registered name, as product, quotient and reciprocal powers."""
    by_name = {}
    for u, qt in ctx.all_units:
        try:
            by_name.setdefault(ctx.db.GetUnitName(qt, u), []).append((u, qt))
        except Exception:
            pass
    for name in sorted(by_name):
        rows = by_name[name]
        for i, (u1, q1) in enumerate(rows):
            for u2, q2 in rows[i + 1:]:
                if q1 == q2:
                    continue
                # any category of the unit's quantity type will do: the dict form of ObtainQuantity checks the unit
                # against the quantity type of its category only
                c1 = next((c_ for c_, ci in sorted(ctx.db.categories_to_quantity_types.items()) if ci.quantity_type == q1), None)
                c2 = next((c_ for c_, ci in sorted(ctx.db.categories_to_quantity_types.items()) if ci.quantity_type == q2), None)
                if c1 is None or c2 is None or c1 == c2:
                    continue
                for e1, e2 in ((1, 1), (1, -1), (2, -3), (-1, -1)):
                    c = _strings_case(ctx, dict(kind="dict", entries=[[c1, u1, e1], [c2, u2, e2]]))
                    if c is not None and "build_error" not in c["_t"]:
                        yield c


def search(ctx):
    yield from _gen(ctx, "search", 2)


def model_line(c):
    return {k: v for k, v in c.items() if k != "_t"}


def case_key(c):
    return model_line(c)


def show(c):
    t = c["_t"]
    return {k: v for k, v in t.items() if k in ("kind", "recipe", "entries", "unit", "cat", "items", "build_error", "detail", "pairs", "lcats", "as_tuple", "primer", "mode", "steps")} \
        if t["kind"] != "parse" else dict(kind="parse", syms=t["syms"][:8])


# ------------------------------------------------------------------ the real code
def impl(c, ctx):
    from barril.units import Array

    t = c["_t"]
    try:
        if t["kind"] == "parse":
            return dict(ok=[dict(atomic=is_atomic(s), parsed=parse_unit(s)) for s in t["syms"]])
        if t["kind"] == "history":
            return dict(ok=_run_history(t, ctx))
        with Pushed(ctx.db):
            if t["kind"] == "makestr":
                from barril.units import ObtainQuantity

                q = ObtainQuantity("m", "length")
                return dict(ok=q._MakeStr([(r, e) for r, e in t["items"]]))
            if "build_error" in t:
                return dict(err=t["build_error"], build=True, detail=t.get("detail"))
            q, s = quantity_of(t)
            out = dict(entries=entries_of(q), unit=q.GetUnit(), category=q.GetCategory(), qtype=q.GetQuantityType(),
                       derived=bool(q.IsDerived()),
                       joined=[[u, e] for u, e in q.GetComposingUnitsJoiningExponents()])
            try:
                out["unit_name"] = dict(ok=q.GetUnitName())
            except Exception as e:
                out["unit_name"] = dict(err=err_kind(e))
            if s is not None:
                from barril.basic.format_float import FormatFloat

                out["repr"] = repr(s)
                out["str"] = str(s)
                out["repr_head"] = "%s(%s" % (type(s).__name__, s.value)
                out["str_head"] = FormatFloat("%g", s.value)
                out["scalar_getters"] = [s.GetUnit(), s.GetCategory(), s.GetQuantityType()]
            a = Array.CreateWithQuantity(q, [1.0, 2.5])
            out["arepr"] = repr(a)
            out["astr"] = str(a)
            if t["kind"] == "expr":
                # the same expression on Arrays WITHOUT values: the strings of the result must be the same
                try:
                    a0 = build(t["recipe"], "a0")
                    out["a0"] = dict(entries=entries_of(a0.GetQuantity()), unit=a0.GetUnit(), repr=repr(a0), str=str(a0))
                except (ZeroDivisionError, OverflowError):
                    # the library computes the quantity of a result without values on dummy amounts (1.0), and
                    # 1 atm is 0 Pa(g): a failed value computation, C10's business, no strings to compare
                    out["a0"] = dict(skip=True)
                except Exception as e:
                    out["a0"] = dict(err=err_kind(e), detail=repr(e)[:200])
            return dict(ok=out)
    except Exception as e:
        return dict(err=err_kind(e), detail=repr(e)[:200])


def _u(x):
    return unsym(int(x))


def agree(c, io, mo, ctx):
    t = c["_t"]
    if "build_error" in t:
        return "the real code raised while building the quantity: %s" % t.get("detail")
    if "err" in io or "err" in mo:
        if ("err" in io) != ("err" in mo):
            return "one side fails: impl=%s model=%s" % (io, mo)
        return None if io["err"] == mo["err"] else "error kinds differ"
    r, m = io["ok"], mo["ok"]
    if t["kind"] == "history":
        if len(r) != len(m):
            return "the model answered %d steps, the history has %d" % (len(m), len(r))
        for i, (rs, ms) in enumerate(zip(r, m)):
            if "reread" in ms or "reread" in rs:
                # all strings of every quantity made so far, asked again: the model's values of the ORIGINAL requests
                # (theorem strings_stable_under_caller_mutation), compared exactly like a fresh step
                if "reread" not in ms or "reread" not in rs:
                    return "step %d (%s): one side has no re-read: impl=%s model=%s" % (i, t["steps"][i]["k"], rs, ms)
                if len(rs["reread"]) != len(ms["reread"]):
                    return "step %d: the model re-reads %d quantities, the history made %d" % (i, len(ms["reread"]), len(rs["reread"]))
                for j, (rq, mq) in enumerate(zip(rs["reread"], ms["reread"])):
                    why = _agree_step(rq, mq, ctx)
                    if why:
                        return ("step %d (%s %s): the quantity made as number %d, asked again: %s"
                                % (i, t["steps"][i]["k"], t["steps"][i].get("ed", ""), j, why))
                ctx.notes["quantities_reread_after_caller_steps"] = ctx.notes.get("quantities_reread_after_caller_steps", 0) + len(rs["reread"])
                continue
            why = _agree_step(rs, ms, ctx)
            if why:
                return "step %d (%s, mode %s): %s" % (i, t["steps"][i]["k"], t["mode"], why)
        k = "%s:%s" % (t["mode"], "+".join(sorted(set(st["k"] for st in t["steps"]))))
        ctx.notes.setdefault("history_shapes", {})
        ctx.notes["history_shapes"][k] = ctx.notes["history_shapes"].get(k, 0) + 1
        return None
    if t["kind"] == "parse":
        for s, a, b in zip(t["syms"], r, m):
            pm = None if b["parsed"] is None else [[_u(x), e] for x, e in b["parsed"]]
            if a["atomic"] != b["atomic"]:
                return "atomic(%r): python %s, model %s" % (s, a["atomic"], b["atomic"])
            if a["parsed"] != pm:
                return "parse(%r): python %s, model %s" % (s, a["parsed"], pm)
        return None
    if t["kind"] == "makestr":
        return None if r == _u(m) else "_MakeStr gives %r, the model %r" % (r, _u(m))
    if t["kind"] == "list":
        me = [[_u(c_), _u(u_), e_] for c_, u_, e_ in m["entries"]]
        if r["entries"] != me:
            return "list form: the real quantity has entries %s, the model's %s" % (r["entries"], me)
    elif r["entries"] != t["entries"]:
        return "the quantity was rebuilt with a different entry list (non-deterministic build?)"
    for k in ("unit", "category", "qtype"):
        if r[k] != _u(m[k]):
            return "%s: real %r, model %r" % (k, r[k], _u(m[k]))
    if r["derived"] != m["derived"]:
        return "IsDerived differs"
    un_r, un_m = r["unit_name"], m["unit_name"]
    if ("err" in un_r) != ("err" in un_m) or ("err" in un_r and un_r["err"] != un_m["err"]):
        return "GetUnitName: real %s, model %s" % (un_r, un_m)
    if "ok" in un_r and un_r["ok"] != _u(un_m["ok"]):
        return "GetUnitName: real %r, model %r" % (un_r["ok"], _u(un_m["ok"]))
    jm = [[_u(x), e] for x, e in m["joined"]]
    if r["joined"] != jm:
        return "GetComposingUnitsJoiningExponents: real %s, model %s" % (r["joined"], jm)
    if "repr" in r:
        if r["repr"] != r["repr_head"] + _u(m["scalar_repr_tail"]):
            return "repr(Scalar): real %r, model tail %r" % (r["repr"], _u(m["scalar_repr_tail"]))
        if r["str"] != r["str_head"] + _u(m["suffix"]):
            return "str(Scalar): real %r, model suffix %r" % (r["str"], _u(m["suffix"]))
        if r["scalar_getters"] != [r["unit"], r["category"], r["qtype"]]:
            return "Scalar getters differ from its quantity's"
    if "a0" in r:
        a0 = r["a0"]
        if "skip" in a0:
            ctx.notes["a0_numeric_failures_skipped"] = ctx.notes.get("a0_numeric_failures_skipped", 0) + 1
        elif "err" in a0:
            return "the expression on Arrays without values raised: %s" % a0.get("detail")
        elif a0["entries"] != r["entries"] or a0["unit"] != _u(m["unit"]):
            return "the expression on Arrays without values gives entries %s / unit %r, on Scalars %s / model unit %r" % (
                a0["entries"], a0["unit"], r["entries"], _u(m["unit"]))
        elif not a0["repr"].endswith(_u(m["array_repr_tail"])) or not a0["str"].endswith(_u(m["suffix"])):
            return "repr/str of the Array without values: %r / %r" % (a0["repr"], a0["str"])
    if r["arepr"] != "Array(" + _u(m["array_repr_head"]) + "[1.0, 2.5]" + _u(m["array_repr_tail"]):
        return "repr(Array): real %r" % r["arepr"]
    if r["astr"] != "1 2.5" + _u(m["suffix"]):
        return "str(Array): real %r" % r["astr"]
    # the model's parser against the independent one, on the real unit string
    pm = None if m["parsed"] is None else [[_u(x), e] for x, e in m["parsed"]]
    if pm != parse_unit(r["unit"]):
        return "parse of %r: python %s, model %s" % (r["unit"], parse_unit(r["unit"]), pm)
    if m["all_atomic"] != all(is_atomic(u) for _c, u, _e in r["entries"]):
        return "atomicity verdicts differ"
    if m["all_atomic"] and pm != written(jm):
        return "model: parse . render is not the written joined factors (contradicts theorem parse_render)"
    k = "den%d" % min(6, sum(1 for _u2, e in jm if e < 0))
    ctx.notes.setdefault("denominator_factors", {})
    ctx.notes["denominator_factors"][k] = ctx.notes["denominator_factors"].get(k, 0) + 1
    k = "entries%d" % min(12, len(t["entries"]))
    ctx.notes.setdefault("entry_counts", {})
    ctx.notes["entry_counts"][k] = ctx.notes["entry_counts"].get(k, 0) + 1
    return None


def nontrivial(c, io):
    t = c["_t"]
    if t["kind"] == "parse":
        return any("." in s or "/" in s for s in t["syms"])
    if t["kind"] == "makestr":
        return len(t["items"]) >= 2
    if t["kind"] == "history":
        return "ok" in io and any(x.get("derived") and len(x.get("entries", [])) >= 2 for x in io["ok"])
    return "ok" in io and io["ok"]["derived"] and len(t.get("entries", [])) >= 2


# ------------------------------------------------------------------ the property itself, on the real code only
def _check_makestr(what, got, pairs):
    """`got` must list `pairs` (non-zero exponents): numerators, one ' / ', denominators."""
    if not all(clean_text(k) for k, e in pairs if e != 0):
        return None  # texts that themselves contain the separators: don't care
    want = written(pairs)
    if parse_makestr(got) != want:
        return dict(clause="%s lists every factor with its exponent, ' * ' between factors, one ' / '" % what,
                    got=got, factors_required=want, read_back=parse_makestr(got))
    return None


def oracle(c, ctx):
    t = c["_t"]
    if t["kind"] == "parse":
        return None
    if t["kind"] == "history":
        return _oracle_history(c, ctx)
    db = ctx.db
    with Pushed(db):
        if t["kind"] == "makestr":
            from barril.units import ObtainQuantity

            try:
                got = ObtainQuantity("m", "length")._MakeStr([(r, e) for r, e in t["items"]])
            except Exception as e:
                return dict(clause="_MakeStr raised", items=t["items"], error=repr(e))
            f = _check_makestr("_MakeStr", got, t["items"])
            return dict(f, items=t["items"]) if f else None
        try:
            q, s = quantity_of(t)
        except (ZeroDivisionError, OverflowError):
            return None  # a failed value computation, not a string matter
        except Exception as e:
            if t["kind"] == "dict":
                return None  # arbitrary dicts may legitimately be refused
            return dict(clause="building the quantity raised", input=show(c), error=repr(e))
        try:
            ent = entries_of(q)
            unit, cat, qt = q.GetUnit(), q.GetCategory(), q.GetQuantityType()
            inp = dict(input=show(c), entries=ent)
            if t["kind"] == "list" and len(set(t["lcats"])) == len(t["lcats"]) == len(t["pairs"]):
                want_ent = [[c_, u_, e_] for c_, (u_, e_) in zip(t["lcats"], t["pairs"])]
                if ent != want_ent:
                    return dict(inp, clause="a quantity obtained from a list of (unit, exponent) factors holds exactly "
                                            "those composing units and exponents (so that its unit string parses "
                                            "back to them)", requested=want_ent, unit_string=unit)
                if all(is_atomic(u_) for u_, _e in t["pairs"]) and parse_unit(unit) != written(merged(t["pairs"])):
                    return dict(inp, clause="parsing the unit string recovers the joined requested factors",
                                unit_string=unit, parsed=parse_unit(unit), requested=written(merged(t["pairs"])))
            if not q.IsDerived():
                # a simple quantity's strings are exactly its registered category, quantity type and unit
                (c0, u0, e0), = ent
                want = [u0, c0, db.GetCategoryQuantityType(c0)]
                if [unit, cat, qt] != want or e0 != 1:
                    return dict(inp, clause="simple quantity strings are its registered unit/category/type",
                                got=[unit, cat, qt], want=want)
                if t["kind"] == "simple_u" and [u0, c0] != [t["unit"], t["cat"]]:
                    return dict(inp, clause="a quantity built from a unit alone has the unit's registered default category, "
                                            "whatever was built before", got=[u0, c0], want=[t["unit"], t["cat"]],
                                built_before="Scalar(1.0, %r, %r)" % (t["unit"], t["primer"]))
                if t["kind"] == "simple" and [u0, c0] != [t["unit"], t["cat"]]:
                    return dict(inp, clause="simple quantity keeps the unit and category it was built with",
                                got=[u0, c0], want=[t["unit"], t["cat"]])
                if q.GetUnitName() != db.GetUnitName(qt, u0):
                    return dict(inp, clause="unit name of a simple quantity", got=q.GetUnitName())
            else:
                units = [[u, e] for _c, u, e in ent]
                if all(is_atomic(u) for u, _e in units):
                    want = written(merged(units))
                    got = parse_unit(unit)
                    if got != want:
                        return dict(inp, clause="parsing the unit string recovers the joined composing units",
                                    unit_string=unit, parsed=got, joined_composing_units=want)
                    j = [[u, e] for u, e in q.GetComposingUnitsJoiningExponents()]
                    if j != merged(units):
                        return dict(inp, clause="joined composing units", got=j, want=merged(units))
                f = _check_makestr("category string", cat, [[c_, e] for c_, _u, e in ent])
                if f:
                    return dict(inp, **f)
                types = merged([[db.GetCategoryQuantityType(c_), e] for c_, _u, e in ent])
                f = _check_makestr("quantity type string", qt, types)
                if f:
                    return dict(inp, **f)
                # the unit-name string lists every composing unit (joined per unit, as in the unit string) under its
                # registered name; units of one quantity type that are registered under one name (aliases such as
                # Ci / curie) are a don't-care, units of DIFFERENT quantity types under one name merge two factors
                try:
                    ufs = merged([[(db.GetCategoryQuantityType(c_), u), e] for c_, u, e in ent])
                    named = [[db.GetUnitName(k[0], k[1]), e, k] for k, e in ufs]
                except Exception:
                    named = None
                if named is not None:
                    owners = {}
                    for n_, _e, k in named:
                        owners.setdefault(n_, set()).add(k)
                    shared = {n_: sorted(ks) for n_, ks in owners.items() if len(ks) > 1}
                    if any(len({k[0] for k in ks}) > 1 for ks in shared.values()):
                        return dict(inp, clause="the unit-name string lists every factor with its exponent: two composing "
                                                "units of different quantity types carry the same registered name, so "
                                                "GetUnitName merges their factors", got=q.GetUnitName(),
                                    shared_names={n_: [list(k) for k in ks] for n_, ks in shared.items()},
                                    unit_string=unit)
                    if not shared:
                        f = _check_makestr("unit name string", q.GetUnitName(), [[n_, e] for n_, e, _k in named])
                        if f:
                            return dict(inp, **f)
            # a value object's repr/str show that unit
            if s is not None:
                quoted = re.findall(r"'([^']*)'", repr(s))
                if "'" not in unit + cat and quoted[:2] != [unit, cat]:
                    return dict(inp, clause="repr(Scalar) shows the unit, then the category, each in quotes",
                                got=repr(s), unit=unit, category=cat)
                if not str(s).endswith(" [%s]" % unit):
                    return dict(inp, clause="str(Scalar) shows the unit", got=str(s), unit=unit)
            from barril.units import Array

            a = Array.CreateWithQuantity(q, [1.0, 2.5])
            if not repr(a).endswith(", %s)" % unit) or not str(a).endswith(" [%s]" % unit):
                return dict(inp, clause="repr/str(Array) show the unit", got=[repr(a), str(a)], unit=unit)
            a0 = None
            if t["kind"] == "expr":
                try:
                    a0 = build(t["recipe"], "a0")
                except (ZeroDivisionError, OverflowError):
                    a0 = None   # a failed value computation on the library's dummy amounts, not a string matter
            if a0 is not None:
                want_u = [[u_, e_] for _c, u_, e_ in ent]
                got_u = [[u_, e_] for _c, u_, e_ in entries_of(a0.GetQuantity())]
                if all(is_atomic(u_) for u_, _e in want_u) and (
                        parse_unit(a0.GetUnit()) != written(merged(want_u)) or not str(a0).endswith(" [%s]" % unit)):
                    return dict(inp, clause="an Array without values shows the unit of the expression: the same factors "
                                            "and exponents as the Scalar result", got=[repr(a0), str(a0)],
                                array_factors=got_u, scalar_factors=want_u, unit=unit)
        except Exception as e:
            return dict(clause="a string getter raised", input=show(c), error=repr(e))
    return None


def _reductions(r):
    """trees one step smaller: a node replaced by one of its operands, or an operand reduced"""
    if not isinstance(r, list) or r[0] == "leaf":
        return
    for i, x in enumerate(r):
        if isinstance(x, list):
            yield x
            for y in _reductions(x):
                yield r[:i] + [y] + r[i + 1:]
    if r[0] == "pow" and r[2] > 2:
        yield ["pow", r[1], r[2] - 1]


def _shrink_history(case, failure, ctx):
    """fewer steps, then smaller expressions"""
    best = (case, failure)
    t = case["_t"]
    for _round in range(40):
        steps = best[0]["_t"]["steps"]
        cands = [steps[:i] + steps[i + 1:] for i in range(len(steps)) if len(steps) > 1]
        for i, st in enumerate(steps):
            if st["k"] == "expr":
                for sub in _reductions(st["recipe"]):
                    if t["mode"] == "q" and uses_rdiv(sub):
                        continue
                    cands.append(steps[:i] + [dict(k="expr", recipe=sub)] + steps[i + 1:])
        for cand in cands:
            c2 = _history_case(ctx, dict(kind="history", mode=t["mode"], steps=cand))
            f2 = oracle(c2, ctx)
            if f2:
                best = (c2, f2)
                break
        else:
            break
    return best


def shrink(case, failure, ctx):
    t = case["_t"]
    if t["kind"] == "history":
        return _shrink_history(case, failure, ctx)
    if t["kind"] not in ("expr", "quant"):
        return case, failure
    best = (case, failure)
    tree = t["recipe"]
    for _round in range(60):
        for sub in _reductions(tree):
            kind = "expr" if uses_rdiv(sub) else t["kind"]
            c2 = _strings_case(ctx, dict(kind=kind, recipe=sub))
            if c2 is None:
                continue
            f2 = oracle(c2, ctx)
            if f2:
                best, tree = (c2, f2), sub
                break
        else:
            break
    return best
