"""Shared by C09 and C10: operand specifications for the `Ops` engine (drv_ops), the real-code side of the
correspondence (Scalar / Array operators on the default POSC database, read only) and the comparison of
canonical results.

An operand specification is JSON-able:
  {"t":"num","ty":T,"x":X}                T in int float bool f64 f32 f16 i64 i32 i16 i8 u64 u32 u16 u8
  {"t":"nd","dt":D,"xs":[X..]}            numpy.ndarray, D in f64 f32 i64 ("d0": true with one X: the ZERO-dimensional
                                          array numpy.array(X); against the 1-D values of an Array it broadcasts exactly
                                          as the one-element array does, which is what the model is given)
  {"t":"scalar","q":Q,"x":X}              Scalar.CreateWithQuantity(ObtainQuantity(OrderedDict(Q)), x)
                                          ("cap": caption with Q = [["Unknown", "<unknown>", 1]]: the quantity is
                                          ObtainQuantity("<unknown>", None, caption), an unknown unit that has a name)
  {"t":"array","q":Q,"kind":K,"xs":[X..]} Array.CreateWithQuantity(.., list | tuple | ndarray)
  {"t":"junk","w":W}                      W in str none list
  {"t":"array0","q":Q,"x":X}              Array.CreateWithQuantity(.., values=<the bare number X>)
An operand may carry "old": true inside a sequence: the object an earlier step built from the same specification.
X is an int or the hex string of a float; Q is [[category, unit, exponent], ...] (the ordered dict).
"""
import math
import operator
import warnings
from collections import OrderedDict
from fractions import Fraction

from common import EPS, K, err_kind, exact, qparse, qstr, sym, unsym

DRIVER = "drv_ops"
OPS = ("sum", "sub", "mul", "div", "floordiv")
PYOP = {"sum": operator.add, "sub": operator.sub, "mul": operator.mul, "div": operator.truediv,
        "floordiv": operator.floordiv}
OPSIGN = {"sum": "+", "sub": "-", "mul": "*", "div": "/", "floordiv": "//"}
NUM_TYPES = ("int", "float", "bool", "f64", "f32", "i64", "i32")
# the other numpy scalar kinds: unsigned and small signed ints, float16 (value pools small enough for uint8)
SMALL_TYPES = ("u8", "u16", "u32", "u64", "i8", "i16", "f16")
NP_TYPES = ("f64", "f32", "i64", "i32") + SMALL_TYPES
NP_NAMES = {"f64": "float64", "f32": "float32", "f16": "float16", "i64": "int64", "i32": "int32", "i16": "int16", "i8": "int8",
            "u64": "uint64", "u32": "uint32", "u16": "uint16", "u8": "uint8"}
EPS16 = 2.0 ** -11
KINDS = ("list", "tuple", "nd")
EPS32 = 2.0 ** -24


# ------------------------------------------------------------------------------------------ values
def val(x):
    return x if isinstance(x, int) else float.fromhex(x)


def enc(x):
    """int stays int, everything else becomes the hex of the double"""
    if isinstance(x, bool):
        return int(x)
    if isinstance(x, int):
        return x
    return float(x).hex()


def exact_of(x):
    return exact(val(x))


def _np():
    import numpy

    return numpy


def num_object(ty, x):
    np = _np()
    v = val(x)
    if ty in NP_NAMES:
        return getattr(np, NP_NAMES[ty])(v)
    return {"int": int, "float": float, "bool": bool}[ty](v)


def num_spec(ty, v):
    """a specification whose exact value is the value the object of that type really has"""
    np = _np()
    if ty in ("int", "i64", "i32", "i16", "i8", "u64", "u32", "u16", "u8"):
        return dict(t="num", ty=ty, x=int(v))
    if ty == "f16":
        return dict(t="num", ty=ty, x=float(np.float16(v)).hex())
    if ty == "bool":
        return dict(t="num", ty=ty, x=int(bool(v)))
    if ty == "f32":
        return dict(t="num", ty=ty, x=float(np.float32(v)).hex())
    return dict(t="num", ty=ty, x=float(v).hex())


ND_SUBS = ("ma", "mam", "my1", "my50")   # MaskedArray (nothing masked / some masked), ndarray subclass views
_SUBCLASSES = {}


def nd_subclass(priority):
    """a trivial ndarray subclass with the given __array_priority__ (used as `arr.view(cls)`)"""
    np = _np()
    if priority not in _SUBCLASSES:
        _SUBCLASSES[priority] = type("MyArr%d" % int(priority), (np.ndarray,), {"__array_priority__": float(priority)})
    return _SUBCLASSES[priority]


def nd_spec(dt, vs, sub=None, mask=None, d0=False):
    np = _np()
    if d0:
        d = nd_spec(dt, list(vs)[:1])
        d["d0"] = True
        return d
    if dt == "i64":
        d = dict(t="nd", dt=dt, xs=[int(v) for v in vs])
    elif dt == "f32":
        d = dict(t="nd", dt=dt, xs=[float(np.float32(v)).hex() for v in vs])
    else:
        d = dict(t="nd", dt=dt, xs=[float(v).hex() for v in vs])
    if sub:
        d["sub"] = sub
        if sub == "mam":
            d["mask"] = [bool(m) for m in (mask if mask is not None else [i % 2 == 1 for i in range(len(vs))])]
    return d


def array_spec(q, kind, vs, ints=False):
    xs = [int(v) for v in vs] if ints else [float(v).hex() for v in vs]
    return dict(t="array", q=q, kind=kind, xs=xs)


def scalar_spec(q, v):
    return dict(t="scalar", q=q, x=float(v).hex())


UNKNOWN_Q = [["Unknown", "<unknown>", 1]]


def captioned_scalar_spec(caption, v):
    """a Scalar whose unit is an unknown unit carrying a caption"""
    return dict(t="scalar", q=[list(e) for e in UNKNOWN_Q], x=float(v).hex(), cap=caption)


# ------------------------------------------------------------------------------------------ the real side
def quantity(q, caption=None):
    from barril.units import ObtainQuantity

    if caption:
        return ObtainQuantity("<unknown>", None, caption)
    return ObtainQuantity(OrderedDict((c, [u, int(e)]) for c, u, e in q))


def spec_key(spec):
    """identity of an operand inside one sequence: the specification without the `old` mark"""
    import json

    return json.dumps({k_: v for k_, v in spec.items() if k_ != "old"}, sort_keys=True)


def build(spec, objs=None):
    """the Python object of a specification (raises what the real code raises).  `objs` is the object store of
    one SEQUENCE of operations: every object built is remembered under its specification, and an operand marked
    `old` is the very object an earlier step of the sequence built from the same specification (not a new one)"""
    if objs is not None:
        key = spec_key(spec)
        if spec.get("old") and key in objs:
            return objs[key]
        objs[key] = obj = _build(spec)
        return obj
    return _build(spec)


def _build(spec):
    from barril.units import Array, Scalar

    np = _np()
    t = spec["t"]
    if t == "num":
        return num_object(spec["ty"], spec["x"])
    if t == "nd":
        dt = {"f64": np.float64, "f32": np.float32, "i64": np.int64}[spec["dt"]]
        if spec.get("d0"):
            return np.array(val(spec["xs"][0]), dtype=dt)
        arr = np.array([val(x) for x in spec["xs"]], dtype=dt)
        sub = spec.get("sub")
        if sub == "ma":
            return np.ma.masked_array(arr)
        if sub == "mam":
            return np.ma.masked_array(arr, mask=list(spec["mask"]))
        if sub == "my1":
            return arr.view(nd_subclass(1))
        if sub == "my50":
            return arr.view(nd_subclass(50))
        return arr
    if t == "scalar":
        return Scalar.CreateWithQuantity(quantity(spec["q"], spec.get("cap")), value=val(spec["x"]))
    if t == "array":
        vs = [val(x) for x in spec["xs"]]
        if spec["kind"] == "tuple":
            vs = tuple(vs)
        elif spec["kind"] == "nd":
            vs = np.array(vs, dtype=np.int64 if (vs and all(isinstance(v, int) for v in vs)) else np.float64)
        return Array.CreateWithQuantity(quantity(spec["q"]), values=vs)
    if t == "array0":
        return Array.CreateWithQuantity(quantity(spec["q"]), values=val(spec["x"]))
    if t == "junk":
        if spec["w"] == "npbool":
            return np.bool_(True)   # not a numpy.number: IsNumber says no
        return {"str": "x", "none": None, "list": [1.0, 2.0]}[spec["w"]]
    raise ValueError(t)


def model_operand(spec):
    t = spec["t"]
    if t == "num":
        return dict(t="num", np=spec["ty"] in NP_TYPES, k=qstr(exact_of(spec["x"])))
    if t == "nd":
        return dict(t="nd", ks=[qstr(exact_of(x)) for x in spec["xs"]])
    qs = lambda q: [[str(sym(c)), str(sym(u)), str(int(e))] for c, u, e in q]
    if t == "scalar":
        d = dict(t="scalar", q=qs(spec["q"]), v=qstr(exact_of(spec["x"])))
        if spec.get("cap"):
            d["cap"] = str(sym(spec["cap"]))
        return d
    if t == "array":
        return dict(t="array", q=qs(spec["q"]), kind=spec["kind"], vs=[qstr(exact_of(x)) for x in spec["xs"]])
    if t == "array0":
        return dict(t="array0", q=qs(spec["q"]), v=qstr(exact_of(spec["x"])))
    return dict(t="junk")


def render(spec):
    if spec.get("old"):
        return "<the object built before as> " + render({k_: v for k_, v in spec.items() if k_ != "old"})
    t = spec["t"]
    if t == "num":
        ty = spec["ty"]
        name = ("numpy." + NP_NAMES[ty]) if ty in NP_NAMES else ty
        return "%s(%r)" % (name, val(spec["x"]))
    if t == "nd":
        base = "numpy.array(%r, dtype=%s)" % ([val(x) for x in spec["xs"]], spec["dt"])
        if spec.get("d0"):
            return "numpy.array(%r, dtype=%s)" % (val(spec["xs"][0]), spec["dt"])
        sub = spec.get("sub")
        if sub == "ma":
            return "numpy.ma.masked_array(%s)" % base
        if sub == "mam":
            return "numpy.ma.masked_array(%s, mask=%r)" % (base, list(spec["mask"]))
        if sub in ("my1", "my50"):
            return "%s.view(<class MyArr(numpy.ndarray) with __array_priority__ = %s>)" % (base, sub[2:] + ".0")
        return base
    if t == "junk":
        return {"str": "'x'", "none": "None", "list": "[1.0, 2.0]", "npbool": "numpy.bool_(True)"}[spec["w"]]
    q = spec["q"]
    if t == "array0":
        return "Array.CreateWithQuantity(ObtainQuantity(OrderedDict(%r)), values=%r)" % (
            [(c, [u, e]) for c, u, e in q], val(spec["x"]))
    if t == "scalar":
        if spec.get("cap"):
            return "Scalar(ObtainQuantity('<unknown>', None, %r), %r)" % (spec["cap"], val(spec["x"]))
        if len(q) == 1 and int(q[0][2]) == 1:
            return "Scalar(%r, %r, %r)" % (val(spec["x"]), q[0][1], q[0][0])
        return "Scalar.CreateWithQuantity(ObtainQuantity(OrderedDict(%r)), %r)" % (
            [(c, [u, e]) for c, u, e in q], val(spec["x"]))
    vs = [val(x) for x in spec["xs"]]
    cont = repr(tuple(vs)) if spec["kind"] == "tuple" else ("numpy.array(%r)" % vs if spec["kind"] == "nd" else repr(vs))
    if len(q) == 1 and int(q[0][2]) == 1:
        return "Array(%s, %r, %r)" % (cont, q[0][1], q[0][0])
    if not q:
        return "Array.CreateEmptyArray(%s)" % cont
    return "Array.CreateWithQuantity(ObtainQuantity(OrderedDict(%r)), %s)" % ([(c, [u, e]) for c, u, e in q], cont)


def entries(quantity_obj):
    return [[c, ue[0], int(ue[1])] for c, ue in quantity_obj.GetCategoryToUnitAndExps().items()]


def canon(r):
    """canonical form of a result of the real code"""
    from barril.units import Array, Scalar

    np = _np()
    if isinstance(r, Scalar):
        v = r.GetAbstractValue()
        if not isinstance(v, float):
            return dict(err="other", detail="Scalar value of type %s" % type(v).__name__)
        if not math.isfinite(v):
            return dict(err="other", detail="nonfinite")
        out = dict(t="scalar", q=entries(r.GetQuantity()), vs=[v.hex()], f32=False)
        if r.GetQuantity().GetUnknownCaption():
            out["cap"] = r.GetQuantity().GetUnknownCaption()
        return dict(ok=out)
    if isinstance(r, Array):
        vs = r.GetAbstractValue()
        kind = "nd" if isinstance(vs, np.ndarray) else "tuple" if isinstance(vs, tuple) else "list" if isinstance(vs, list) else None
        if kind is None or (kind == "nd" and vs.ndim != 1):
            return dict(err="other", detail="values of type %s" % type(vs).__name__)
        out, f32, f16 = [], False, False
        masked = None
        if isinstance(vs, np.ma.MaskedArray):
            # masked positions carry no value: reported as None and not compared
            masked = [bool(m) for m in np.ma.getmaskarray(vs)]
            vs = np.ma.getdata(vs)
        for i, v in enumerate(vs):
            if masked is not None and masked[i]:
                out.append(None)
                continue
            if isinstance(v, (bool, np.bool_)) or not isinstance(v, (int, float, np.integer, np.floating)):
                return dict(err="other", detail="element of type %s" % type(v).__name__)
            if isinstance(v, np.float32):
                f32 = True
            if isinstance(v, np.float16):
                f16 = True
            if isinstance(v, (int, np.integer)):
                out.append(int(v))
            else:
                if not math.isfinite(float(v)):
                    return dict(err="other", detail="nonfinite")
                out.append(float(v).hex())
        return dict(ok=dict(t="array", q=entries(r.GetQuantity()), kind=kind, vs=out, f32=("f16" if f16 else f32)))
    return dict(ok=dict(t="bare", py=type(r).__name__))


def run_binop(f, a, b, objs=None):
    """`a <op> b` on the real code, canonicalised; never raises (`objs`: the object store of a sequence)"""
    np = _np()
    try:
        x, y = build(a, objs), build(b, objs)
    except Exception as e:
        return dict(err="other", detail="operand does not build: %r" % (e,))
    try:
        with warnings.catch_warnings():
            warnings.simplefilter("ignore")
            with np.errstate(all="ignore"):
                r = PYOP[f](x, y)
    except Exception as e:
        return dict(err=err_kind(e), exc=type(e).__name__)
    return canon(r)


def run_rdiv(x, k):
    """`x.__rdiv__(k)` called directly (the legacy reflected operator), canonicalised; never raises"""
    np = _np()
    try:
        X, K_ = build(x), build(k)
    except Exception as e:
        return dict(err="other", detail="operand does not build: %r" % (e,))
    try:
        with warnings.catch_warnings():
            warnings.simplefilter("ignore")
            with np.errstate(all="ignore"):
                r = X.__rdiv__(K_)
    except Exception as e:
        return dict(err=err_kind(e), exc=type(e).__name__)
    return canon(r)


def rdiv_case(x, k):
    return {"op": "rdiv", "self": model_operand(x), "other": model_operand(k), "_t": dict(f="div", a=k, b=x, x=x, k=k)}


def binop_case(f, a, b):
    return dict(op="binop", f=f, defers=True, a=model_operand(a), b=model_operand(b), _t=dict(f=f, a=a, b=b))


def model_line(c):
    return {k: v for k, v in c.items() if k != "_t"}


def show(c):
    t = c["_t"]
    if c["op"] == "binop":
        return "%s %s %s" % (render(t["a"]), OPSIGN[t["f"]], render(t["b"]))
    if c["op"] == "rdiv":
        return "(%s).__rdiv__(%s)" % (render(t["x"]), render(t["k"]))
    return t


def uses_f32(spec):
    """False, True (a float32 takes part) or "f16" (a float16 does): the precision class of the float comparison"""
    if spec.get("ty") == "f16":
        return "f16"
    return (spec.get("ty") == "f32") or (spec.get("dt") == "f32")


def lowest(*classes):
    return "f16" if "f16" in classes else (True if any(classes) else False)


def eps_of(f32):
    return EPS16 if f32 == "f16" else EPS32 if f32 else EPS


# ------------------------------------------------------------------------------------------ comparison
def tol_close(real, exact_value, magnitude, f32=False):
    eps = eps_of(f32)
    m = max(abs(Fraction(magnitude)), abs(Fraction(exact_value)))
    # below these the low precision types are denormal
    floor_ = Fraction(1, 10 ** 4) if f32 == "f16" else Fraction(1, 10 ** 37) if f32 else Fraction(1, 10 ** 300)
    return abs(exact(real) - Fraction(exact_value)) <= 4 * K * Fraction(eps) * m + floor_


def compare_values(impl_vs, model_vs, M, f32, pre=None):
    """None or a reason; `pre` = the exact quotients before the floor of `//` (near-integer quotients are
    a don't-care within one unit)"""
    if len(impl_vs) != len(model_vs):
        return "lengths differ: impl %d model %d" % (len(impl_vs), len(model_vs))
    for i, (r, y) in enumerate(zip(impl_vs, model_vs)):
        if r is None:
            continue  # a masked position of a MaskedArray result
        rv, yv = val(r), qparse(y)
        if isinstance(rv, int):
            if Fraction(rv) != yv:
                return "element %d: integer result %d, exact %s" % (i, rv, yv)
            continue
        if tol_close(rv, yv, M, f32):
            continue
        if pre is not None:
            p = qparse(pre[i])
            near = abs(p - round(p)) <= 16 * K * Fraction(eps_of(f32)) * max(abs(p), 1)
            if near and abs(exact(rv) - yv) <= 1:
                continue
        return "element %d: float result %r is not within K*eps*M of the exact %s" % (i, rv, float(yv))
    return None


def agree_binop(c, io, mo, notes=None):
    if io.get("detail") == "nonfinite" and "ok" in mo and "vs" in mo["ok"]:
        # overflow of the float type that took part (float32: 3.4e38, float64: 1.8e308) is not a zero division
        t = c["_t"]
        cls_ = lowest(uses_f32(t["a"]), uses_f32(t["b"]))
        limit = Fraction(6 * 10 ** 4) if cls_ == "f16" else Fraction(10) ** (38 if cls_ else 308)
        # (a weak Python float operand is first cast to the small type, so the operands count as well: M covers both)
        if any(abs(qparse(v)) >= limit for v in mo["ok"]["vs"]) or abs(qparse(mo["ok"]["M"])) >= limit:
            return None
    if "err" in io or "err" in mo:
        if ("err" in io) != ("err" in mo):
            return "one side fails: impl=%s model=%s" % (io, mo)
        return None if io["err"] == mo["err"] else "error kinds differ: impl=%s model=%s" % (io, mo)
    a, b = io["ok"], mo["ok"]
    if a["t"] != b["t"]:
        return "result kinds differ: impl=%s model=%s" % (a["t"], b["t"])
    if a["t"] == "bare":
        return None
    qa = [[str(sym(cc)), str(sym(u)), str(e)] for cc, u, e in a["q"]]
    if qa != b["q"]:
        return "quantities differ: impl=%s model=%s" % (a["q"], [[unsym(int(x)), unsym(int(y)), z] for x, y, z in b["q"]])
    if a["t"] == "array" and a["kind"] != b["kind"]:
        return "container kinds differ: impl=%s model=%s" % (a["kind"], b["kind"])
    cap_m = unsym(int(b["cap"])) if b.get("cap") not in (None, "0") else ""
    if (a.get("cap") or "") != cap_m:
        return "captions of the unknown unit differ: impl=%r model=%r" % (a.get("cap") or "", cap_m)
    t = c["_t"]
    f32 = lowest(a.get("f32"), uses_f32(t["a"]), uses_f32(t["b"]))
    pre = mo.get("pre")
    if pre is not None and not f32 and exact_floor_case(t):
        pre = None   # Python's and numpy's float `//` is the floor of the exact quotient: no don't-care
    return compare_values(a["vs"], b["vs"], qparse(b["M"]), f32, pre)


EXACT_NUM = ("int", "float", "bool", "f64", "i64", "i32", "i16", "i8", "u64", "u32", "u16", "u8")


def exact_floor_case(t):
    """`x // k` / `k // x` with a plain operand of double precision (or an integer) and a barril operand whose
    quantity needs no unit matching: no rounded intermediate, so `//` must be the floor of the exact quotient of
    the two numbers as given"""
    from barril.units.unit_database import UnitDatabase

    a, b = t["a"], t["b"]
    plain = [s_ for s_ in (a, b) if s_["t"] in ("num", "nd")]
    objs = [s_ for s_ in (a, b) if s_["t"] in ("scalar", "array", "array0")]
    if len(plain) != 1 or len(objs) != 1:
        return False
    k = plain[0]
    if k["t"] == "num" and k["ty"] not in EXACT_NUM:
        return False
    if k["t"] == "nd" and k["dt"] not in ("f64", "i64"):
        return False
    return not mixed_units(UnitDatabase.GetSingleton(), objs[0]["q"])



# ------------------------------------------------------------------------------------------ quantity pools
FAV = [("length", ["m", "cm", "km", "ft", "in"]), ("time", ["s", "min", "h"]), ("mass", ["kg", "g", "lbm"]),
       ("temperature", ["degC", "K", "degF"]), ("pressure", ["Pa", "psi", "bar"]), ("volume", ["m3", "L"])]


def setup_pools(ctx):
    from barril.units.unit_database import UnitDatabase

    db = UnitDatabase.GetSingleton()
    ctx.db = db
    cats = {}
    for name in sorted(db.categories_to_quantity_types):
        ci = db.categories_to_quantity_types[name]
        cats.setdefault(ci.quantity_type, []).append(name)
    ctx.cats = cats
    ctx.units = {qt: [i.unit for i in infos] for qt, infos in db.quantity_types.items()}
    ctx.qtypes = sorted(qt for qt in ctx.units if qt in cats and ctx.units[qt])
    ctx.fav = [(c, [u for u in us if u in ctx.units.get(db.GetCategoryQuantityType(c), [])])
               for c, us in FAV if c in db.categories_to_quantity_types]
    # units with an offset (degC, degF, psig, ...).  Since repair 1e63d4c they are scaled inside derived quantities
    # and shifted only as SIMPLE operands; the driver's M accounts for both (Drivers/Ops.lean), so they are used
    # everywhere: simple, derived at exponent 1 and != 1, twin and mixed-unit dicts
    ctx.affine = set()
    for qt, us in ctx.units.items():
        for u in us:
            try:
                if db.Convert(qt, u, us[0], 0.0) != 0.0:
                    ctx.affine.add(u)
            except Exception:
                ctx.affine.add(u)
    ctx.affine_qtypes = sorted(qt for qt in ctx.qtypes if any(u in ctx.affine for u in ctx.units[qt]))
    ctx.multi = sorted(qt for qt in ctx.qtypes if len(cats[qt]) > 1 and len(ctx.units[qt]) > 1)


def simple_q(ctx, rng, fav=0.6):
    if ctx.fav and rng.random() < fav:
        c, us = rng.choice(ctx.fav)
        return [[c, rng.choice(us), 1]]
    qt = rng.choice(ctx.qtypes)
    return [[rng.choice(ctx.cats[qt]), rng.choice(ctx.units[qt]), 1]]


def derived_q(ctx, rng, shape=None):
    """normal: distinct quantity types, non-zero exponents; twin: two categories of one type with one unit;
    mixed: two categories of one type with two units; zero: contains a zero exponent"""
    shape = shape or rng.choice(["normal"] * 5 + ["twin", "mixed", "zero", "affine", "affine", "affine-mixed"])
    if shape in ("twin", "mixed") and ctx.multi:
        qt = rng.choice(ctx.multi)
        c1, c2 = rng.sample(ctx.cats[qt], 2)
        u1 = rng.choice(ctx.units[qt])
        u2 = u1 if shape == "twin" else rng.choice([u for u in ctx.units[qt] if u != u1])
        return [[c1, u1, rng.choice([1, 1, 2, -1])], [c2, u2, rng.choice([1, 1, 2])]]
    n = rng.choice([1, 2, 2, 3])
    if shape in ("affine", "affine-mixed"):
        return affine_q(ctx, rng, mixed=(shape == "affine-mixed"))
    qts = rng.sample(ctx.qtypes, n)
    if rng.random() < 0.6 and ctx.fav:
        favs = rng.sample(ctx.fav, min(n, len(ctx.fav)))
        q = [[c, rng.choice(us), rng.choice([-2, -1, 1, 2, 3])] for c, us in favs]
    else:
        q = [[rng.choice(ctx.cats[qt]), rng.choice(ctx.units[qt]), rng.choice([-2, -1, 1, 2, 3])] for qt in qts]
    if shape == "zero":
        q[rng.randrange(len(q))][2] = 0
        if len(q) == 1:
            q.append(simple_q(ctx, rng)[0])
    if len({c for c, _u, _e in q}) != len(q):
        return derived_q(ctx, rng, "normal")
    return q


def affine_q(ctx, rng, mixed=False):
    """a derived quantity with an item of a quantity type that has offset units (temperature, pressure) at
    exponent 1 (mostly) or another exponent, times items of other types; mixed: two categories of that type
    with two different units"""
    qt = rng.choice(ctx.affine_qtypes)
    aff = [u for u in ctx.units[qt] if u in ctx.affine]
    pick = lambda: rng.choice(aff) if rng.random() < 0.6 else rng.choice(ctx.units[qt])
    e = rng.choice([1, 1, 1, 1, 2, -1, -2, 3])
    if mixed and len(ctx.cats[qt]) > 1:
        c1, c2 = rng.sample(ctx.cats[qt], 2)
        u1 = pick()
        u2 = rng.choice([u for u in ctx.units[qt] if u != u1])
        q = [[c1, u1, e], [c2, u2, rng.choice([1, 1, 2])]]
        if rng.random() < 0.5:
            q.append(simple_q(ctx, rng)[0])
    else:
        q = [[rng.choice(ctx.cats[qt]), pick(), e]]
        for _ in range(rng.choice([1, 1, 2])):
            q.append(simple_q(ctx, rng)[0])
        if rng.random() < 0.3:
            q.reverse()
    if len({c for c, _u, _e in q}) != len(q) or len({ctx.db.GetCategoryQuantityType(c) for c, _u, _e in q}) != len(q) - (1 if mixed and len(ctx.cats[qt]) > 1 else 0):
        return affine_q(ctx, rng, mixed)
    return q


def other_units(ctx, rng, q):
    """the same dict written with other units (offset units preferred where the quantity type has them)"""
    out = []
    for c, u, e in q:
        qt = ctx.db.GetCategoryQuantityType(c)
        cand = [v for v in ctx.units[qt] if v != u] or [u]
        aff = [v for v in cand if v in ctx.affine]
        out.append([c, rng.choice(aff) if aff and rng.random() < 0.6 else rng.choice(cand), e])
    return out


def is_normal(ctx, q):
    """the Lean predicate `Normal`: distinct categories, items of one quantity type carry one unit, no zero
    exponent, no unit whose exponents cancel, every unit a unit of its category's quantity type"""
    try:
        qts = [ctx.db.GetCategoryQuantityType(c) for c, _u, _e in q]
    except Exception:
        return False
    if len({c for c, _u, _e in q}) != len(q):
        return False
    unit_of, total = {}, {}
    for (c, u, e), qt in zip(q, qts):
        if int(e) == 0 or u not in ctx.units.get(qt, []) or unit_of.setdefault(qt, u) != u:
            return False
        total[u] = total.get(u, 0) + int(e)
    return all(t != 0 for t in total.values())


def mixed_units(db, q):
    """does the ordered dict hold two DIFFERENT units of one quantity type"""
    seen = {}
    try:
        for c, u, _e in q:
            qt = db.GetCategoryQuantityType(c)
            if seen.setdefault(qt, u) != u:
                return True
    except Exception:
        return False
    return False


def dimension(db, q):
    """quantity type -> total exponent (zero totals dropped); None when a category is unknown"""
    d = {}
    try:
        for c, _u, e in q:
            qt = db.GetCategoryQuantityType(c)
            d[qt] = d.get(qt, 0) + int(e)
    except Exception:
        return None
    return {qt: e for qt, e in d.items() if e != 0}


def unit_factor(db, q):
    """Independent of the model: what ONE unit of the (derived) quantity `q` is worth in base units, the product
    of slope(unit) ** exponent over its items (slope = increment of one unit in the base unit, from the table);
    a Fraction, or None when something is unknown or a slope is zero"""
    try:
        f = Fraction(1)
        for c, u, e in q:
            tb = db.GetInfo(db.GetCategoryQuantityType(c), u).tobase
            s_ = Fraction(tb(1.0)) - Fraction(tb(0.0))
            if s_ == 0:
                return None
            f *= s_ ** int(e)
        return f
    except Exception:
        return None


# ------------------------------------------------------------------------------------------ fresh interpreter
_FRESH = dict(spent=0.0, runs=0)
FRESH_BUDGET_S = 45.0


def in_child():
    import os

    return bool(os.environ.get("BARRIL_ORACLE_CHILD"))


def fresh_oracle(module_id, case):
    """`oracle(case)` of property module `module_id` evaluated in a NEW Python interpreter (no operation has run
    there before: interned quantities, caches and every other piece of process state are as after import).
    Returns ("ok", failure-or-None) or ("unavailable", why)."""
    import json
    import os
    import subprocess
    import sys
    import time

    if _FRESH["spent"] > FRESH_BUDGET_S:
        return "unavailable", "time budget of fresh-interpreter runs used up"
    here = os.path.dirname(os.path.abspath(__file__))
    code = ("import sys, json; sys.path.insert(0, %r); sys.path.insert(0, %r)\n"
            "import common; common.load_barril()\n"
            "import engine; prop = engine.load_prop(%r)\n"
            "ctx = engine.Ctx('quick', 0, None); prop.setup(ctx)\n"
            "case = json.loads(sys.stdin.read())\n"
            "sys.stdout.write('\\n@@RESULT@@' + json.dumps(prop.oracle(case, ctx), default=str))\n"
            % (os.path.dirname(here), here, module_id))
    env = dict(os.environ, BARRIL_ORACLE_CHILD="1")
    t0 = time.time()
    try:
        p = subprocess.run([sys.executable, "-c", code], input=json.dumps(case), capture_output=True, text=True,
                           timeout=120, env=env)
    except Exception as e:
        return "unavailable", repr(e)
    finally:
        _FRESH["spent"] += time.time() - t0
        _FRESH["runs"] += 1
    if p.returncode != 0 or "@@RESULT@@" not in p.stdout:
        return "unavailable", (p.stderr or p.stdout)[-300:]
    return "ok", json.loads(p.stdout.split("@@RESULT@@", 1)[1])


LO, HI = Fraction(1, 10 ** 250), Fraction(10 ** 250)


def in_range(v):
    """zero, or comfortably inside the float range"""
    v = abs(Fraction(v))
    return v == 0 or LO < v < HI


def exact_matching(ctx, q1, q2):
    """Independent of the model: the factor unit matching multiplies each operand's value with, from the table
    slopes (increment of one unit in the base unit): an item whose quantity type was seen before with another
    unit contributes (slope(unit) / slope(used unit)) ** exponent.  Returns ([f1, f2], shifted) or None;
    shifted = some SIMPLE operand (one item, exponent 1) takes the plain conversion and a unit with an offset is
    involved, so its value is shifted, not only scaled."""
    db = ctx.db

    def slope(qt, u):
        tb = db.GetInfo(qt, u).tobase
        return Fraction(tb(1.0)) - Fraction(tb(0.0))

    try:
        found, factors, shifted = {}, [Fraction(1), Fraction(1)], False
        for idx, q in enumerate((q1, q2)):
            derived = len(q) > 1
            for c, u, e in q:
                qt = db.GetCategoryQuantityType(c)
                used = found.get(qt)
                if used is None:
                    found[qt] = u
                elif used != u:
                    s_to = slope(qt, used)
                    if s_to == 0:
                        return None
                    r = slope(qt, u) / s_to
                    if r == 0 and int(e) < 0:
                        return None
                    factors[idx] *= r ** int(e)
                    if int(e) == 1 and not derived and (u in ctx.affine or used in ctx.affine):
                        shifted = True
        return factors, shifted
    except Exception:
        return None


def exact_result(ctx, f, q1, q2, x, y):
    """The exact result of `Scalar(x, q1) f Scalar(y, q2)` when it is well defined: a Fraction; otherwise a
    reason why nothing is demanded: 'shifted', 'zero divisor', 'out of range', 'unknown'."""
    m = exact_matching(ctx, q1, q2)
    if m is None:
        return "unknown"
    (f1, f2), shifted = m
    if shifted:
        return "shifted"
    a, b = Fraction(x) * f1, Fraction(y) * f2
    if not (in_range(f1) and in_range(f2) and f1 != 0 and f2 != 0 and in_range(a) and in_range(b)):
        return "out of range"
    if f in ("div", "floordiv"):
        if b == 0:
            return "zero divisor"
        z = a / b
        if f == "floordiv":
            z = Fraction(math.floor(z))
    else:
        z = a + b if f == "sum" else a - b if f == "sub" else a * b
    return z if in_range(z) else "out of range"


def buildable(spec):
    try:
        build(spec)
        return True
    except Exception:
        return False


def rand_value(rng, nonzero=False):
    r = rng.random()
    if r < 0.3:
        v = rng.choice([0.25, 0.5, 1.0, 1.5, 2.0, 3.0, 7.0, 10.0, 12.5, 100.0]) * rng.choice([1, 1, -1])
    elif r < 0.6:
        v = rng.uniform(-100, 100)
    elif r < 0.85:
        v = 10.0 ** rng.uniform(-6, 6) * rng.choice([1, -1])
    elif r < 0.95:
        v = float(rng.randint(-50, 50))
    else:
        v = 0.0
    if nonzero and v == 0.0:
        v = 1.0
    return v


def rand_values(rng, n, nonzero=False, ints=False):
    if ints:
        vs = [rng.randint(-20, 20) for _ in range(n)]
        return [v or 3 for v in vs] if nonzero else vs
    return [rand_value(rng, nonzero) for _ in range(n)]


def count(ctx, key):
    n = ctx.notes.setdefault("branches", {})
    n[key] = n.get(key, 0) + 1


def branch_key(c, io):
    t = c["_t"]
    if c["op"] not in ("binop", "rdiv"):
        return c["op"] + ("/" + io["err"] if "err" in io else "/ok")

    def sh(s):
        if s["t"] == "array0":
            return "A<number>"
        if s["t"] == "array":
            return "A" + s["kind"] + ("0" if not s["xs"] else "")
        if s["t"] == "num":
            return "k" + ("np" if s["ty"] in NP_TYPES else "py")
        return {"scalar": "S", "nd": "ND", "junk": "J"}[s["t"]]

    return "%s %s %s -> %s" % (sh(t["a"]), "__rdiv__" if c["op"] == "rdiv" else t["f"], sh(t["b"]),
                               io["err"] if "err" in io else io["ok"]["t"])
