"""C12 - limit validation depends only on the physical amount.

Decided by Barril/Props/C12.lean over the model Barril/Model/Valid.lean (Quantity.CheckValue, Scalar /
FractionScalar / Array validation with the NaN-skipping min/max scan, tuple branch and cached verdict,
IsValid, UnitDatabase.AddCategory).  Tie: histories over a PRIVATE category-less POSC database: AddCategory
calls (all argument kinds, malformed ones included) followed by value objects that are checked through
CheckValidity / IsValid call sequences; executed on the real code and on the model (`drv_valid`), compared
step by step (verdict, operator, limit, reported amount, category info, error kinds).  Objects that come OUT OF AN
OPERATION (arithmetic, mapping/list forms of ObtainQuantity, pickle, CreateCopy, CreateWithQuantity) are described by
production trees (`prov` operations): built on the real code, predicted by `Barril.Valid.build`, judged by the oracle
as objects of THEIR category holding THEIR amounts.  `gdv` / `cvc` / `val` operations: GetDefaultValue,
CheckValueForCategory, ScalarMinMaxValidator."""
import math

from common import close, err_kind, exact, qparse, qstr, sym, unsym, EPS, K
from fractions import Fraction

ID = "C12"
LEAN_MODULES = ["Barril.Props.C12"]
DRIVERS = ["drv_valid"]
DRIVER_EXE = "drv_valid"
RULE = ("histories over a fresh private database (POSC units, no categories): one AddCategory per limit "
        "configuration {none,min,max,both} x {incl,excl}^2 on seeded quantity types (affine ones included) and "
        "default units, then Scalar / FractionScalar / Array(list, tuple, ndarray, list of tuples) objects in "
        "seeded units of the type with values {limit converted to the unit, its float neighbours, interior, "
        "outside, 0, NaN, +-inf}, NaN-padded and permuted arrays, CheckValidity/IsValid call sequences (cached "
        "verdict); a registration stream with malformed arguments (unknown type/unit, legacy spellings, crossed "
        "limits, exclusive limit without default, default outside, from_category, override) each followed by "
        "Scalar(category); PRODUCED objects of a limited category: production trees (depth <= 3, plus a fixed history) "
        "over direct construction, ObtainQuantity({cat: [unit, exp]}) / ObtainQuantity([(unit, exp)], cats) with "
        "CreateWithQuantity or the constructor, Array/FixedArray/Scalar <op> number on either side (+ - * /, NaN/inf "
        "included), sums/differences with an object in another unit or of another category of the quantity type (or "
        "of another type: refused), pickle round trips (Scalar, FixedArray), CreateCopy, validity calls on "
        "intermediates; the operands start inside the limits and about half of the results are pushed over one; "
        "AddCategory with explicit None for is_min_exclusive / is_max_exclusive / caption (with and without "
        "from_category), GetDefaultValue, CheckValueForCategory (with / without unit) and ScalarMinMaxValidator at "
        "the exact limits, inside and outside; distinct = distinct history line; non-trivial = a limited category is "
        "checked in a non-default unit or a registration is decided")
EXHAUSTIVE = {"quick": False, "thorough": False}
ASSUMPTIONS = [
    "limits of a category are finite numbers; finite values stay below 1e150 (no float overflow is modelled)",
    "float conversions stay within K*eps*M (K=64) of the exact model; a verdict decided inside that margin of a "
    "limit is a don't-care unless the float conversion is exact",
    "every non-base unit is made by MakeCustomaryToBase/MakeBaseToCustomary ((a + b*x)/c when d == 0, else "
    "(a + b*x)/(c + d*x)): generated table theorem `valshape` over all rows; numpy scalars are converted by float() "
    "before CheckValue",
    "the caption's title-casing in AddCategory is not modelled; aliasing of a mutable list handed to Array is C13's",
    "produced objects: operations on an object whose quantity is already derived, numpy's answer to a zero divisor, "
    "FloorDivide, Array <op> numpy array, arithmetic on lists of tuples, CreateCopy of a FractionScalar and mappings "
    "with a repeated category are not modelled (kept out of the generators); a plain Array cannot be pickled with a private "
    "database (its _unit_database holds local functions), so pickle round trips are Scalars and FixedArrays",
    "ScalarMinMaxValidator reports through a message only: operator and limit are read off the text after 'Must be' "
    "(comparison in words, then repr of the limit) and compared when they can be read; the 6-digit amount is not",
]
QTYPES_QUICK = ["length", "temperature", "time", "pressure"]
CONTAINERS = ("list", "tuple", "ndarray")


# ------------------------------------------------------------------------------------------ encoding
def V(x):
    """a Python number as the model's value"""
    if isinstance(x, bool):
        raise ValueError("bool")
    if isinstance(x, int):
        return qstr(exact(x))
    x = float(x)
    if x != x:
        return "nan"
    if x == math.inf:
        return "inf"
    if x == -math.inf:
        return "-inf"
    return qstr(exact(x))


def T(x):
    """python-side payload form of a number (JSON-able, exact)"""
    if isinstance(x, int) and not isinstance(x, bool):
        return x
    x = float(x)
    if x != x:
        return "nan"
    if x in (math.inf, -math.inf):
        return "inf" if x > 0 else "-inf"
    return x.hex()


def U(t):
    if isinstance(t, int):
        return t
    if t in ("nan", "inf", "-inf"):
        return float(t)
    return float.fromhex(t)


def S(s):
    return None if s is None else str(sym(s))


def _new_db():
    from barril.units.unit_database import UnitDatabase

    db = UnitDatabase()
    UnitDatabase.FillUnitDatabaseWithPosc(db, fill_categories=False)
    return db


def setup(ctx):
    from barril.units.unit_database import _LEGACY_TO_CURRENT

    db = _new_db()
    ctx.units = {qt: [i.unit for i in infos] for qt, infos in db.quantity_types.items()}
    ctx.types = sorted(ctx.units)
    ctx.probe_db = db
    leg = {}
    for qt, us in ctx.units.items():
        for u in us:
            for old, new in _LEGACY_TO_CURRENT:
                if new in u:
                    s = u.replace(new, old)
                    if s not in db.unit_to_unit_info and s != u:
                        leg.setdefault(qt, []).append(s)
    ctx.legacy = {k: sorted(set(v)) for k, v in leg.items()}
    # the category a category-less construction lands in: the unit's default_category, else its quantity type
    ctx.defcat = {qt: {i.unit: (i.default_category or qt) for i in infos} for qt, infos in db.quantity_types.items()}
    # unit symbols registered under several quantity types (the symbol index names another type)
    ctx.multi = {qt: [u for u in us if db.unit_to_unit_info[u].quantity_type != qt] for qt, us in ctx.units.items()}
    ctx.multi_types = sorted(qt for qt, us in ctx.multi.items() if us)


# ------------------------------------------------------------------------------------------ operations
def add_op(category, qtype=None, valid=None, override=False, du=None, dv=None, mn=None, mx=None, minx=False,
           maxx=False, frm=None, caption=""):
    """minx / maxx / caption may be None: an explicit `None` argument"""
    return dict(k="add", category=category, qtype=qtype, valid=valid, override=override, du=du,
                dv=None if dv is None else T(dv), min=None if mn is None else T(mn), max=None if mx is None else T(mx),
                minx=minx, maxx=maxx, frm=frm, caption=caption)


def gdv_op(cat):
    """UnitDatabase.GetDefaultValue(cat)"""
    return dict(k="gdv", cat=cat)


def cvc_op(cat, v, unit):
    """UnitDatabase.CheckValueForCategory(cat, v, unit)   (unit may be None)"""
    return dict(k="cvc", cat=cat, v=T(v), unit=unit)


def val_op(cat, unit, v):
    """ScalarMinMaxValidator on Scalar(cat, v, unit)"""
    return dict(k="val", cat=cat, unit=unit, v=T(v))


def obj_op(cat, unit, obj, calls, default=False, fixed=False):
    """cat=None: the category-less construction forms (`Scalar(v, unit)`, `Array(values, unit)`, ...)"""
    return dict(k="obj", cat=cat, unit=unit, obj=obj, calls=list(calls), default=default, fixed=fixed)


def copy_op(cat, unit, obj, calls, cunit, ccat, ccalls, fixed=False):
    """Array(cat, values, unit); <calls>; copy = CreateCopy(unit=cunit, category=ccat); <ccalls on the copy>"""
    return dict(k="copy", cat=cat, unit=unit, obj=obj, calls=list(calls), cunit=cunit, ccat=ccat,
                ccalls=list(ccalls), fixed=fixed)


def prov_op(tree, calls):
    """an object that comes out of the production tree (see `_build_prov`), then the calls on it"""
    return dict(k="prov", tree=tree, calls=list(calls))


def p_direct(cat, unit, obj, fixed=False):
    return dict(p="direct", cat=cat, unit=unit, obj=obj, fixed=fixed)


def p_map(entries, obj, fixed=False, plain=False, form="cwq"):
    """X.CreateWithQuantity(ObtainQuantity({cat: [unit, exp], ...}), values)   (form "ctor": X(quantity, values))"""
    return dict(p="map", entries=[list(e) for e in entries], obj=obj, fixed=fixed, plain=plain, form=form)


def p_list(units, cats, obj, fixed=False, form="cwq"):
    """the same with ObtainQuantity([(unit, exp), ...], cats): cats None, a str or a list of str"""
    return dict(p="list", units=[list(u) for u in units], cats=cats, obj=obj, fixed=fixed, form=form)


def p_num(of, op, x, left=False):
    return dict(p="num", of=of, op=op, x=T(x), left=left)


def p_bin(a, b, op):
    return dict(p="bin", a=a, b=b, op=op)


def p_pickle(of):
    return dict(p="pickle", of=of)


def p_validated(of, calls):
    """CheckValidity / IsValid on the intermediate object (answers dropped), then it is used further"""
    return dict(p="validated", of=of, calls=list(calls))


def p_copy(of, unit, cat):
    return dict(p="copy", of=of, unit=unit, cat=cat)


def o_scalar(v):
    return dict(t="scalar", v=T(v))


def o_fraction(number, n, d):
    return dict(t="fraction", number=T(number), n=n, d=d)


def o_flat(kind, vs, derived=False):
    return dict(t="dflat" if derived else "flat", c=kind, vs=[T(v) for v in vs])


def o_nested(kind, first, rest):
    return dict(t="nested", c=kind, first=[T(v) for v in first],
                rest=[dict(n=T(r)) if not isinstance(r, (list, tuple)) else dict(t=[T(v) for v in r]) for r in rest])


def _fraction_float(o):
    from barril.basic.fraction import FractionValue

    return float(FractionValue(number=U(o["number"]), fraction=(o["n"], o["d"])))


def _enc_obj(o):
    t = o["t"]
    if t in ("scalar", "dscalar"):
        return dict(t=t, v=V(U(o["v"])))
    if t == "fraction":
        return dict(t=t, v=V(_fraction_float(o)))
    if t in ("flat", "dflat"):
        return dict(t=t, c=o["c"], vs=[V(U(v)) for v in o["vs"]])
    if t == "nested":
        return dict(t=t, c=o["c"], first=[V(U(v)) for v in o["first"]],
                    rest=[dict(n=V(U(r["n"]))) if "n" in r else dict(t=[V(U(v)) for v in r["t"]]) for r in o["rest"]])
    raise ValueError(t)


def _enc_tree(n):
    p = n["p"]
    if p == "direct":
        return dict(p=p, cat=S(n["cat"]), unit=S(n["unit"]), obj=_enc_obj(n["obj"]))
    if p == "map":
        return dict(p=p, entries=[[S(c), S(u), int(e)] for c, u, e in n["entries"]], obj=_enc_obj(n["obj"]))
    if p == "list":
        cats = n["cats"]
        return dict(p=p, units=[[S(u), int(e)] for u, e in n["units"]],
                    cats=None if cats is None else S(cats) if isinstance(cats, str) else [S(c) for c in cats],
                    obj=_enc_obj(n["obj"]))
    if p == "num":
        return dict(p=p, of=_enc_tree(n["of"]), op=n["op"], x=V(U(n["x"])), left=n["left"])
    if p == "bin":
        return dict(p=p, a=_enc_tree(n["a"]), b=_enc_tree(n["b"]), op=n["op"])
    if p == "pickle":
        return dict(p=p, of=_enc_tree(n["of"]))
    if p == "copy":
        return dict(p=p, of=_enc_tree(n["of"]), unit=S(n["unit"]), cat=S(n["cat"]))
    if p == "validated":
        return dict(p=p, of=_enc_tree(n["of"]), calls=n["calls"])
    raise ValueError(p)


def _enc(op):
    if op["k"] == "prov":
        return {"k": "prov", "tree": _enc_tree(op["tree"]), "calls": op["calls"]}
    if op["k"] == "gdv":
        return {"k": "gdv", "cat": S(op["cat"])}
    if op["k"] == "cvc":
        return {"k": "cvc", "cat": S(op["cat"]), "v": V(U(op["v"])), "unit": S(op["unit"])}
    if op["k"] == "val":
        return {"k": "val", "cat": S(op["cat"]), "unit": S(op["unit"]), "v": V(U(op["v"]))}
    if op["k"] == "add":
        extra = {} if op.get("caption", "") == "" else {"caption": S(op["caption"])}
        return {**extra, "k": "add", "category": S(op["category"]), "qtype": S(op["qtype"]),
                "valid": None if op["valid"] is None else [S(u) for u in op["valid"]],
                "override": op["override"], "du": S(op["du"]),
                "dv": None if op["dv"] is None else V(U(op["dv"])),
                "min": None if op["min"] is None else qstr(exact(U(op["min"]))),
                "max": None if op["max"] is None else qstr(exact(U(op["max"]))),
                "minx": op["minx"], "maxx": op["maxx"], "from": S(op["frm"])}
    if op["k"] == "copy":
        return {"k": "copy", "cat": S(op["cat"]), "unit": S(op["unit"]), "obj": _enc_obj(op["obj"]),
                "calls": op["calls"], "cunit": S(op["cunit"]), "ccat": S(op["ccat"]), "ccalls": op["ccalls"]}
    return {"k": "obj", "cat": S(op["cat"]), "unit": S(op["unit"]), "default": op["default"],  # cat null = category-less
            "obj": _enc_obj(op["obj"]), "calls": op["calls"]}


def history(ops):
    return dict(op="history", ops=[_enc(o) for o in ops], _t=dict(ops=ops))


# ------------------------------------------------------------------------------------------ generators
CONFIGS = [(hm, hM, xm, xM) for hm in (False, True) for hM in (False, True) for xm in (False, True) for xM in (False, True)]


def _limits(rng, qt, du):
    if qt == "temperature":
        lo = rng.choice([-273.15, 0.0, -40.0, 32.0])
    else:
        lo = rng.choice([0.0, 0.0, -10.5, 1e-3, 2.0, 1000.0])
    hi = lo + rng.choice([1.0, 100.0, 2000.0, 0.125, 1e4])
    if rng.random() < 0.08:
        hi = lo  # degenerate interval
    return lo, hi


def _conv(ctx, qt, a, b, x):
    try:
        return float(ctx.probe_db.Convert(qt, a, b, x))
    except Exception:
        return x


def _values(ctx, rng, qt, du, u, lo, hi, n):
    pool = []
    for L in (lo, hi):
        z = _conv(ctx, qt, du, u, L)
        if math.isfinite(z):
            pool += [z, math.nextafter(z, math.inf), math.nextafter(z, -math.inf),
                     z + max(abs(z), 1e-9) * 1e-6, z - max(abs(z), 1e-9) * 1e-6]
    mid = _conv(ctx, qt, du, u, (lo + hi) / 2)
    span = abs(_conv(ctx, qt, du, u, hi) - _conv(ctx, qt, du, u, lo)) or 1.0
    pool += [mid, mid + span * rng.uniform(-2, 2), mid - 3 * span, mid + 3 * span, 0.0, 1.0, -1.0,
             rng.choice([3, -7, 1000, 0]), 10.0 ** rng.uniform(-6, 9) * rng.choice((1, -1))]
    pool += [math.nan, math.inf, -math.inf]
    pool = [p for p in pool if not (isinstance(p, float) and math.isfinite(p) and abs(p) > 1e150)]
    rng.shuffle(pool)
    return pool[:n]


def _pick_units(ctx, rng, qt, du, k):
    us = ctx.units[qt]
    out = [du, us[0]] + rng.sample(us, min(k, len(us)))
    seen = []
    for u in out:
        if u not in seen:
            seen.append(u)
    return seen[:k + 1]


def _call_seq(rng):
    return rng.choice([["c"], ["i"], ["c", "i"], ["i", "c", "c"], ["c", "c", "i", "i"], ["i", "i", "c"]])


def _objects(ctx, rng, cat, qt, du, u, lo, hi, rich):
    """object operations for one unit"""
    ops = []
    vals = _values(ctx, rng, qt, du, u, lo, hi, 9 if rich else 5)
    for v in vals[: (6 if rich else 3)]:
        ops.append(obj_op(cat, u, o_scalar(v), _call_seq(rng)))
    fin = [v for v in vals if isinstance(v, int) or math.isfinite(v)]
    if fin:
        v = fin[0]
        if isinstance(v, float) and rng.random() < 0.7:
            ops.append(obj_op(cat, u, o_fraction(float(math.floor(v)), rng.randint(0, 7), 8), _call_seq(rng)))
        else:
            ops.append(obj_op(cat, u, o_fraction(math.nan if rng.random() < 0.5 else float(v), 1, 2), ["c", "i"]))
    # flat arrays: same multiset in several containers and orders
    for _ in range(2 if rich else 1):
        n = rng.choice([0, 1, 2, 3, 5, 8])
        base = [rng.choice(vals) for _ in range(n)]
        if rng.random() < 0.5:
            base = [b for b in base if not (isinstance(b, float) and math.isinf(b))]
        if rng.random() < 0.3:
            base = [math.nan] * rng.randint(1, 3) + base
        calls = _call_seq(rng)
        for kind in rng.sample(CONTAINERS, 2 if not rich else 3):
            vs = list(base)
            rng.shuffle(vs)
            if kind == "ndarray":
                vs = [float(x) for x in vs]
            ops.append(obj_op(cat, u, o_flat(kind, vs), calls))
    # nested
    if rng.random() < (0.9 if rich else 0.5):
        first = [rng.choice(vals) for _ in range(rng.randint(0, 3))]
        rest = []
        for _ in range(rng.randint(0, 3)):
            if rng.random() < 0.25:
                rest.append(rng.choice(vals))
            else:
                rest.append([rng.choice(vals) for _ in range(rng.randint(0, 3))])
        ops.append(obj_op(cat, u, o_nested(rng.choice(["list", "tuple"]), first, rest), _call_seq(rng)))
    return ops


def _config_histories(ctx, salt, qtypes, units_per, rich):
    rng = ctx.fresh_rng("C12cfg" + salt)
    for qt in qtypes:
        for (hm, hM, xm, xM) in CONFIGS:
            du = rng.choice(ctx.units[qt][:12]) if rng.random() < 0.6 else ctx.units[qt][0]
            lo, hi = _limits(rng, qt, du)
            cat = rng.choice(["c12 cat", qt, "depth of " + qt])
            mid = (lo + hi) / 2 if hi > lo else lo
            if (xm and hm) or (xM and hM):
                dv = mid
                if hi == lo and hm and hM:
                    dv = lo  # will be refused by the assertion: a registration the code rejects
            elif xm or xM:
                dv = mid  # exclusive flag without its limit still demands a default
            else:
                dv = rng.choice([None, mid, lo if hm else None, hi if hM else None])
            ops = [add_op(cat, qt, du=du, dv=dv, mn=lo if hm else None, mx=hi if hM else None, minx=xm, maxx=xM)]
            ops.append(obj_op(cat, None, o_scalar(0.0), ["c", "i"], default=True))
            for u in _pick_units(ctx, rng, qt, du, units_per):
                ops += _objects(ctx, rng, cat, qt, du, u, lo, hi, rich)
            # exact boundary in a non-default unit whose float conversion is exact (integers times a power of ten)
            if qt == "length":
                for (u, x) in (("km", 2.0), ("m", 2000.0), ("cm", 200000.0)):
                    ops.append(obj_op(cat, u, o_scalar(x), ["c", "i"]))
            yield history(ops)
    # the exact-boundary history: limits at 2000 m, values written in km / cm / mm
    for (xm, xM) in ((False, False), (True, True), (True, False), (False, True)):
        ops = [add_op("depth", "length", du="m", dv=1000.0, mn=1000.0, mx=2000.0, minx=xm, maxx=xM)]
        for u, lo_u, hi_u in (("km", 1.0, 2.0), ("m", 1000.0, 2000.0), ("mm", 1e6, 2e6), ("cm", 1e5, 2e5)):
            for x in (lo_u, hi_u, math.nextafter(lo_u, 0), math.nextafter(hi_u, math.inf), (lo_u + hi_u) / 2):
                ops.append(obj_op("depth", u, o_scalar(x), ["c", "i"]))
            ops.append(obj_op("depth", u, o_flat("list", [hi_u, math.nan, lo_u]), ["c", "i", "c"]))
            ops.append(obj_op("depth", u, o_flat("ndarray", [lo_u, hi_u, (lo_u + hi_u) / 2]), ["i", "c"]))
        yield history(ops)


def _registration_histories(ctx, salt, n):
    rng = ctx.fresh_rng("C12reg" + salt)
    names = ["alpha", "beta", "my cat", "", "length"]
    for _ in range(n):
        qt0 = rng.choice(QTYPES_QUICK)
        ops = [add_op("base", qt0, du=rng.choice(ctx.units[qt0][:6]), dv=50.0, mn=0.0, mx=100.0,
                      minx=rng.random() < 0.3, valid=rng.choice([None, ctx.units[qt0][:3]]))]
        known = ["base"]
        for _ in range(rng.randint(2, 7)):
            qt = rng.choice(QTYPES_QUICK + [rng.choice(ctx.types)])
            us = ctx.units[qt]
            r = rng.random()
            cat = rng.choice(names + [qt])  # a category named like its own quantity type is the POSC convention
            kw = {}
            kw["qtype"] = qt if r > 0.08 else rng.choice([None, "no such type", ""])
            if rng.random() < 0.35:
                pool = list(us) + ["nope"] * (1 if rng.random() < 0.2 else 0) + ctx.legacy.get(qt, [])[:2]
                kw["valid"] = [rng.choice(pool) for _ in range(rng.randint(0, 3))]
            if rng.random() < 0.5:
                kw["du"] = rng.choice(us + ["nope", rng.choice(ctx.units[rng.choice(ctx.types)])] + ctx.legacy.get(qt, [])[:1])
            lo = rng.choice([None, 0.0, -5.0, 10.0])
            hi = rng.choice([None, 0.0, 10.0, 100.0, -20.0])
            kw["mn"], kw["mx"] = lo, hi
            kw["minx"], kw["maxx"] = rng.random() < 0.25, rng.random() < 0.25
            if rng.random() < 0.6:
                kw["dv"] = rng.choice([0.0, 10.0, 5.0, -5.0, 100.0, 50.0, math.nan, math.inf, -math.inf, 7])
            kw["override"] = rng.random() < 0.3
            if known and rng.random() < 0.3:
                kw["frm"] = rng.choice(known + known + ["missing", ""])
                if rng.random() < 0.8:
                    kw["qtype"] = None
                if rng.random() < 0.6:  # a plain copy with at most one overridden argument
                    keep = rng.choice(["mn", "mx", "dv", "du", "valid", "none"])
                    kw = {k: v for k, v in kw.items() if k in ("frm", "qtype", "override", keep)}
            ops.append(add_op(cat, **kw))
            known.append(cat)
            ops.append(obj_op(cat, None, o_scalar(0.0), ["c", "i"], default=True))
            if rng.random() < 0.5:
                u = rng.choice(us + ctx.legacy.get(qt, [])[:1] + ["nope", rng.choice(ctx.units[rng.choice(ctx.types)])])
                ops.append(obj_op(cat, u, o_scalar(rng.choice([0.0, 5.0, 10.0, -1.0, 1e3, math.nan])), ["i", "c"]))
            if rng.random() < 0.2:
                ops.append(obj_op(rng.choice(["missing", cat]), rng.choice(us),
                                  o_flat("list", [1.0, -2.0, math.nan], derived=rng.random() < 0.5), ["i", "c"]))
            if rng.random() < 0.2:
                ops.append(obj_op(cat, rng.choice(us), dict(t="dscalar", v=T(rng.choice([-5.0, math.nan, 3.0]))), ["i", "c"]))
        yield history(ops)


def _shadow_histories(ctx, salt, n):
    """a category named like a quantity type but registered for another one: `GetInfo` resolves the name as a
    category first, so the conversion to the default unit raises a units error that IsValid lets through"""
    rng = ctx.fresh_rng("C12shadow" + salt)
    for i in range(n):
        a, b = rng.sample(QTYPES_QUICK, 2)
        du = ctx.units[a][0]
        if i % 2 == 0 and ctx.multi_types:
            a = rng.choice(ctx.multi_types)
            du = rng.choice(ctx.multi[a])
        ops = [add_op(a, b, mn=0.0, dv=1.0), add_op("beta", a, du=du, mn=-5.0, mx=rng.choice([None, 50.0]))]
        for u in rng.sample(ctx.units[a], 3) + [ctx.units[a][0]]:
            ops.append(obj_op("beta", u, o_scalar(rng.choice([1.0, -7.0, math.nan])), ["i", "c", "i"]))
            ops.append(obj_op("beta", u, o_flat(rng.choice(CONTAINERS), [1.0, 2.0, -9.0]), ["c", "i", "c"]))
        ops.append(obj_op(a, rng.choice(ctx.units[b]), o_scalar(-3.0), ["i", "c"]))
        yield history(ops)


def _copy_histories(ctx, salt, n):
    """validate (or not), CreateCopy into another category / unit of the same quantity type, validate the copy"""
    rng = ctx.fresh_rng("C12copy" + salt)
    for i in range(n):
        qt = rng.choice(QTYPES_QUICK)
        us = ctx.units[qt]
        du = rng.choice(us[:8])
        lo, hi = _limits(rng, qt, du)
        if hi <= lo:
            hi = lo + 10.0
        span = hi - lo
        ops = [add_op("wide", qt, du=du, dv=lo, mn=lo - 50 * span, mx=hi + 50 * span),
               add_op("narrow", qt, du=rng.choice([du, rng.choice(us[:8])]), dv=(lo + hi) / 2, mn=lo, mx=hi,
                      minx=rng.random() < 0.3, maxx=rng.random() < 0.3),
               add_op("free", qt, du=du),
               add_op("other type", rng.choice([t for t in QTYPES_QUICK if t != qt]), mn=0.0)]
        cats = ["wide", "narrow", "free"]
        for _ in range(rng.randint(4, 8)):
            a_cat = rng.choice(cats)
            u = rng.choice([du] + rng.sample(us, 2))
            inside = [_conv(ctx, qt, du, u, lo + span * rng.uniform(0.1, 0.9)) for _ in range(rng.randint(2, 4))]
            outside = _conv(ctx, qt, du, u, rng.choice([lo - span * rng.uniform(2, 20), hi + span * rng.uniform(2, 20)]))
            far = _conv(ctx, qt, du, u, hi + 500 * span)
            vs = list(inside)
            r = rng.random()
            if r < 0.5:
                vs.append(outside)      # valid in `wide`, invalid in `narrow`
            elif r < 0.6:
                vs.append(far)          # invalid in both limited categories
            if rng.random() < 0.3:
                vs.append(rng.choice([math.nan, math.inf, -math.inf]))
            rng.shuffle(vs)
            vs = [float(v) for v in vs]
            calls = rng.choice([[], [], ["i"], ["c"], ["i", "c"], ["c", "c", "i"]])
            ccalls = rng.choice([["i", "c"], ["c", "i"], ["i"], ["c", "c"]])
            r = rng.random()
            if r < 0.7:
                ccat = rng.choice([c for c in cats if c != a_cat])
                cunit = rng.choice([u] + rng.sample(us, 2))
            elif r < 0.8:
                ccat, cunit = None, rng.choice([u] + rng.sample(us, 2))
            elif r < 0.86:
                ccat, cunit = None, None
            elif r < 0.9:
                ccat, cunit = rng.choice(cats), None       # category without unit: TypeError
            elif r < 0.95:
                ccat, cunit = rng.choice(cats), rng.choice(["nope", rng.choice(ctx.units[rng.choice(ctx.types)])])
            else:
                ccat, cunit = rng.choice(["other type", "missing"]), rng.choice(us)
            shape = rng.random()
            if shape < 0.7:
                kind = rng.choice(CONTAINERS)
                fixed = len(vs) >= 2 and rng.random() < 0.3
                ops.append(copy_op(a_cat, u, o_flat(kind, vs), calls, cunit, ccat, ccalls, fixed=fixed))
            else:
                k = max(1, len(vs) // 2)
                rest = [vs[k:]] + ([rng.choice(vs)] if rng.random() < 0.15 else [])
                ops.append(copy_op(a_cat, u, o_nested(rng.choice(["list", "tuple"]), vs[:k], rest), calls, cunit, ccat, ccalls))
        yield history(ops)


def _from_histories(ctx, salt, n):
    """from_category with an overriding argument that is falsy in Python (0, 0.0, []), then objects just inside and
    outside the requested limit"""
    rng = ctx.fresh_rng("C12from" + salt)
    for i in range(n):
        qt = rng.choice(QTYPES_QUICK)
        us = ctx.units[qt]
        du = rng.choice(us[:6])
        plo, phi = rng.choice([(-10.0, 10.0), (-100.0, 50.0), (-5.0, None), (None, 7.5), (-10, 10)])
        pdv = 0.0 if (plo is None or plo <= 0) and (phi is None or phi >= 0) else (plo if plo is not None else phi)
        ops = [add_op("parent", qt, du=du, dv=pdv, mn=plo, mx=phi, valid=rng.choice([None, us[:4] + [du]]))]
        zero = rng.choice([0, 0.0, -0.0])
        side = rng.choice(["min", "max", "both", "valid", "dv"])
        kw = dict(frm="parent")
        if side in ("min", "both"):
            kw["mn"] = zero
        if side in ("max", "both"):
            kw["mx"] = zero
        if side == "valid":
            kw["valid"] = []
            kw["mn"] = rng.choice([None, zero])
        if side == "dv":
            kw["mn"] = zero
            kw["dv"] = rng.choice([-5.0, -1e-9, 5.0]) if plo is None or plo < 0 else 0.0
        if rng.random() < 0.3 and "dv" not in kw:
            kw["dv"] = rng.choice([0.0, 0])
        if rng.random() < 0.2:
            kw["du"] = rng.choice(us[:6])
        ops.append(add_op("child", **kw))
        ops.append(obj_op("child", None, o_scalar(0.0), ["c", "i"], default=True))
        cdu = kw.get("du") or du
        for u in [cdu] + rng.sample(us, 2):
            for y in (-5.0, 5.0, 0.0, -1e-3, 1e-3, rng.uniform(-9, 9)):
                x = y if u == cdu else _conv(ctx, qt, cdu, u, y)
                ops.append(obj_op("child", u, o_scalar(x), rng.choice([["i"], ["c"], ["i", "c"]])))
            xs = [(-5.0 if u == cdu else _conv(ctx, qt, cdu, u, -5.0)), (5.0 if u == cdu else _conv(ctx, qt, cdu, u, 5.0))]
            ops.append(obj_op("child", u, o_flat(rng.choice(CONTAINERS), xs + [math.nan]), ["c", "i"]))
            ops.append(obj_op("parent", u, o_scalar(xs[0]), ["i", "c"]))
        yield history(ops)


def _reregister_histories(ctx, salt, n):
    """objects built with and without naming the category, around re-registrations (override=True) of the
    default category of their unit with other limits"""
    rng = ctx.fresh_rng("C12rereg" + salt)
    for i in range(n):
        qt = rng.choice(QTYPES_QUICK)
        us = ctx.units[qt]
        dc = rng.choice([qt, qt, ctx.defcat[qt][rng.choice(us)]])     # e.g. 'delta temperature' for 'ddegC'
        mine = [u for u in us if ctx.defcat[qt][u] == dc]
        du = rng.choice(mine[:6])
        steps = rng.choice([
            [(0.0, 100.0), (0.0, 10.0)],                 # tighter
            [(0.0, 10.0), (0.0, 100.0)],                 # wider
            [(None, None), (0.0, 10.0)],                 # none -> some
            [(0.0, 10.0), (None, None)],                 # some -> none
            [(-20.0, 100.0), (None, 10.0), (5.0, None)],
            [(0.0, 100.0), (20.0, 200.0), (0.0, 10.0)],
        ])
        ops = []
        if rng.random() < 0.3:
            ops.append(obj_op(None, rng.choice(mine), o_scalar(1.0), ["i"]))     # no default category registered yet
        for j, (lo, hi) in enumerate(steps):
            dv = None
            ops.append(add_op(dc, qt, du=du, dv=dv, mn=lo, mx=hi, override=(j > 0) or rng.random() < 0.3,
                              minx=rng.random() < 0.2 and lo is not None and False))
            for u in [du] + rng.sample(mine, min(2, len(mine))):
                ys = [1.0, 50.0, 150.0, -5.0, 7.0, 15.0]
                rng.shuffle(ys)
                for y in ys[:3]:
                    x = y if u == du else _conv(ctx, qt, du, u, y)
                    for named in (False, True):
                        ops.append(obj_op(dc if named else None, u, o_scalar(x), rng.choice([["i"], ["c"], ["i", "c"]])))
                arr = [y if u == du else _conv(ctx, qt, du, u, y) for y in (1.0, 50.0)]
                kind = rng.choice(CONTAINERS)
                fixed = rng.random() < 0.4
                for named in (False, True):
                    ops.append(obj_op(dc if named else None, u, o_flat(kind, arr), ["i", "c"], fixed=fixed))
                y = rng.choice([1.0, 50.0, 8.0])
                x = y if u == du else _conv(ctx, qt, du, u, y)
                if math.isfinite(x):
                    for named in (False, True):
                        ops.append(obj_op(dc if named else None, u, o_fraction(float(math.floor(x)), rng.randint(0, 3), 4), ["c", "i"]))
            if rng.random() < 0.3:
                ops.append(obj_op(None, rng.choice(ctx.legacy.get(qt, []) + ["nope", rng.choice(us)]), o_scalar(2.0), ["i"]))
        yield history(ops)


def _prov_fixed_history():
    """a limited length category (0..15 m) and objects that leave or stay inside the limits through an operation"""
    cat = "c12 produced length"
    ops = [add_op(cat, "length", du="m", dv=1.0, mn=0.0, mx=15.0),
           add_op("c12 produced cm", "length", du="cm", dv=1.0, mn=0.0, mx=1000.0),
           add_op("length", "length", du="m")]
    ci = ["c", "i"]
    for kind in CONTAINERS:
        base = p_direct(cat, "m", o_flat(kind, [1.0, 2.0]))
        for tree in (p_num(base, "mul", 10), p_num(base, "mul", 5), p_num(base, "mul", 10, left=True),
                     p_num(base, "add", 14), p_num(base, "add", 13), p_num(base, "sub", 1.5),
                     p_num(base, "sub", 16.5, left=True), p_num(p_num(base, "mul", 4), "div", 0.5),
                     p_num(base, "div", 4, left=True), p_num(base, "mul", math.nan), p_num(base, "add", math.inf)):
            ops.append(prov_op(tree, ci))
    ops.append(prov_op(p_num(p_direct(cat, "cm", o_flat("list", [100.0, 200.0])), "mul", 10), ["i", "c"]))
    ops.append(prov_op(p_num(p_direct(cat, "m", o_flat("list", [1.0, 2.0, 3.0]), fixed=True), "mul", 6), ci))
    ops.append(prov_op(p_bin(p_direct(cat, "m", o_flat("list", [10.0, 5.0])),
                             p_direct(cat, "cm", o_flat("list", [600.0, 100.0])), "add"), ci))
    ops.append(prov_op(p_bin(p_direct("c12 produced cm", "cm", o_flat("tuple", [600.0, 100.0])),
                             p_direct(cat, "m", o_flat("tuple", [10.0, 5.0])), "add"), ci))
    for (a, ua, b, ub, o, cb) in ((10.0, "m", 900.0, "cm", "add", cat), (10.0, "m", 400.0, "cm", "add", cat),
                                  (1.0, "m", 0.002, "km", "sub", cat), (10.0, "m", 9.0, "m", "add", "length"),
                                  (10.0, "m", 9.0, "m", "add", cat), (9.0, "m", 10.0, "m", "add", "length")):
        ops.append(prov_op(p_bin(p_direct(cat, ua, o_scalar(a)), p_direct(cb, ub, o_scalar(b)), o), ci))
    for x in (2000.0, 1000.0):
        for form in ("ctor", "cwq"):
            ops.append(prov_op(p_map([(cat, "cm", 1)], o_scalar(x), form=form), ci))
            ops.append(prov_op(p_map([(cat, "cm", 1)], o_flat("list", [x, 1.0]), form=form, plain=True), ci))
    ops.append(prov_op(p_map([(cat, "cm", 2)], o_scalar(2000.0)), ci))
    ops.append(prov_op(p_map([(cat, "cm", 1), ("c12 produced cm", "m", 1)], o_scalar(2000.0)), ci))
    ops.append(prov_op(p_list([("mm", 1)], [cat], o_flat("list", [1000.0, 16000.0])), ci))
    ops.append(prov_op(p_list([("mm", 1)], cat, o_flat("list", [1000.0, 14000.0])), ci))
    ops.append(prov_op(p_list([("mm", 1), ("m", 1)], [cat], o_scalar(16000.0)), ci))
    ops.append(prov_op(p_list([("mm", 1), ("m", 1)], [cat, "c12 produced cm"], o_scalar(16000.0)), ci))
    ops.append(prov_op(p_pickle(p_direct(cat, "cm", o_scalar(1600.0))), ci))
    ops.append(prov_op(p_pickle(p_num(p_direct(cat, "cm", o_scalar(160.0)), "mul", 10)), ci))
    ops.append(prov_op(p_pickle(p_num(p_direct(cat, "m", o_flat("list", [1.0, 2.0]), fixed=True), "mul", 10)), ci))
    ops.append(prov_op(p_copy(p_num(p_direct(cat, "m", o_flat("list", [1.0, 2.0])), "mul", 10), "cm", None), ci))
    ops.append(prov_op(p_num(p_copy(p_direct(cat, "m", o_flat("list", [1.0, 2.0])), "cm", "c12 produced cm"), "mul", 10), ci))
    ops.append(prov_op(p_copy(p_num(p_direct(cat, "m", o_scalar(8.0)), "mul", 2), "cm", None), ci))
    ops.append(prov_op(p_copy(p_direct(cat, "m", o_scalar(12.0)), "cm", "c12 produced cm"), ci))
    ops.append(prov_op(p_copy(p_direct(cat, "cm", o_scalar(1200.0)), None, "c12 produced cm"), ci))
    for kind in CONTAINERS:   # a verdict memoised by the operand must not travel into the result (either direction)
        ops.append(prov_op(p_num(p_validated(p_direct(cat, "m", o_flat(kind, [1.0, 2.0])), ["i"]), "mul", 10), ["i", "c"]))
        ops.append(prov_op(p_num(p_validated(p_direct(cat, "m", o_flat(kind, [10.0, 20.0])), ["c"]), "div", 10), ["c", "i"]))
        ops.append(prov_op(p_bin(p_validated(p_direct(cat, "m", o_flat(kind, [10.0, 20.0])), ["c", "i"]),
                                 p_direct(cat, "cm", o_flat(kind, [900.0, 1900.0])), "sub"), ci))
    return history(ops)


def _prov_base(ctx, rng, cat, qt, du, u, lo, span, shape, n, fixed, kind=None):
    """a directly described object of `cat` in unit u whose amounts are inside the limits"""
    ys = [lo + span * rng.uniform(0.05, 0.95) for _ in range(n)]
    xs = [float(_conv(ctx, qt, du, u, y)) for y in ys]
    if shape == "scalar":
        return o_scalar(xs[0]), xs
    if rng.random() < 0.15:
        xs.insert(rng.randrange(len(xs) + 1), math.nan)
    return o_flat(kind or rng.choice(CONTAINERS), xs), xs


def _prov_histories(ctx, salt, n):
    """objects of a limited category that come out of operations: arithmetic with a number on either side, sums and
    differences with an object written in another unit / of another category of the quantity type, the mapping and
    list forms of ObtainQuantity, pickle round trips, CreateCopy, nested up to depth 3; about half of the results
    are pushed over a limit"""
    rng = ctx.fresh_rng("C12prov" + salt)
    for i in range(n):
        qt = rng.choice(QTYPES_QUICK)
        us = ctx.units[qt]
        du = rng.choice(us[:8])
        lo, hi = _limits(rng, qt, du)
        if hi <= lo:
            hi = lo + 10.0
        span = hi - lo
        du2 = rng.choice(us[:8])
        other_qt = rng.choice([t for t in QTYPES_QUICK if t != qt])
        lo2 = float(_conv(ctx, qt, du, du2, lo))
        hi2 = float(_conv(ctx, qt, du, du2, hi))
        xm, xM = rng.random() < 0.25, rng.random() < 0.25
        ops = [add_op("lim", qt, du=du, dv=(lo + hi) / 2, mn=lo, mx=hi, minx=xm, maxx=xM),
               add_op("lim2", qt, du=du2, dv=(lo2 + hi2) / 2, mn=min(lo2, hi2) - abs(hi2 - lo2), mx=max(lo2, hi2) + abs(hi2 - lo2)),
               add_op("free", qt, du=du),
               add_op("elsewhere", other_qt, mn=0.0)]
        for _ in range(rng.randint(8, 14)):
            shape = rng.choice(["scalar", "array", "array"])
            fixed = shape == "array" and rng.random() < 0.35
            n_el = rng.randint(2, 4) if shape == "array" else 1
            kind = rng.choice(CONTAINERS)
            u = rng.choice([du] + rng.sample(us, 2))
            obj, xs = _prov_base(ctx, rng, "lim", qt, du, u, lo, span, shape, n_el, fixed, kind)
            r = rng.random()
            if r < 0.6:
                tree = p_direct("lim", u, obj, fixed=fixed)
            elif r < 0.8:
                tree = p_map([("lim", u, 1)], obj, fixed=fixed, plain=rng.random() < 0.3, form=rng.choice(["ctor", "cwq"]))
            else:
                tree = p_list([(u, 1)], rng.choice([["lim"], "lim", ["lim", "free"]]), obj, fixed=fixed,
                              form=rng.choice(["ctor", "cwq"]))
            x0 = xs[0]
            for _depth in range(rng.choice([0, 1, 1, 1, 2, 2, 3])):
                if rng.random() < 0.3:
                    tree = p_validated(tree, rng.choice([["i"], ["c"], ["c", "i"]]))
                # where the first amount should land: inside [0, 1] of the interval, or beyond a limit
                t = rng.choice([rng.uniform(0.05, 0.95), rng.uniform(-1.5, -0.05), rng.uniform(1.05, 2.5)])
                target = float(_conv(ctx, qt, du, u, lo + span * t))
                step = rng.random()
                if step < 0.3:
                    d = target - x0
                    if rng.random() < 0.5:
                        tree, x0 = p_num(tree, "add", d, left=rng.random() < 0.4), x0 + d
                    elif rng.random() < 0.6:
                        tree, x0 = p_num(tree, "sub", -d), x0 + d
                    else:
                        tree, x0 = p_num(tree, "sub", x0 + target, left=True), target
                elif step < 0.55:
                    f = rng.choice([0.5, 2, 10, 4.0, 0.25, 3]) if x0 == 0 or not math.isfinite(target / x0) or abs(target / x0) > 1e6 \
                        or abs(target / x0) < 1e-6 else target / x0
                    if rng.random() < 0.6:
                        tree, x0 = p_num(tree, "mul", f, left=rng.random() < 0.4), x0 * f
                    else:
                        tree, x0 = p_num(tree, "div", 1 / f), x0 / (1 / f)
                elif step < 0.75:
                    # another object of the same shape: other unit and/or another category of the quantity type
                    cat2 = rng.choice(["lim", "lim", "lim2", "free", "free", "elsewhere"])
                    qt2 = other_qt if cat2 == "elsewhere" else qt
                    u2 = rng.choice(ctx.units[qt2][:10]) if cat2 == "elsewhere" else rng.choice([u] + rng.sample(us, 2))
                    d_du = span * (t - 0.5) * 0.5
                    zero_u2 = float(_conv(ctx, qt2, du, u2, 0.0)) if cat2 != "elsewhere" else 0.0
                    d2 = float(_conv(ctx, qt2, du, u2, d_du)) if cat2 != "elsewhere" else 1.0
                    nn = n_el + (1 if shape == "array" and rng.random() < 0.08 else 0)
                    if shape == "scalar":
                        obj2 = o_scalar(d2)
                    else:
                        obj2 = o_flat(kind if rng.random() < 0.8 else rng.choice(CONTAINERS),
                                      [d2 if rng.random() < 0.7 else zero_u2 for _ in range(nn)])
                    other = p_direct(cat2, u2, obj2, fixed=fixed and nn == n_el)
                    o = rng.choice(["add", "sub"])
                    if rng.random() < 0.75:
                        tree = p_bin(tree, other, o)
                    else:
                        tree = p_bin(other, tree, o)
                    x0 = x0  # only roughly known from here on
                elif step < 0.85 and (shape == "scalar" or fixed):
                    tree = p_pickle(tree)
                elif step < 0.95:
                    tree = p_copy(tree, rng.choice([None, u, rng.choice(us)]), rng.choice([None, None, "lim2", "lim", "free"]))
                elif rng.random() < 0.3:
                    tree = p_num(tree, rng.choice(["mul", "add", "sub"]), rng.choice([math.nan, math.inf, -math.inf, 0.0, 0]),
                                 left=rng.random() < 0.3)
                else:
                    left = rng.random() < 0.5
                    tree = p_num(tree, "div", rng.choice([2.0, 0.5, 8]), left=left)
                    if left:
                        break   # number / object: a derived quantity (1/unit); operations on derived results are not modelled
                if not math.isfinite(x0) or abs(x0) > 1e12:
                    break
            ops.append(prov_op(tree, _call_seq(rng)))
        if rng.random() < 0.5:
            # malformed productions: unknown category / unit of another type in the mapping and list forms
            bad_u = rng.choice(ctx.units[other_qt][:6])
            ops.append(prov_op(p_map([(rng.choice(["lim", "missing"]), rng.choice([bad_u, du]), rng.choice([1, 1, 2, -1]))],
                                     o_scalar(1.0)), ["i", "c"]))
            ops.append(prov_op(p_list([(rng.choice([bad_u, du, "nope"]), rng.choice([1, 2]))],
                                      rng.choice([None, "lim", [], ["missing"], ["lim"]]), o_scalar(1.0)), ["i", "c"]))
        yield history(ops)


def _api_histories(ctx, salt, n):
    """from_category with an explicit None for is_min_exclusive / is_max_exclusive / caption (inherited), None flags
    without a source (falsy), then Scalars, CheckValueForCategory (with, without unit) and ScalarMinMaxValidator at
    the exact limits (where only the inherited flag decides), inside and outside; GetDefaultValue of known and
    unknown categories"""
    rng = ctx.fresh_rng("C12api" + salt)
    for i in range(n):
        qt = rng.choice(QTYPES_QUICK)
        us = ctx.units[qt]
        du = rng.choice(us[:6])
        lo, hi = rng.choice([(-10.0, 10.0), (0.0, 50.0), (2.0, 1000.0), (-5.0, None), (None, 7.5)])
        pminx, pmaxx = rng.random() < 0.5, rng.random() < 0.5
        inside = (lo + hi) / 2 if lo is not None and hi is not None else (lo + 1 if lo is not None else hi - 1)
        pcap = rng.choice(["", "Parent Caption", "depth of the well"])
        ops = [add_op("parent", qt, du=du, dv=inside, mn=lo, mx=hi, minx=pminx, maxx=pmaxx, caption=pcap)]
        kw = dict(frm="parent", minx=rng.choice([None, None, True, False]), maxx=rng.choice([None, None, True, False]),
                  caption=rng.choice([None, None, "", "Child"]))
        if rng.random() < 0.3:
            kw["dv"] = inside
        if rng.random() < 0.25:
            kw["mn"] = (lo if lo is not None else -100.0) + rng.choice([0.0, 0.5])
        ops.append(add_op("child", **kw))
        # None flags without a source: falsy, so a default can be derived and the limits are inclusive
        ops.append(add_op("orphan", qt, du=du, mn=lo, mx=hi, minx=rng.choice([None, False]), maxx=None,
                          dv=rng.choice([None, inside]), caption=rng.choice([None, "", "Orphan"])))
        if rng.random() < 0.3:
            ops.append(add_op("grandchild", frm="child", minx=None, maxx=None, caption=None))
        cats = [o["category"] for o in ops]
        for c in cats + ["missing"]:
            ops.append(gdv_op(c))
        for c in cats:
            ops.append(obj_op(c, None, o_scalar(0.0), ["c", "i"], default=True))
            units = [du, None] + rng.sample(us, 2)
            for u in units:
                lims = [L for L in (lo, hi) if L is not None]
                ys = lims + [inside, rng.choice(lims) + rng.choice([-1, 1]) * rng.choice([1e-3, 3.0, 1e4])]
                if rng.random() < 0.3:
                    ys.append(rng.choice([math.nan, math.inf, -math.inf]))
                for y in ys:
                    x = y if u in (None, du) or y != y else float(_conv(ctx, qt, du, u, y))
                    r = rng.random()
                    if u is None or r < 0.45:
                        ops.append(cvc_op(c, x, u))
                    elif r < 0.8:
                        ops.append(val_op(c, u, x))
                    else:
                        ops.append(obj_op(c, u, o_scalar(x), ["i", "c"]))
        ops.append(cvc_op("missing", 1.0, rng.choice([None, du])))
        ops.append(cvc_op("parent", 1.0, rng.choice(["nope", rng.choice(ctx.units[rng.choice(ctx.types)])])))
        ops.append(val_op("parent", "nope", 1.0))
        yield history(ops)


def cases(ctx):
    if ctx.tier == "quick":
        rng = ctx.fresh_rng("C12types")
        yield from _config_histories(ctx, "q", QTYPES_QUICK + rng.sample(ctx.types, 3), 4, False)
        yield from _registration_histories(ctx, "q", 400)
        yield from _shadow_histories(ctx, "q", 6)
        yield from _copy_histories(ctx, "q", 40)
        yield from _from_histories(ctx, "q", 40)
        yield from _reregister_histories(ctx, "q", 40)
        yield _prov_fixed_history()
        yield from _prov_histories(ctx, "q", 60)
        yield from _api_histories(ctx, "q", 40)
    else:
        rng = ctx.fresh_rng("C12types")
        extra = rng.sample(ctx.types, 12)
        yield from _config_histories(ctx, "t", QTYPES_QUICK + extra, 6, True)
        yield from _config_histories(ctx, "t2", QTYPES_QUICK, 4, True)
        yield from _registration_histories(ctx, "t", 2000)
        yield from _shadow_histories(ctx, "t", 40)
        yield from _copy_histories(ctx, "t", 400)
        yield from _from_histories(ctx, "t", 300)
        yield from _reregister_histories(ctx, "t", 300)
        yield _prov_fixed_history()
        yield from _prov_histories(ctx, "t", 600)
        yield from _api_histories(ctx, "t", 400)


def model_line(c):
    return {k: v for k, v in c.items() if k != "_t"}


def case_key(c):
    return model_line(c)


def show(c):
    return c["_t"]["ops"][:4]


# ------------------------------------------------------------------------------------------ real code
def _mk_values(o):
    import numpy

    t = o["t"]
    if t in ("flat", "dflat"):
        vs = [U(v) for v in o["vs"]]
        if o["c"] == "tuple":
            return tuple(vs)
        if o["c"] == "ndarray":
            return numpy.array(vs, dtype=float)
        return vs
    first = tuple(U(v) for v in o["first"])
    rest = [U(r["n"]) if "n" in r else tuple(U(v) for v in r["t"]) for r in o["rest"]]
    vs = [first] + rest
    return tuple(vs) if o["c"] == "tuple" else vs


def _elements(o):
    t = o["t"]
    if t in ("scalar", "dscalar"):
        return [U(o["v"])]
    if t == "fraction":
        return [_fraction_float(o)]
    if t in ("flat", "dflat"):
        return [U(v) for v in o["vs"]]
    out = [U(v) for v in o["first"]]
    for r in o["rest"]:
        if "t" in r:
            out += [U(v) for v in r["t"]]
    return out


def _build(op):
    """the value object of an `obj` operation (the private database is the singleton here)"""
    from barril.basic.fraction import FractionValue
    from barril.units import Array, FixedArray, FractionScalar, Scalar

    o = op["obj"]
    t = o["t"]
    cat, unit = op["cat"], op["unit"]
    named = cat is not None
    if op["default"]:
        return Scalar(cat)
    if t == "scalar":
        return Scalar(cat, U(o["v"]), unit) if named else Scalar(U(o["v"]), unit)
    if t == "dscalar":
        return Scalar(cat, U(o["v"]), unit) * Scalar(cat, 1.0, unit)
    if t == "fraction":
        fv = FractionValue(number=U(o["number"]), fraction=(o["n"], o["d"]))
        return FractionScalar(cat, fv, unit) if named else FractionScalar(fv, unit)
    if t == "dflat":
        a = Array(cat, _mk_values(o), unit)
        return a * Array(cat, [1.0] * len(o["vs"]), unit)
    if op.get("fixed") and t == "flat":
        n = len(o["vs"])
        return FixedArray(n, cat, _mk_values(o), unit) if named else FixedArray(n, _mk_values(o), unit)
    return Array(cat, _mk_values(o), unit) if named else Array(_mk_values(o), unit)


_PYOPS = {"add": lambda a, b: a + b, "sub": lambda a, b: a - b, "mul": lambda a, b: a * b, "div": lambda a, b: a / b}


def _with_quantity(q, o, fixed, form):
    """an object with the given quantity and the values of `o`"""
    from barril.basic.fraction import FractionValue
    from barril.units import Array, FixedArray, FractionScalar, Scalar

    t = o["t"]
    if t == "scalar":
        return Scalar(q, U(o["v"])) if form == "ctor" else Scalar.CreateWithQuantity(q, U(o["v"]))
    if t == "fraction":
        fv = FractionValue(number=U(o["number"]), fraction=(o["n"], o["d"]))
        return FractionScalar(q, fv) if form == "ctor" else FractionScalar.CreateWithQuantity(q, fv)
    if fixed and t == "flat":
        return FixedArray(len(o["vs"]), q, _mk_values(o))
    return Array(q, _mk_values(o)) if form == "ctor" else Array.CreateWithQuantity(q, _mk_values(o))


def _build_prov(n):
    """the object a production tree stands for, on the real code (the private database is the singleton)"""
    import pickle
    from collections import OrderedDict

    from barril.units import ObtainQuantity

    p = n["p"]
    if p == "direct":
        return _build(dict(obj=n["obj"], cat=n["cat"], unit=n["unit"], default=False, fixed=n.get("fixed")))
    if p == "map":
        items = [(c, [u, e]) for c, u, e in n["entries"]]
        return _with_quantity(ObtainQuantity(dict(items) if n.get("plain") else OrderedDict(items)), n["obj"],
                              n.get("fixed"), n.get("form"))
    if p == "list":
        cats = n["cats"]
        q = ObtainQuantity([(u, e) for u, e in n["units"]], cats if cats is None or isinstance(cats, str) else list(cats))
        return _with_quantity(q, n["obj"], n.get("fixed"), n.get("form"))
    if p == "num":
        x = U(n["x"])
        obj = _build_prov(n["of"])
        return _PYOPS[n["op"]](x, obj) if n["left"] else _PYOPS[n["op"]](obj, x)
    if p == "bin":
        a = _build_prov(n["a"])
        b = _build_prov(n["b"])
        return _PYOPS[n["op"]](a, b)
    if p == "pickle":
        return pickle.loads(pickle.dumps(_build_prov(n["of"])))
    if p == "copy":
        return _build_prov(n["of"]).CreateCopy(unit=n["unit"], category=n["cat"])
    if p == "validated":
        obj = _build_prov(n["of"])
        _run_calls(obj, n["calls"])
        return obj
    raise ValueError(p)


def _result_elements(obj):
    """(numbers of the object as floats, is it a flat array?)"""
    from barril.units import Array

    if isinstance(obj, Array):
        vals = obj.GetValues()
        nested = len(vals) > 0 and isinstance(list(vals)[0], tuple)
        return _flatten(vals), not nested
    return [float(obj.GetValue())], False


def _run_prov(op):
    import warnings

    try:
        with warnings.catch_warnings():
            warnings.simplefilter("ignore")
            obj = _build_prov(op["tree"])
    except Exception as e:
        return dict(err=err_kind(e))
    q = obj.GetQuantity()
    els, _flat = _result_elements(obj)
    res = dict(unit=obj.GetUnit(), cat=obj.GetCategory(), derived=bool(q.IsDerived()), kind=type(obj).__name__,
               vals=[_num(x) for x in els], outs=_run_calls(obj, op["calls"]))
    res["conv"] = None if q.IsDerived() else _conv_real(obj, els)
    return dict(ok=res)


def _num(x):
    try:
        return T(float(x))
    except Exception:
        return "?"


def _run_calls(obj, calls):
    from barril.units.exceptions import QuantityValidationError

    outs = []
    for c in calls:
        try:
            if c == "c":
                obj.CheckValidity()
                outs.append(dict(ok=None))
            else:
                r = obj.IsValid()
                outs.append(dict(ok=r) if isinstance(r, bool) else dict(err="other", detail=repr(r)))
        except QuantityValidationError as e:
            outs.append(dict(verr=dict(op=e.operator, limit=_num(e.limit_value), value=_num(e.value))))
        except Exception as e:
            outs.append(dict(err=err_kind(e)))
    return outs


def _run_op(db, op):
    if op["k"] == "add":
        try:
            info = db.AddCategory(op["category"], quantity_type=op["qtype"],
                                  valid_units=None if op["valid"] is None else list(op["valid"]),
                                  override=op["override"], default_unit=op["du"],
                                  default_value=None if op["dv"] is None else U(op["dv"]),
                                  min_value=None if op["min"] is None else U(op["min"]),
                                  max_value=None if op["max"] is None else U(op["max"]),
                                  is_min_exclusive=op["minx"], is_max_exclusive=op["maxx"], from_category=op["frm"],
                                  caption=op.get("caption", ""))
        except Exception as e:
            return dict(err=err_kind(e))
        try:
            gdv = _num(db.GetDefaultValue(op["category"]))
        except Exception as e:
            gdv = "err:" + err_kind(e)
        return dict(ok=dict(gdv=gdv, caption=info.caption,
                            qtype=info.quantity_type, valid=None if info.valid_units is None else list(info.valid_units),
                            du=info.default_unit, dv=_num(info.default_value),
                            min=None if info.min_value is None else _num(info.min_value),
                            max=None if info.max_value is None else _num(info.max_value),
                            minx=bool(info.is_min_exclusive), maxx=bool(info.is_max_exclusive)))
    if op["k"] == "copy":
        return _run_copy(op)
    if op["k"] == "prov":
        return _run_prov(op)
    if op["k"] == "gdv":
        try:
            return dict(ok=_num(db.GetDefaultValue(op["cat"])))
        except Exception as e:
            return dict(err=err_kind(e))
    if op["k"] in ("cvc", "val"):
        return _run_check(db, op)
    try:
        obj = _build(op)
    except Exception as e:
        return dict(err=err_kind(e))
    res = dict(unit=obj.GetUnit(), cat=obj.GetCategory(), outs=_run_calls(obj, op["calls"]))
    o = op["obj"]
    if op["default"]:
        try:
            res["value"] = _num(obj.GetValue())
        except Exception:
            res["value"] = "?"
    # the real conversion of every element to the default unit (public API), for the near-tie rule
    conv = []
    if o["t"] not in ("dscalar", "dflat"):
        try:
            q = obj.GetQuantity()
            du = q.GetCategoryInfo().default_unit
            els = [obj.GetValue()] if op["default"] else _elements(o)
            for x in els:
                try:
                    conv.append(_num(x if q.GetUnit() == du else q.ConvertScalarValue(x, du)))
                except Exception as e:
                    conv.append("err:" + err_kind(e))
        except Exception:
            conv = None
    res["conv"] = conv
    return dict(ok=res)


_PHRASES = (("greater than", ">"), ("less than", "<"), ("greater or equal to", ">="), ("less or equal to", "<="))


def _decode_message(msg):
    """(operator, limit) named by a validator message "... Must be <comparison in words> <limit!r>."; "?" for a part
    that cannot be read (the wording itself is not compared)"""
    tail = msg.rsplit("Must be ", 1)[-1].strip()
    if tail.endswith("."):
        tail = tail[:-1]
    op = "?"
    for words, sign in _PHRASES:
        if tail.startswith(words + " "):
            op = sign
    try:
        limit = T(float(tail.rsplit(" ", 1)[-1]))
    except Exception:
        limit = "?"
    return op, limit


def _validator_out(scalar):
    """what ScalarMinMaxValidator says about the scalar: ok / the decoded complaint / an error"""
    from barril.units.scalar_validation.scalar_min_max_validator import ScalarMinMaxValidator

    try:
        err = ScalarMinMaxValidator.CreateScalarCheckErrorMsg(scalar, "x")
        warn = ScalarMinMaxValidator.CreateScalarCheckWarningMsg(scalar, "x")
    except Exception as e:
        return dict(err=err_kind(e))
    if (err is None) != (warn is None):
        return dict(err="other", detail="error and warning messages disagree")
    if err is None:
        return dict(ok=None)
    op, limit = _decode_message(err)
    return dict(verr=dict(op=op, limit=limit, value="?"), text_differs=err.split(". ", 1)[-1] != warn.split(". ", 1)[-1])


def _check_scalar(db, op):
    """the Scalar a `cvc` / `val` operation is about"""
    from barril.units import Scalar

    unit = op["unit"] if op["unit"] is not None else db.GetDefaultUnit(op["cat"])
    return Scalar(op["cat"], U(op["v"]), unit)


def _run_check(db, op):
    from barril.units.exceptions import QuantityValidationError

    res = dict(unit=None, conv=None)
    try:
        s = _check_scalar(db, op)
        res["unit"] = s.GetUnit()
        res["conv"] = _conv_real(s, [U(op["v"])])
    except Exception as e:
        if op["k"] == "val":
            return dict(err=err_kind(e))
        s = None
    if op["k"] == "val":
        res["out"] = _validator_out(s)
        return dict(ok=res)
    try:
        db.CheckValueForCategory(op["cat"], U(op["v"]), op["unit"])
        res["out"] = dict(ok=None)
    except QuantityValidationError as e:
        res["out"] = dict(verr=dict(op=e.operator, limit=_num(e.limit_value), value=_num(e.value)))
    except Exception as e:
        res["out"] = dict(err=err_kind(e))
    return dict(ok=res)


def _flatten(values):
    """the numbers of an Array's values, tuple by tuple for a container whose first element is a tuple"""
    vs = list(values)
    if vs and isinstance(vs[0], tuple):
        out = []
        for t in vs:
            if isinstance(t, tuple):
                out += list(t)
        return [float(x) for x in out]
    return [float(x) for x in vs]


def _conv_real(obj, els):
    """the real conversion of the given numbers (written in the object's unit) to the default unit"""
    conv = []
    try:
        q = obj.GetQuantity()
        du = q.GetCategoryInfo().default_unit
        for x in els:
            try:
                conv.append(_num(x if q.GetUnit() == du else q.ConvertScalarValue(x, du)))
            except Exception as e:
                conv.append("err:" + err_kind(e))
    except Exception:
        return None
    return conv


def _build_source(op):
    from barril.units import Array, FixedArray

    o = op["obj"]
    if op.get("fixed") and o["t"] == "flat":
        return FixedArray(len(o["vs"]), op["cat"], _mk_values(o), op["unit"])
    return Array(op["cat"], _mk_values(o), op["unit"])


def _run_copy(op):
    try:
        src = _build_source(op)
    except Exception as e:
        return dict(err=err_kind(e))
    res = dict(unit=src.GetUnit(), outs=_run_calls(src, op["calls"]), conv=_conv_real(src, _elements(op["obj"])))
    try:
        cp = src.CreateCopy(unit=op["cunit"], category=op["ccat"])
    except Exception as e:
        return dict(ok=dict(src=res, copy=dict(err=err_kind(e))))
    out = dict(unit=cp.GetUnit(), cat=cp.GetCategory(), kind=type(cp).__name__, outs=_run_calls(cp, op["ccalls"]))
    try:
        out["conv"] = _conv_real(cp, _flatten(cp.GetValues()))
    except Exception:
        out["conv"] = None
    return dict(ok=dict(src=res, copy=dict(ok=out)))


def _run_history(ops):
    from barril.units.unit_database import UnitDatabase

    db = _new_db()
    UnitDatabase.PushSingleton(db)
    try:
        return db, [_run_op(db, op) for op in ops]
    finally:
        UnitDatabase.PopSingleton()


def impl(c, ctx):
    ops = c["_t"]["ops"]
    _db, outs = _run_history(ops)
    n = ctx.notes.setdefault("operations", {})
    for op, o in zip(ops, outs):
        if op["k"] == "add":
            key = "add/" + (o["err"] if "err" in o else "ok") + ("/from" if op["frm"] else "") + \
                ("/None-flag" if op["minx"] is None or op["maxx"] is None else "") + \
                ("/None-caption" if op.get("caption", "") is None else "")
        elif op["k"] in ("gdv", "cvc", "val"):
            r = o if op["k"] == "gdv" or "err" in o else o["ok"]["out"]
            key = "%s/%s" % (op["k"], ("verr" + r["verr"]["op"]) if "verr" in r else ("err-" + r["err"]) if "err" in r else "ok")
            if op["k"] == "cvc" and op["unit"] is None:
                key += "/no-unit"
        elif op["k"] == "prov":
            if "err" in o:
                key = "prov/%s/err-%s" % (op["tree"]["p"], o["err"])
            else:
                r = o["ok"]
                key = "prov/%s/%s/%s" % (op["tree"]["p"], r["kind"], "derived" if r["derived"] else "one-category")
                for call, rr in zip(op["calls"], r["outs"]):
                    kk = "provcall/%s/%s" % (call, ("verr" + rr["verr"]["op"]) if "verr" in rr else ("err-" + rr["err"]) if "err" in rr else repr(rr["ok"]))
                    n[kk] = n.get(kk, 0) + 1
        elif "err" in o:
            key = "obj/create-" + o["err"]
        elif op["k"] == "copy":
            cpo = o["ok"]["copy"]
            key = "copy/" + ("err-" + cpo["err"] if "err" in cpo else
                             ("validated-first" if op["calls"] else "not-validated-first") +
                             ("/other-category" if op["ccat"] and op["ccat"] != op["cat"] else "/same-category"))
        else:
            key = "obj/" + ("default" if op["default"] else op["obj"]["t"]) + ("" if op["cat"] is not None else "/no-category")
            for call, r in zip(op["calls"], o["ok"]["outs"]):
                kk = "call/%s/%s" % (call, ("verr" + r["verr"]["op"]) if "verr" in r else ("err-" + r["err"]) if "err" in r else repr(r["ok"]))
                n[kk] = n.get(kk, 0) + 1
        n[key] = n.get(key, 0) + 1
    return dict(outs=outs)


# ------------------------------------------------------------------------------------------ comparison
def _same_val(real_t, model_s, M):
    """payload number (T form) against a model value string"""
    if real_t == "?":
        return False
    r = U(real_t)
    if model_s in ("nan", "inf", "-inf"):
        m = float(model_s)
        return (r != r) if m != m else (r == m)
    if isinstance(r, float) and not math.isfinite(r):
        return False
    return close(float(r), qparse(model_s), M)


def _tie(op, a, b):
    """is some finite converted amount within the float margin of a limit, with an inexact float conversion?"""
    lim = b.get("_limits")
    conv_r, conv_m = a.get("conv"), b.get("conv")
    if not lim or conv_r is None or conv_m is None or len(conv_r) != len(conv_m):
        return False
    M = qparse(b["M"])
    tol = K * Fraction(EPS) * M * 4 + Fraction(1, 10 ** 300)
    for r, m in zip(conv_r, conv_m):
        if isinstance(m, dict) or m in ("nan", "inf", "-inf") or str(r).startswith("err") or r == "?":
            continue
        y = qparse(m)
        rv = U(r)
        if isinstance(rv, float) and not math.isfinite(rv):
            continue
        if exact(rv) == y:
            continue
        for L in lim:
            if abs(y - L) <= tol:
                return True
    return False


def _agree_payload(a, b, ci, ctx, derived=False, default=False):
    """one built object: unit, converted amounts, answers of the calls"""
    b = dict(b)
    if not derived and a["unit"] != unsym(int(b["unit"])):
        return "unit differs: impl=%s model=%s" % (a["unit"], unsym(int(b["unit"])))
    M = qparse(b["M"])
    if default and not _same_val(a.get("value", "?"), b["value"], abs(qparse(b["value"])) if "/" in b["value"] else 0):
        return "default value differs: impl=%s model=%s" % (a.get("value"), b["value"])
    if not derived and a["conv"] is not None:
        if len(a["conv"]) != len(b["conv"]):
            return "element count"
        for r, m in zip(a["conv"], b["conv"]):
            if isinstance(m, dict):
                if not (isinstance(r, str) and r == "err:" + m["err"]):
                    return "conversion: impl=%s model=%s" % (r, m)
            elif isinstance(r, str) and r.startswith("err:"):
                return "conversion: impl=%s model=%s" % (r, m)
            elif not _same_val(r, m, M):
                return "converted amount differs: impl=%s model=%s" % (U(r) if r != "?" else r, m)
    if ci:
        b["_limits"] = [qparse(x) for x in (ci["min"], ci["max"]) if x is not None]
    if _tie(None, a, b):
        ctx.notes["near_ties_skipped"] = ctx.notes.get("near_ties_skipped", 0) + 1
        return None
    ctx.notes["objects_compared_strictly"] = ctx.notes.get("objects_compared_strictly", 0) + 1
    if len(a["outs"]) != len(b["outs"]):
        return "number of answers"
    for i, (x, y) in enumerate(zip(a["outs"], b["outs"])):
        if "verr" in x or "verr" in y:
            if not ("verr" in x and "verr" in y):
                return "call %d: impl=%s model=%s" % (i, x, y)
            xv, yv = x["verr"], y["verr"]
            if xv["op"] != yv["op"]:
                return "call %d: operator impl=%s model=%s" % (i, xv["op"], yv["op"])
            if xv["limit"] == "?" or exact(U(xv["limit"])) != qparse(yv["limit"]):
                return "call %d: limit impl=%s model=%s" % (i, xv["limit"], yv["limit"])
            if not _same_val(xv["value"], yv["value"], M):
                return "call %d: reported amount impl=%s model=%s" % (i, xv["value"], yv["value"])
        elif "err" in x or "err" in y:
            if x.get("err") != y.get("err"):
                return "call %d: impl=%s model=%s" % (i, x, y)
        elif x.get("ok") != y.get("ok"):
            return "call %d: verdict impl=%s model=%s" % (i, x.get("ok"), y.get("ok"))
    return None


def _agree_obj(op, io, mo, cats, ctx):
    if ("err" in io) != ("err" in mo):
        return "creation: one side fails: impl=%s model=%s" % (io, mo)
    if "err" in io:
        return None if io["err"] == mo["err"] else "creation error kinds differ: impl=%s model=%s" % (io["err"], mo["err"])
    if op["k"] == "gdv":
        return None if _same_val(io["ok"], mo["ok"], 0) and ("/" not in mo["ok"] or exact(U(io["ok"])) == qparse(mo["ok"])) \
            else "default value: impl=%s model=%s" % (io["ok"], mo["ok"])
    if op["k"] in ("cvc", "val"):
        a, b = io["ok"], mo["ok"]
        x, y = a["out"], b["out"]
        if "err" in x or "err" in y:
            return None if x.get("err") == y.get("err") else "impl=%s model=%s" % (x, y)
        if op["k"] == "val" and "verr" in x and "verr" in y:
            # the complaint is read off the message: verdict, then operator and limit when they can be read
            ci = cats.get(op["cat"])
            why = _agree_payload(dict(a, outs=[dict(ok=False)]), dict(b, outs=[dict(ok=False)]), ci, ctx)
            lims = [qparse(t) for t in (ci["min"], ci["max"]) if t is not None] if ci else []
            if why or _tie(None, a, dict(b, _limits=lims)):
                return why
            xv, yv = x["verr"], y["verr"]
            if xv["op"] != "?" and xv["op"] != yv["op"]:
                return "validator: operator impl=%s model=%s" % (xv["op"], yv["op"])
            if xv["limit"] != "?" and exact(U(xv["limit"])) != qparse(yv["limit"]):
                return "validator: limit impl=%s model=%s" % (xv["limit"], yv["limit"])
            return None
        pa = dict(a, outs=[dict(ok=None) if "ok" in x else x])
        pb = dict(b, outs=[dict(ok=None) if "ok" in y else y])
        if op["k"] == "val":   # verdicts only (one side accepts)
            pa["outs"] = [dict(ok="verr" not in x)]
            pb["outs"] = [dict(ok="verr" not in y)]
        if a["unit"] is None:
            return _agree_payload(pa, dict(pb, unit="0"), cats.get(op["cat"]), ctx, derived=True)
        return _agree_payload(pa, pb, cats.get(op["cat"]), ctx)
    if op["k"] == "prov":
        a, b = io["ok"], mo["ok"]
        if a["derived"] != b["derived"]:
            return ("the quantity of the result: impl %s (category %r, unit %r), model %s"
                    % ("derived" if a["derived"] else "one category", a["cat"], a["unit"],
                       "derived" if b["derived"] else "one category"))
        if len(a["vals"]) != len(b["vals"]):
            return "number of values: impl=%d model=%d" % (len(a["vals"]), len(b["vals"]))
        Mv = qparse(b.get("Mv", b["M"]))
        for r, m in zip(a["vals"], b["vals"]):
            if not _same_val(r, m, Mv):
                return "value of the result differs: impl=%s model=%s" % (U(r) if r != "?" else r, m)
        if b["derived"]:
            b = dict(b, unit="0")
            return _agree_payload(a, b, None, ctx, derived=True)
        if a["cat"] != unsym(int(b["cat"])):
            return "category of the result: impl=%s model=%s" % (a["cat"], unsym(int(b["cat"])))
        return _agree_payload(a, b, cats.get(a["cat"]), ctx)
    if op["k"] == "copy":
        why = _agree_payload(io["ok"]["src"], mo["ok"]["src"], cats.get(op["cat"]), ctx)
        if why:
            return "source: " + why
        a, b = io["ok"]["copy"], mo["ok"]["copy"]
        if ("err" in a) != ("err" in b):
            return "copy: one side fails: impl=%s model=%s" % (a, b)
        if "err" in a:
            return None if a["err"] == b["err"] else "copy: error kinds differ: impl=%s model=%s" % (a["err"], b["err"])
        why = _agree_payload(a["ok"], b["ok"], cats.get(op["ccat"] or op["cat"]), ctx)
        return ("copy: " + why) if why else None
    cat = op["cat"]
    if cat is None:
        cat = io["ok"].get("cat")
        if cat != unsym(int(mo["ok"].get("cat", "0"))):
            return "category of a category-less construction: impl=%s model=%s" % (cat, unsym(int(mo["ok"].get("cat", "0"))))
    return _agree_payload(io["ok"], mo["ok"], cats.get(cat), ctx,
                          derived=op["obj"]["t"] in ("dscalar", "dflat"), default=op["default"])


def _agree_add(op, io, mo):
    if ("err" in io) != ("err" in mo):
        return "one side fails: impl=%s model=%s" % (io, mo)
    if "err" in io:
        return None if io["err"] == mo["err"] else "error kinds differ: impl=%s model=%s" % (io["err"], mo["err"])
    a, b = io["ok"], mo["ok"]
    if a["qtype"] != unsym(int(b["qtype"])):
        return "quantity type"
    if a["du"] != unsym(int(b["du"])):
        return "default unit: impl=%s model=%s" % (a["du"], unsym(int(b["du"])))
    va = a["valid"]
    vb = None if b["valid"] is None else [unsym(int(x)) for x in b["valid"]]
    if va != vb:
        return "valid units: impl=%s model=%s" % (va, vb)
    for k in ("min", "max"):
        if (a[k] is None) != (b[k] is None) or (a[k] is not None and (a[k] == "?" or exact(U(a[k])) != qparse(b[k]))):
            return "%s: impl=%s model=%s" % (k, a[k], b[k])
    if a["minx"] != b["minx"] or a["maxx"] != b["maxx"]:
        return "exclusivity flags"
    dv = b["dv"]
    if not _same_val(a["dv"], dv, abs(qparse(dv)) if "/" in dv else 0) or ("/" in dv and exact(U(a["dv"])) != qparse(dv)):
        return "default value: impl=%s model=%s" % (a["dv"], dv)
    gdv = b.get("gdv")
    if isinstance(gdv, dict) or str(a.get("gdv", "")).startswith("err:"):
        if not (isinstance(gdv, dict) and a.get("gdv") == "err:" + gdv.get("err", "")):
            return "GetDefaultValue: impl=%s model=%s" % (a.get("gdv"), gdv)
    elif gdv is not None and (not _same_val(a["gdv"], gdv, 0) or ("/" in gdv and exact(U(a["gdv"])) != qparse(gdv))):
        return "GetDefaultValue: impl=%s model=%s" % (a["gdv"], gdv)
    if b.get("caption", "0") != "0" and a.get("caption") != unsym(int(b["caption"])):
        return "caption: impl=%r model=%r" % (a.get("caption"), unsym(int(b["caption"])))
    return None


def agree(c, io, mo, ctx):
    ops = c["_t"]["ops"]
    if len(io["outs"]) != len(mo.get("outs", [])):
        return "length"
    cats = {}
    for i, (op, a, b) in enumerate(zip(ops, io["outs"], mo["outs"])):
        if op["k"] == "add":
            why = _agree_add(op, a, b)
            if why is None and "ok" in b:
                cats[op["category"]] = b["ok"]
        else:
            why = _agree_obj(op, a, b, cats, ctx)
        if why:
            return "step %d %s: %s" % (i, {k: v for k, v in op.items() if k != "obj"} if op["k"] == "obj" else op, why)
    return None


def nontrivial(c, io):
    for op, o in zip(c["_t"]["ops"], io["outs"]):
        if op["k"] == "add":
            return True
    return False


# ------------------------------------------------------------- the property itself, on the real code only
def _sat(info, y):
    """does the amount y (default unit) satisfy the limits of the category? (IEEE comparisons)"""
    if info.min_value is not None:
        if not (y > info.min_value if info.is_min_exclusive else y >= info.min_value):
            return False
    if info.max_value is not None:
        if not (y < info.max_value if info.is_max_exclusive else y <= info.max_value):
            return False
    return True


def _near(info, y):
    """inside float rounding of a limit without being the limit itself (an amount that IS the limit is decided
    by the exclusivity flag alone)"""
    for L in (info.min_value, info.max_value):
        if L is not None and math.isfinite(y) and y != L and abs(y - L) <= 1e-9 * max(abs(L), abs(y), 1e-300):
            return True
    return False


def _amount(db, info, unit, x):
    """the physical amount of x [unit] in the default unit: finite values through UnitDatabase.Convert, an
    infinity stays the infinity of its sign (every conversion is increasing, C01), NaN stays NaN"""
    if unit == info.default_unit or x != x:
        return x
    if math.isinf(x):
        return x
    return db.Convert(info.quantity_type, unit, info.default_unit, x)


class _Lim:
    """the limits an object has to be judged by: those REQUESTED when its category was registered (an argument
    that was given wins over from_category, whatever its value), else those the registry reports"""

    def __init__(self, info, want):
        self.quantity_type = info.quantity_type
        self.default_unit = info.default_unit
        if want is None:
            want = dict(min=info.min_value, max=info.max_value, minx=info.is_min_exclusive, maxx=info.is_max_exclusive)
        self.min_value, self.max_value = want["min"], want["max"]
        self.is_min_exclusive, self.is_max_exclusive = bool(want["minx"]), bool(want["maxx"])


def _judge(db, obj, els, skip_nan, want, show):
    """accepted exactly when every amount, converted to the default unit, satisfies the limits; a rejection
    reports a violated limit of the object's own category"""
    from barril.units.exceptions import QuantityValidationError

    q = obj.GetQuantity()
    try:
        # the object was created just now: the limits in force are those of the registry's CURRENT entry for its
        # category (a re-registration applies to every object created after it, whatever the construction form)
        current = db.GetCategoryInfo(obj.GetCategory())
    except Exception:
        current = q.GetCategoryInfo()
    info = _Lim(current, want)
    unit = q.GetUnit()
    limited = info.min_value is not None or info.max_value is not None
    expected = True
    amounts = []
    for x in els:
        x = float(x)
        if x != x:
            if not skip_nan and limited:
                expected = False
            continue
        y = _amount(db, info, unit, x)
        if _near(info, y):
            return None  # inside float rounding of a limit: don't care
        amounts.append(y)
        if not _sat(info, y):
            expected = False
    show = dict(show, category=obj.GetCategory(), unit=unit, default_unit=info.default_unit,
                limits=[info.min_value, info.is_min_exclusive, info.max_value, info.is_max_exclusive])
    verdicts = []
    for _ in range(2):
        verdicts.append(obj.IsValid())
        try:
            obj.CheckValidity()
            verdicts.append(True)
        except QuantityValidationError as e:
            verdicts.append(False)
            ops_ok = {">": (info.min_value, info.is_min_exclusive), ">=": (info.min_value, not info.is_min_exclusive),
                      "<": (info.max_value, info.is_max_exclusive), "<=": (info.max_value, not info.is_max_exclusive)}
            lim, flag = ops_ok.get(e.operator, (None, False))
            if lim is None or not flag or e.limit_value != lim:
                return dict(clause="a rejection reports a limit and operator of the object's category", reported=[e.operator, e.limit_value], **show)
            v = e.value
            holds = {">": v > lim, ">=": v >= lim, "<": v < lim, "<=": v <= lim}[e.operator]
            if holds and not _near(info, v):
                return dict(clause="the reported limit is not violated by the reported amount", reported=[e.operator, e.limit_value, v], **show)
            if v == v and amounts and not any(abs(v - y) <= 1e-9 * max(abs(v), abs(y), 1e-300) or v == y for y in amounts):
                return dict(clause="the reported amount is not an amount of the object", reported=v, amounts=amounts[:6], **show)
        except ValueError:
            verdicts.append(False)
        except Exception as e:
            return dict(clause="CheckValidity raised something else than ValueError", error=repr(e), **show)
    if any(v is not expected for v in verdicts):
        return dict(clause="accepted exactly when every amount, converted to the default unit, satisfies the limits",
                    expected=expected, got=verdicts, amounts_in_default_unit=amounts[:8], **show)
    return None


def _oracle_obj(db, op, obj, wants):
    o = op["obj"]
    q = obj.GetQuantity()
    if q.IsDerived():
        if obj.IsValid() is not True:
            return dict(clause="a derived quantity has no limits", got=obj.IsValid())
        return None
    if op["default"]:
        els, skip_nan = [obj.GetValue()], False
    elif o["t"] == "nested":
        if any("n" in r for r in o["rest"]):
            return None  # a list mixing tuples and plain numbers is not a well-formed Array
        els, skip_nan = _elements(o), False
    else:
        els, skip_nan = _elements(o), o["t"] == "flat"
    return _judge(db, obj, els, skip_nan, wants.get(obj.GetCategory()),
                  dict(object=o, category_named=op["cat"] is not None, fixed=bool(op.get("fixed"))))


def _oracle_copy(db, op, wants):
    """an Array obtained with CreateCopy is an object of ITS category holding ITS amounts: it is judged like any
    other Array, whatever was asked of the source before"""
    o = op["obj"]
    if o["t"] == "nested" and any("n" in r for r in o["rest"]):
        return None
    try:
        src = _build_source(op)
    except Exception:
        return None
    for c in op["calls"]:
        try:
            src.IsValid() if c == "i" else src.CheckValidity()
        except Exception:
            pass
    try:
        cp = src.CreateCopy(unit=op["cunit"], category=op["ccat"])
    except Exception:
        return None
    vals = cp.GetValues()
    nested = len(vals) > 0 and isinstance(list(vals)[0], tuple)
    show = dict(source=dict(category=op["cat"], unit=op["unit"], object=o, fixed=bool(op.get("fixed")),
                            calls_before_copy=op["calls"]),
                copy=dict(unit=op["cunit"], category=op["ccat"]), copy_values=_flatten(vals)[:8])
    return _judge(db, cp, _flatten(vals), not nested, wants.get(cp.GetCategory()), show)


def _oracle_prov(db, op, wants):
    """an object that came out of operations is an object of ITS category holding ITS amounts: when its quantity is
    one category with exponent 1 it is judged exactly like a directly created object of that category"""
    import warnings

    try:
        with warnings.catch_warnings():
            warnings.simplefilter("ignore")
            obj = _build_prov(op["tree"])
    except Exception:
        return None
    q = obj.GetQuantity()
    ents = list(q.GetCategoryToUnitAndExps().items())
    show = dict(produced_by=op["tree"], result_type=type(obj).__name__)
    if len(ents) != 1 or ents[0][1][1] != 1:
        if obj.IsValid() is not True:
            return dict(clause="a derived quantity has no limits", got=obj.IsValid(), **show)
        return None
    try:
        db.GetCategoryInfo(ents[0][0])
    except Exception:
        return None
    els, flat = _result_elements(obj)
    show["result_values"] = els[:8]
    return _judge(db, obj, els, flat, wants.get(ents[0][0]), show)


class _Checked:
    """`CheckValueForCategory(category, value, unit)` / `ScalarMinMaxValidator` seen as the validity check of the value
    they are about: judged like `Scalar(category, value, unit)`"""

    def __init__(self, scalar, check):
        self._scalar, self._check = scalar, check

    def GetQuantity(self):
        return self._scalar.GetQuantity()

    def GetCategory(self):
        return self._scalar.GetCategory()

    def CheckValidity(self):
        self._check()

    def IsValid(self):
        try:
            self._check()
        except ValueError:
            return False
        return True


def _oracle_check(db, op, wants):
    from barril.units.exceptions import QuantityValidationError

    try:
        s = _check_scalar(db, op)
    except Exception:
        return None
    if op["k"] == "cvc":
        def check():
            db.CheckValueForCategory(op["cat"], U(op["v"]), op["unit"])
        what = "CheckValueForCategory(%r, %r, %r)" % (op["cat"], U(op["v"]), op["unit"])
    else:
        def check():
            out = _validator_out(s)
            if "err" in out:
                raise RuntimeError("ScalarMinMaxValidator: %s" % out)
            if "verr" in out:
                v = out["verr"]
                if v["op"] == "?" or v["limit"] == "?":
                    raise ValueError("a complaint that cannot be read")
                # the amount is printed with 6 digits only: not judged (NaN passes the amount clauses)
                raise QuantityValidationError("", "", math.nan, v["op"], U(v["limit"]))
        what = "ScalarMinMaxValidator on Scalar(%r, %r, %r)" % (op["cat"], U(op["v"]), op["unit"])
    return _judge(db, _Checked(s, check), [U(op["v"])], False, wants.get(op["cat"]), dict(checked_through=what))


def _want(op, wants):
    """the limits requested by a registration (None = cannot be told from the history)"""
    w = dict(min=None if op["min"] is None else U(op["min"]), max=None if op["max"] is None else U(op["max"]),
             minx=op["minx"], maxx=op["maxx"])
    if op["frm"]:
        parent = wants.get(op["frm"])
        if parent is None:
            return None
        for flag in ("minx", "maxx"):      # an explicit None is inherited like a missing limit
            if w[flag] is None:
                w[flag] = parent[flag]
        if w["min"] is None:
            w["min"] = parent["min"]
        if w["max"] is None:
            w["max"] = parent["max"]
    w["minx"], w["maxx"] = bool(w["minx"]), bool(w["maxx"])
    return w


def _oracle_add(db, op, info, want):
    units = db.GetUnits(info.quantity_type)
    if info.default_unit not in units:
        return dict(clause="default unit is a unit of the quantity type", default_unit=info.default_unit, registration=op)
    if info.valid_units is not None and any(u not in units for u in info.valid_units):
        return dict(clause="valid units are units of the quantity type", valid_units=info.valid_units, registration=op)
    lim = _Lim(info, want)
    lims = [x for x in (lim.min_value, lim.max_value) if x is not None]
    if any((not isinstance(x, (int, float))) or not math.isfinite(x) for x in lims):
        return None
    if not _sat(lim, info.default_value):
        return dict(clause="default value satisfies the category's own limits", default_value=info.default_value,
                    limits=[lim.min_value, lim.is_min_exclusive, lim.max_value, lim.is_max_exclusive], registration=op)
    return None


def _limits_differ(info, want):
    if want is None:
        return False
    return (info.min_value, info.max_value, bool(info.is_min_exclusive), bool(info.is_max_exclusive)) != \
        (want["min"], want["max"], bool(want["minx"]), bool(want["maxx"]))


def oracle(c, ctx):
    from barril.units import Scalar
    from barril.units.unit_database import UnitDatabase

    ops = c["_t"]["ops"]
    db = _new_db()
    patho = False  # a category named like a quantity type of ANOTHER type makes GetInfo resolve that type: don't care
    wants = {}     # category -> the limits its registration asked for
    pending = None
    UnitDatabase.PushSingleton(db)
    try:
        for i, op in enumerate(ops):
            if op["k"] == "add":
                r = _run_op(db, op)
                if "ok" in r:
                    info = db.GetCategoryInfo(op["category"])
                    if op["category"] in db.quantity_types and info.quantity_type != op["category"]:
                        patho = True
                    want = _want(op, wants)
                    if want is None:
                        wants.pop(op["category"], None)
                    else:
                        wants[op["category"]] = want
                    f = _oracle_add(db, op, info, want)
                    if f is None and not _limits_differ(info, want):
                        try:
                            s = Scalar(op["category"])
                            if not s.IsValid():
                                f = dict(clause="Scalar(category) of a freshly registered category is valid",
                                         value=s.GetValue(), unit=s.GetUnit(), registration=op)
                        except Exception as e:
                            f = dict(clause="Scalar(category) of a freshly registered category cannot be built",
                                     error=repr(e), registration=op)
                    if f:
                        f["step"] = i
                        f["registrations"] = [o for o in ops[:i] if o["k"] == "add"]
                        return f
                    if pending is None and _limits_differ(info, want):
                        # kept for the end: an object that is judged wrongly is the better witness
                        pending = dict(clause="the category is registered with the limits that were requested",
                                       requested=want, registered=[info.min_value, info.is_min_exclusive, info.max_value,
                                                                   info.is_max_exclusive],
                                       registration=op, step=i, registrations=[o for o in ops[:i] if o["k"] == "add"])
                continue
            if patho:
                continue
            try:
                if op["k"] == "copy":
                    f = _oracle_copy(db, op, wants)
                elif op["k"] == "prov":
                    f = _oracle_prov(db, op, wants)
                elif op["k"] == "gdv":
                    continue
                elif op["k"] in ("cvc", "val"):
                    f = _oracle_check(db, op, wants)
                else:
                    try:
                        obj = _build(op)
                    except Exception:
                        continue
                    f = _oracle_obj(db, op, obj, wants)
            except Exception as e:
                f = dict(clause="validation raised unexpectedly", error=repr(e), op=op)
            if f:
                f["step"] = i
                f["registrations"] = [o for o in ops[:i] if o["k"] == "add"]
                return f
    finally:
        UnitDatabase.PopSingleton()
    return pending


def search(ctx):
    yield _prov_fixed_history()
    yield from _prov_histories(ctx, "s", 80)
    yield from _api_histories(ctx, "s", 40)
    yield from _reregister_histories(ctx, "s", 60)
    yield from _copy_histories(ctx, "s", 60)
    yield from _from_histories(ctx, "s", 60)
    yield from _config_histories(ctx, "s", QTYPES_QUICK, 4, True)
    yield from _registration_histories(ctx, "s", 400 if ctx.tier == "quick" else 3000)
    rng = ctx.fresh_rng("C12search")
    yield from _config_histories(ctx, "s2", rng.sample(ctx.types, 20), 5, True)


def _object_witness(case, failure, ctx):
    """a registration that did not keep the requested limits: look for an object the resulting category judges
    wrongly (just inside / outside the requested and the registered limits, in the default unit)"""
    ops = case["_t"]["ops"]
    i = failure["step"]
    adds = [o for o in ops[:i + 1] if o["k"] == "add"]
    cat = ops[i]["category"]
    try:
        db, _ = _run_history(adds)
        du = db.GetCategoryInfo(cat).default_unit
    except Exception:
        return None
    probes = [-5.0, 5.0, 0.0]
    for L in [failure["requested"]["min"], failure["requested"]["max"], failure["registered"][0], failure["registered"][2]]:
        if L is not None and math.isfinite(L):
            d = 1e-3 * max(1.0, abs(L))
            probes += [L - d, L + d, L - 1000 * d, L + 1000 * d]
    for x in probes:
        trial = history(adds + [obj_op(cat, du, o_scalar(float(x)), ["i", "c"])])
        f = oracle(trial, ctx)
        if f and "registered with the limits" not in f.get("clause", ""):
            return trial, f
    return None


def shrink(case, failure, ctx):
    ops = case["_t"]["ops"]
    i = failure.get("step")
    if i is None or i >= len(ops):
        return case, failure
    if "registered with the limits" in failure.get("clause", ""):
        w = _object_witness(case, failure, ctx)
        if w is None:
            # this registry does not lend itself to objects (empty or shadowing names): take the witness from the
            # histories made for overriding limits
            for c in _from_histories(ctx, "w", 40):
                f = oracle(c, ctx)
                if f and "registered with the limits" not in f.get("clause", ""):
                    w = (c, f)
                    break
        if w is None:
            return case, failure
        case, failure = w
        ops, i = case["_t"]["ops"], failure["step"]
    adds = [o for o in ops[:i] if o["k"] == "add"]
    small = history(adds + [ops[i]])
    f = oracle(small, ctx)
    if f:
        case, failure = small, f
        ops = case["_t"]["ops"]
        # drop registrations that do not matter
        for j in range(len(ops) - 2, -1, -1):
            trial = history(ops[:j] + ops[j + 1:])
            g = oracle(trial, ctx)
            if g and g.get("clause") == failure.get("clause"):
                case, failure, ops = trial, g, trial["_t"]["ops"]
    return case, failure
