"""C19 - equivalent construction forms build equal objects.

Decided by: Barril/Props/C19.lean (generic theorems about the `Ctor` model: the documented forms of
Scalar/Array/FixedArray/FractionScalar build one and the same object whenever the default category of
the unit resolves and the category accepts the unit; category-only = (default value, default unit,
category); eval(repr) of a Scalar gives the Scalar back when nothing needs escaping) + generated
`decide +kernel` table theorems over the default POSC database (every unit row's default category
is a registered category of the row's quantity type; every category's default unit is a registered unit
of the category's quantity type; no symbol or category name needs escaping) - predicates
`UnitRow.defaultCatOk {db}`, `CatRow.defaultUnitOk {db}`, `UnitRow.symPlain`, `CatRow.namePlain`
(tags defcat, defunit, symplain, catplain in harness/tablepreds.py).
Tie: every unit x every category of its quantity type x every form of the four classes, on the real
default database, against `Ctor.construct` / `createWithQuantity` / `Obj.eq` / `evalRepr`."""
import numpy

from common import close, err_kind, exact, qparse, qstr, sym, unsym

ID = "C19"
LEAN_MODULES = ["Barril.Props.C19"]
DRIVERS = ["drv_ctor"]
DRIVER_EXE = "drv_ctor"
RULE = ("default POSC database, read only. (A) every unit (thorough; a seeded third in quick) x every category of "
        "the unit's quantity type x {Scalar, Array, FixedArray, FractionScalar} x 2 sampled values (floats, ints, "
        "list/tuple/ndarray containers, FractionValue): all documented forms (v,u) (v,u,c) (c,v,u) ((v,u)) "
        "(ObtainQuantity(u,c),v) CreateWithQuantity keyword-call ObtainQuantity(u); values include Python ints that "
        "no double holds exactly (2**53+1, 10**23, ...), bools and numpy integers, sent with their float image; Array and "
        "FixedArray values include lists/tuples of tuples (n tuples of size k, n != k, n == k, ragged): result (error kind or class, "
        "category, unit, quantity type, value, dimension) and == against the first form in both directions; "
        "eval(repr) for the Scalar cases; (B) all categories x 4 classes: category only vs default value/unit forms "
        "and the default converted into other units; (C) a malformed stream (wrong orders, missing unit, unit of "
        "another type, unknown names, non-str arguments, legacy spellings, bad dimensions, quoting); distinct = "
        "distinct list of forms; non-trivial = at least two forms built an object")
EXHAUSTIVE = {"quick": False, "thorough": True}
ASSUMPTIONS = [
    "float(n) of a Python int (round to nearest even) is Python's: the harness sends n and float(n)",
    "float(s) of a str argument, repr/eval of a finite float and the parsing of a quoted literal without escapes "
    "are Python's, not modelled (the harness supplies float(s))",
    "memo tables (quantities_cache, _category_unit_valid) only replay results on a database that is not edited (C15)",
    "arguments are None, str, finite numbers, lists/tuples of those, 1-d ndarrays, FractionValue, simple Quantity; "
    "the third positional argument is None, a str or a number",
    "the converted category default (value None, unit given) and float(FractionValue) are compared within K*eps*M "
    "(also through eval(repr)), everything else exactly",
    "float() of a 1-d ndarray is a TypeError whatever its size (numpy >= 2.4); len()/tuple() of a str count bytes "
    "(unit symbols, category names and the generated string arguments are ASCII)",
    "== between an ndarray-valued and a tuples-valued Array (numpy broadcasts a scalar against a tuple) is not "
    "modelled and not generated: a case holds ndarrays or lists of tuples, never both",
    "default_unit of a registered category is never None (AddCategory falls back to the base unit)",
]
CLS = ("scalar", "array", "fixed", "fraction")


# ------------------------------------------------------------------------------------------ encoding
def S(s, with_float=True):
    f = None
    if with_float:
        try:
            x = float(s)
            if x == x and x not in (float("inf"), float("-inf")):
                f = qstr(exact(x))
        except (ValueError, TypeError):
            f = None
    return {"s": str(sym(s)), "f": f}


def N(x):
    """a number: float; int (with its float image "fl" when no double holds it exactly: the constructors store
    float(x), correctly rounded by Python); bool; numpy integer scalar"""
    from fractions import Fraction as F

    if isinstance(x, (bool, numpy.bool_)):
        return {"b": bool(x)}
    if isinstance(x, numpy.integer):
        return {"n": qstr(F(int(x))), "np": type(x).__name__}
    d = {"n": qstr(exact(x))}
    if isinstance(x, int):
        d["int"] = True
        if float(x) != x:
            d["fl"] = qstr(exact(float(x)))
    return d


# values that are not floats and do not all compare equal to their float image
SPECIAL = [2 ** 53 + 1, -(2 ** 53 + 1), 10 ** 23, -(2 ** 60) - 1, 123456789012345678, 2 ** 53, True, False,
           numpy.int64(7), numpy.int32(-3)]


def SEQ(kind, items):
    return {"seq": kind, "items": [A(i) for i in items]}


def ROWS(kind, rows):
    """a list (kind "list") or tuple (kind "tuple") of tuples, e.g. [(100, 150), (50, 50)]"""
    return {"rows": kind, "items": [[A(i) for i in r] for r in rows]}


def FV(number, num, den):
    from fractions import Fraction as F

    return {"fv": [qstr(exact(number)), qstr(F(num, den))], "nd": [num, den]}


def OQ(u, c, *cap):
    """ObtainQuantity(u, c) / ObtainQuantity(u, c, caption)"""
    return {"oq": [A(u), A(c)] + [A(x) for x in cap[:1]]}


def DQ(items, cap=None):
    """ObtainQuantity(OrderedDict((category, [unit, exponent]) ...), None, caption): a derived quantity, the empty
    quantity (no items), or - one entry with exponent 1 - the simple quantity"""
    return {"dq": [[str(sym(c)), str(sym(u)), str(int(e))] for c, u, e in items], "cap": A(cap)}


def UNK(cap=None):
    """units.GetUnknownQuantity(caption)"""
    return {"unk": A(cap)}


def A(x):
    """python atom -> json"""
    if x is None or isinstance(x, dict):
        return x
    if isinstance(x, str):
        return S(x)
    return N(x)


def form(cls, a1=None, a2=None, a3=None, k="ctor", dim=None, dimkw=None, kw=False, p=0):
    d = dict(k=k, cls=cls, a1=A(a1), a2=A(a2), a3=A(a3))
    if dim is not None:
        d["dim"] = dim
    if dimkw is not None:
        d["dimkw"] = dimkw
    if kw:
        d["kw"] = True
    if p:
        d["p"] = 1  # a form the property text names: all of these must build equal objects
    return d


def py_atom(j):
    if j is None:
        return None
    if "b" in j:
        return bool(j["b"])
    if "s" in j:
        return unsym(int(j["s"]))
    q = qparse(j["n"])
    if j.get("np"):
        return getattr(numpy, j["np"])(int(q))
    if j.get("int"):
        return int(q)
    return q.numerator / q.denominator


def py_arg(j):
    """json -> the python object (may raise: ObtainQuantity is evaluated here, as an argument expression)"""
    from barril.basic.fraction import FractionValue
    from barril.units import ObtainQuantity

    if j is None:
        return None
    if "rows" in j:
        rows = [tuple(py_atom(i) for i in r) for r in j["items"]]
        return rows if j["rows"] == "list" else tuple(rows)
    if "seq" in j:
        items = [py_atom(i) for i in j["items"]]
        if j["seq"] == "list":
            return items
        if j["seq"] == "tuple":
            return tuple(items)
        return numpy.array(items, dtype=numpy.float64)
    if "fv" in j:
        n = qparse(j["fv"][0])
        num, den = j["nd"]
        return FractionValue(n.numerator / n.denominator, (num, den))
    if "oq" in j:
        return ObtainQuantity(*(py_atom(x) for x in j["oq"]))
    if "dq" in j:
        from collections import OrderedDict

        return ObtainQuantity(OrderedDict((unsym(int(c)), [unsym(int(u)), int(e)]) for c, u, e in j["dq"]), None,
                              py_atom(j.get("cap")))
    if "unk" in j:
        from barril import units

        return units.GetUnknownQuantity(py_atom(j["unk"]))
    return py_atom(j)


def canon_atom(x):
    if x is None:
        return None
    if isinstance(x, str):
        return {"s": str(sym(x))}
    if isinstance(x, tuple):
        return {"row": [canon_atom(i) for i in x]}
    if isinstance(x, (bool, numpy.bool_)):
        return {"other": repr(x)}
    if isinstance(x, (int, float, numpy.number)):
        x = x.item() if isinstance(x, numpy.number) else x
        return {"n": qstr(exact(x))}
    return {"other": type(x).__name__}


def canon_arg(x):
    from barril.basic.fraction import FractionValue
    from barril.units import Quantity

    if isinstance(x, list):
        return {"seq": "list", "items": [canon_atom(i) for i in x]}
    if isinstance(x, tuple):
        return {"seq": "tuple", "items": [canon_atom(i) for i in x]}
    if isinstance(x, numpy.ndarray):
        return {"seq": "nda", "items": [canon_atom(i) for i in x]}
    if isinstance(x, FractionValue):
        return {"fv": [qstr(exact(x.number)), qstr(x.fraction.x)]}
    if isinstance(x, Quantity):
        return {"qty": [str(sym(x.GetCategory())), str(sym(x.GetUnit()))]}
    return canon_atom(x)


def canon_obj(o):
    from barril.units import Array, FixedArray, FractionScalar, Scalar

    t = type(o)
    cls = {Scalar: "scalar", Array: "array", FixedArray: "fixed", FractionScalar: "fraction"}.get(t, t.__name__)
    q = o.GetQuantity()
    d = dict(cls=cls, cat=str(sym(q.GetCategory())), unit=str(sym(q.GetUnit())), qtype=str(sym(q.GetQuantityType())),
             dim=None)
    d.update(canon_quantity(q))
    v = o._value
    if cls == "scalar":
        d["val"] = {"n": qstr(exact(v))} if isinstance(v, float) else {"other": type(v).__name__}
    elif cls == "fraction":
        d["val"] = canon_arg(v)
    else:
        d["val"] = {"any": canon_arg(v)}
        if cls == "fixed":
            d["dim"] = str(o._dimension)
    return d


def canon_quantity(q):
    """the identity of a Quantity: caption and - for a derived one - the composing map (its category, unit and quantity
    type strings are C20's and are left out: "0")"""
    d = dict(cap=str(sym(q.GetUnknownCaption() or "")), comp=None)
    if q.IsDerived():
        d["comp"] = [[str(sym(c)), str(sym(ue[0])), str(int(ue[1]))] for c, ue in q.GetCategoryToUnitAndExps().items()]
        d.update(cat="0", unit="0", qtype="0")
    return d


def _classes():
    from barril.units import Array, FixedArray, FractionScalar, Scalar

    return dict(scalar=Scalar, array=Array, fixed=FixedArray, fraction=FractionScalar)


def build(f):
    """Run one form on the real code; returns the object (raises what the code raises)."""
    cls = _classes()[f["cls"]]
    a1 = py_arg(f.get("a1"))
    a2 = py_arg(f.get("a2"))
    a3 = py_atom(f.get("a3"))
    if f["k"] == "empty":
        # the class methods for objects without unit (FractionScalar has none: AttributeError)
        if f["cls"] in ("scalar", "fraction"):
            return cls.CreateEmptyScalar(value=a1) if f.get("kw") else cls.CreateEmptyScalar(a1)
        if f["cls"] == "array":
            return cls.CreateEmptyArray(values=a1) if f.get("kw") else cls.CreateEmptyArray(a1)
        return cls.CreateEmptyArray(f.get("dim", 0), values=a1) if f.get("kw") else cls.CreateEmptyArray(f.get("dim", 0), a1)
    if f["k"] == "cwq":
        kwargs = {}
        if f.get("dimkw") is not None:
            kwargs["dimension"] = f["dimkw"]
        if f.get("kw"):
            return cls.CreateWithQuantity(a1, value=a2, **kwargs)
        return cls.CreateWithQuantity(a1, a2, **kwargs)
    if f.get("kw"):
        vname = "value" if f["cls"] in ("scalar", "fraction") else "values"
        kwargs = {"category": a1, vname: a2, "unit": a3}
        if f["cls"] == "fixed":
            kwargs["dimension"] = f.get("dim", 0)
        return cls(**kwargs)
    args = [a1, a2, a3]
    while len(args) > 1 and args[-1] is None:
        args.pop()
    if f["cls"] == "fixed":
        args = [f.get("dim", 0)] + args
    return cls(*args)


def try_build(f):
    try:
        return build(f), None
    except Exception as e:  # noqa
        return None, err_kind(e)


def py_eq(a, b):
    try:
        r = (a == b)
        if isinstance(r, (bool, numpy.bool_)):
            return bool(r)
        return "nonbool"
    except Exception as e:  # noqa
        return err_kind(e)


# ------------------------------------------------------------------------------------------ generators
def setup(ctx):
    from barril.units.unit_database import UnitDatabase, _LEGACY_TO_CURRENT

    db = ctx.db = UnitDatabase.GetSingleton()
    ctx.units = [(qt, i.unit) for qt, infos in db.quantity_types.items() for i in infos]
    ctx.cats_of = {}
    for name, ci in db.categories_to_quantity_types.items():
        ctx.cats_of.setdefault(ci.quantity_type, []).append(name)
    ctx.cats = list(db.categories_to_quantity_types)
    ctx.legacy = list(_LEGACY_TO_CURRENT)
    ctx.notes["units"] = len(ctx.units)
    ctx.notes["categories"] = len(ctx.cats)
    ctx.notes["unit_category_pairs"] = sum(len(ctx.cats_of.get(qt, [])) for qt, _u in ctx.units)
    ctx.notes["form_results"] = {}
    ctx.notes["groups"] = {}


def _scalar_value(rng):
    return rng.choice([2.5, -1.0, 7, 0.0, 1e-7, 123456.789, rng.uniform(-1000, 1000),
                       10.0 ** rng.uniform(-9, 9) * rng.choice((1, -1)), rng.randint(-50, 50),
                       rng.choice(SPECIAL), rng.choice(SPECIAL)])


def _container(rng, n=None, nda=True):
    n = n or rng.randint(2, 4)
    items = [rng.choice([1.0, 2.5, -3.0, 0.0, rng.uniform(-100, 100), rng.randint(-9, 9), rng.choice(SPECIAL)])
             for _ in range(n)]
    kind = rng.choice(["list", "tuple", "nda"] if nda else ["list", "tuple", "list"])
    if kind == "nda":
        items = [float(i) for i in items]
    return SEQ(kind, items)


def _rows(rng, n=None, k=None, ragged=None):
    """a list/tuple of n tuples of size k: non-square (n != k), square, or ragged (sizes differ, possibly 0)"""
    n = n or rng.randint(2, 4)
    if ragged is None:
        ragged = rng.random() < 0.25
    if k is None:
        k = rng.choice([n, n, n + 1, n + 2, max(1, n - 1), 1])
    sizes = [rng.randint(0, 4) for _ in range(n)] if ragged else [k] * n
    item = lambda: rng.choice([1.0, 2.5, -3.0, 0.0, rng.uniform(-100, 100), rng.randint(-9, 9), 100, 150, 50])  # noqa
    return ROWS(rng.choice(["list", "list", "tuple"]), [[item() for _ in range(m)] for m in sizes])


def _fraction_value(rng):
    if rng.random() < 0.5:
        return _scalar_value(rng)
    return FV(float(rng.randint(-20, 20)), rng.randint(0, 15), rng.choice([2, 4, 8, 16, 3]))


def unit_forms(cls, u, c, v, default):
    """All construction forms for unit u, category c and value v; p marks the forms the property names
    (only meaningful when c is the unit's default category)."""
    p = 1 if default else 0
    if cls == "scalar":
        return [form(cls, v, u, p=p), form(cls, v, u, c, p=p), form(cls, c, v, u, p=p),
                form(cls, SEQ("tuple", [v, u]), p=p), form(cls, OQ(u, c), v, p=p),
                form(cls, OQ(u, c), v, k="cwq", p=p), form(cls, c, v, u, kw=True, p=p),
                form(cls, OQ(u, None), v, p=p), form(cls, OQ(u, c), v, k="cwq", kw=True, p=p)]
    if cls == "fraction":
        return [form(cls, v, u, p=p), form(cls, v, u, c, p=p), form(cls, c, v, u, p=p),
                form(cls, OQ(u, c), v, p=p), form(cls, OQ(u, c), v, k="cwq", p=p),
                form(cls, c, v, u, kw=True, p=p), form(cls, OQ(u, None), v, p=p)]
    if cls == "array":
        return [form(cls, v, u, p=p), form(cls, v, u, c, p=p), form(cls, c, v, u, p=p),
                form(cls, OQ(u, c), v, p=p), form(cls, OQ(u, c), v, k="cwq", p=p),
                form(cls, c, v, u, kw=True, p=p), form(cls, OQ(u, c), v, k="cwq", kw=True, p=p)]
    d = len(v["items"])
    return [form(cls, v, u, dim=d, p=p), form(cls, v, u, c, dim=d, p=p), form(cls, c, v, u, dim=d, p=p),
            form(cls, OQ(u, c), v, dim=d, p=p), form(cls, OQ(u, c), v, k="cwq", p=p),
            form(cls, OQ(u, c), v, k="cwq", dimkw=d, p=p), form(cls, c, v, u, dim=d, kw=True, p=p)]


def _value_for(cls, rng):
    if cls == "scalar":
        return _scalar_value(rng)
    if cls == "fraction":
        return _fraction_value(rng)
    return _rows(rng) if rng.random() < 0.3 else _container(rng)


def _case(kind, forms, want_repr=False, **t):
    t["kind"] = kind
    return dict(op="forms", forms=forms, repr=bool(want_repr), _t=t)


def unit_cases(ctx, units, rng, nvals, classes=CLS, only_default=False):
    db = ctx.db
    for qt, u in units:
        dc = db.GetDefaultCategory(u)
        cats = ctx.cats_of.get(qt, [])
        if only_default:
            cats = [c for c in cats if c == dc] or ([dc] if dc else [])
        for c in cats:
            for cls in classes:
                for _ in range(nvals):
                    v = _value_for(cls, rng)
                    yield _case("unit", unit_forms(cls, u, c, v, c == dc), want_repr=(cls == "scalar"),
                                unit=u, category=c, default=(c == dc))


def special_cases(ctx, rng, nunits):
    """every SPECIAL value (ints no double holds exactly, 2**53, bools, numpy integers) in every documented form of
    the four classes, on a seeded sample of units with their default category"""
    db = ctx.db
    for _qt, u in rng.sample(ctx.units, min(nunits, len(ctx.units))):
        dc = db.GetDefaultCategory(u)
        if not dc:
            continue
        for v in SPECIAL:
            w = rng.choice(SPECIAL)
            kind = rng.choice(["list", "tuple", "nda"])
            box = SEQ(kind, [float(v), float(w), 1.0] if kind == "nda" else [v, w, 1.0])
            yield _case("unit", unit_forms("scalar", u, dc, v, True), want_repr=True, unit=u, category=dc, default=True)
            yield _case("unit", unit_forms("fraction", u, dc, v, True), unit=u, category=dc, default=True)
            yield _case("unit", unit_forms("array", u, dc, box, True), unit=u, category=dc, default=True)
            yield _case("unit", unit_forms("fixed", u, dc, box, True), unit=u, category=dc, default=True)


def rows_cases(ctx, rng, nunits):
    """Array and FixedArray from lists/tuples of tuples of every shape (n tuples of size k: n < k, n > k, n == k,
    ragged), in every documented form incl. CreateWithQuantity with and without dimension=, on a seeded sample of
    units with their default category"""
    db = ctx.db
    shapes = [(2, 3, False), (3, 2, False), (2, 2, False), (3, 3, False), (4, 1, False), (2, 5, False),
              (3, None, True), (2, None, True)]
    for _qt, u in rng.sample(ctx.units, min(nunits, len(ctx.units))):
        dc = db.GetDefaultCategory(u)
        if not dc:
            continue
        for n, k, ragged in shapes:
            v = _rows(rng, n, k, ragged)
            for cls in ("array", "fixed"):
                yield _case("unit", unit_forms(cls, u, dc, v, True), unit=u, category=dc, default=True)


def category_cases(ctx, rng, nconv=2):
    db = ctx.db
    for c in ctx.cats:
        ci = db.GetCategoryInfo(c)
        dv, du = ci.default_value, ci.default_unit
        yield _case("catonly", [form("scalar", c, p=1), form("scalar", dv, du, c, p=1), form("scalar", c, dv, du),
                                form("scalar", OQ(du, c)), form("scalar", c, kw=True)], want_repr=True, category=c)
        yield _case("catonly", [form("fraction", c, p=1), form("fraction", dv, du, c, p=1), form("fraction", c, dv, du),
                                form("fraction", OQ(du, c))], category=c)
        yield _case("catonly", [form("array", c, p=1), form("array", SEQ("list", []), du, c, p=1),
                                form("array", OQ(du, c)), form("array", c, SEQ("list", []), du)], category=c)
        d = rng.randint(2, 5)
        yield _case("catonly", [form("fixed", c, dim=d, p=1), form("fixed", SEQ("list", [0.0] * d), du, c, dim=d, p=1),
                                form("fixed", c, SEQ("list", [0.0] * d), du, dim=d), form("fixed", OQ(du, c), dim=d)],
                    category=c)
        # the default converted into other units of the type (value None, unit given)
        units = [i.unit for i in db.quantity_types[ci.quantity_type]]
        for u in [du] + [rng.choice(units) for _ in range(nconv)]:
            for cls in ("scalar", "fraction", "array", "fixed"):
                yield _case("catunit", [form(cls, c, None, u, dim=3), form(cls, None, u, c, dim=3),
                                        form(cls, c, None, u, dim=3, kw=True)], category=c, unit=u)


def _legacy_spellings(ctx):
    out = []
    for _qt, u in ctx.units:
        for legacy, current in ctx.legacy:
            if current in u:
                out.append(u.replace(current, legacy, 1))
    return sorted(set(out))


def malformed_cases(ctx, rng, n):
    db = ctx.db
    units = [u for _qt, u in ctx.units]
    legacy = _legacy_spellings(ctx)
    ctx.notes["legacy_spellings"] = len(legacy)

    def unit_of_other_type(c):
        qt = db.GetCategoryInfo(c).quantity_type
        while True:
            u = rng.choice(units)
            if db.GetQuantityType(u) != qt:
                return u

    def atom(c, u):
        return rng.choice([None, None, u, c, u, c, "nope", "no such category", "", "5", "2.5", " 7 ", "m'", 3.5, 2,
                           rng.choice(units), rng.choice(ctx.cats), rng.choice(legacy) if legacy else "x",
                           "1000ft3xyz", unit_of_other_type(c), "Unknown", "<unknown>", "unknown",
                           rng.choice(SPECIAL)])

    # one malformed case has either ndarrays or lists of tuples among its containers, never both: `==` between an
    # ndarray-valued and a tuples-valued Array broadcasts a numpy scalar against a tuple, which is not modelled
    mode = {"rows": False}

    def arg(c, u):
        r = rng.random()
        if r < 0.55:
            return atom(c, u)
        if r < 0.65:
            return SEQ(rng.choice(["tuple", "list"]), [atom(c, u) for _ in range(rng.choice([0, 1, 1, 2, 2, 2, 3]))])
        if r < 0.72:
            return SEQ("tuple", [_scalar_value(rng), rng.choice([u, u, "nope", None, 3])])
        if r < 0.76 or (r < 0.80 and not mode["rows"]):
            return _container(rng, rng.choice([1, 2, 3]), nda=not mode["rows"])
        if r < 0.80:
            # lists of tuples, among them the "composing units" shapes [(unit, exponent)]
            if rng.random() < 0.5:
                return ROWS(rng.choice(["list", "tuple"]),
                            [[rng.choice([u, u, c, None, 3, "nope"]), rng.choice([1, 1, 1.0, True, 2, -1, None, u])]
                             + ([7] if rng.random() < 0.2 else [])
                             for _ in range(rng.choice([1, 1, 1, 2]))])
            if rng.random() < 0.3:
                return ROWS(rng.choice(["list", "tuple"]), [[rng.choice([u, 1.0])] for _ in range(rng.choice([1, 2]))])
            return _rows(rng, rng.choice([1, 2, 3]))
        if r < 0.83:
            return SEQ("list" if mode["rows"] else "nda", [])
        if r < 0.90:
            return _fraction_value(rng)
        return OQ(rng.choice([u, u, u, None, 3.0, "nope", rng.choice(units)]), rng.choice([c, c, None, "nope", 2.0]))

    for i in range(n):
        mode["rows"] = rng.random() < 0.5
        qt, u = rng.choice(ctx.units)
        cats = ctx.cats_of.get(qt) or ctx.cats
        c = rng.choice(cats)
        forms = []
        for _ in range(3):
            cls = rng.choice(CLS)
            if rng.random() < 0.15:
                q = OQ(u, c) if rng.random() < 0.8 else arg(c, u)
                if not (isinstance(q, dict) and "oq" in q):
                    q = OQ(u, c)
                forms.append(form(cls, q, arg(c, u), k="cwq", dimkw=rng.choice([None, None, 0, 1, 2, 3, -1]),
                                  kw=rng.random() < 0.3))
            else:
                a3 = atom(c, u)
                forms.append(form(cls, arg(c, u), arg(c, u), a3, dim=rng.choice([3, 2, 2, 3, 1, 0, -2, 4]),
                                  kw=rng.random() < 0.2))
        yield _case("malformed", forms, want_repr=True)
    # systematic: the documented invalid form, wrong orders, legacy spellings with and without category
    for qt, u in rng.sample(ctx.units, min(len(ctx.units), max(50, n // 20))):
        cats = ctx.cats_of.get(qt) or ["length"]
        c = rng.choice(cats)
        v = _scalar_value(rng)
        w = unit_of_other_type(c)
        for cls in CLS:
            vv = v if cls in ("scalar", "fraction") else (_rows(rng, 3) if rng.random() < 0.3 else _container(rng, 3))
            yield _case("malformed", [
                form(cls, c, vv, dim=3), form(cls, u, vv, dim=3), form(cls, vv, c, u, dim=3), form(cls, u, c, v, dim=3),
                form(cls, vv, w, c, dim=3), form(cls, c, vv, w, dim=3), form(cls, vv, u, "nope", dim=3),
                form(cls, "nope", vv, u, dim=3), form(cls, OQ(u, c), vv, u, dim=3), form(cls, vv, dim=3),
                form(cls, vv, None, c, dim=3), form(cls, c, vv, 7, dim=3), form(cls, vv, 7, dim=3),
                form(cls, OQ(w, c), vv, dim=3), form(cls, OQ(u, c), dim=3), form(cls, OQ(u, c), k="cwq"),
                form(cls, vv, u, c, dim=1), form(cls, vv, u, c, dim=2), form(cls, OQ(u, c), vv, k="cwq", dimkw=2),
            ], want_repr=True)
    for lu in legacy:
        v = _scalar_value(rng)
        fixed = lu
        for a, b in ctx.legacy:
            fixed = fixed.replace(a, b)
        c = db.GetDefaultCategory(fixed)
        yield _case("legacy", [form("scalar", v, fixed), form("scalar", v, lu), form("scalar", v, lu, c),
                               form("scalar", c, v, lu), form("scalar", OQ(lu, c), v), form("scalar", OQ(lu, None), v),
                               form("scalar", SEQ("tuple", [v, lu])), form("fraction", v, lu), form("scalar", c, None, lu),
                               form("array", SEQ("list", [v]), lu), form("scalar", v, lu + "xyz")], want_repr=True)


def lit_cases(ctx, rng, n):
    alphabet = ["a", "m", "/", "'", "'", "\\", "\n", "\"", " ", "3", "%", "{", "}", "é", "\r", "\\n", "\\'", "q"]
    for _ in range(n):
        s = "".join(rng.choice(alphabet) for _ in range(rng.randint(1, 6)))
        if s.encode("utf8").endswith(b"\0"):
            continue
        yield dict(op="lit", s=str(sym(s)), _t=dict(kind="lit", text=s))
    for _qt, u in ctx.units:
        yield dict(op="lit", s=str(sym(u)), _t=dict(kind="lit", text=u))
    for c in ctx.cats:
        yield dict(op="lit", s=str(sym(c)), _t=dict(kind="lit", text=c))


def cases(ctx):
    rng = ctx.fresh_rng("C19corr")
    units = list(ctx.units)
    if ctx.tier == "quick":
        units = sorted(rng.sample(units, len(units) // 3), key=lambda t: ctx.units.index(t))
    yield from unit_cases(ctx, units, rng, 2)
    yield from special_cases(ctx, ctx.fresh_rng("C19special"), 25 if ctx.tier == "quick" else 150)
    yield from rows_cases(ctx, ctx.fresh_rng("C19rows"), 25 if ctx.tier == "quick" else 150)
    yield from category_cases(ctx, rng, 1 if ctx.tier == "quick" else 3)
    yield from malformed_cases(ctx, ctx.fresh_rng("C19bad"), 1500 if ctx.tier == "quick" else 15000)
    yield from lit_cases(ctx, ctx.fresh_rng("C19lit"), 300 if ctx.tier == "quick" else 3000)
    for _qt, u in ctx.units:
        yield dict(op="defcat", unit=str(sym(u)), _t=dict(kind="defcat", unit=u))
    for u in _legacy_spellings(ctx) + ["nope", "", "1000ft3xyz"]:
        yield dict(op="defcat", unit=str(sym(u)), _t=dict(kind="defcat", unit=u))


def model_line(c):
    return {k: v for k, v in c.items() if k != "_t"}


def case_key(c):
    return model_line(c)


def _show_atom(j):
    if j is None:
        return None
    if isinstance(j, dict) and "b" in j:
        return bool(j["b"])
    if isinstance(j, dict) and "s" in j:
        return unsym(int(j["s"]))
    if isinstance(j, dict) and "n" in j:
        q = qparse(j["n"])
        if j.get("np"):
            return getattr(numpy, j["np"])(int(q))
        return int(q) if j.get("int") else q.numerator / q.denominator
    return j


def _show_arg(j):
    if isinstance(j, dict) and "rows" in j:
        rows = [tuple(_show_atom(i) for i in r) for r in j["items"]]
        return repr(rows if j["rows"] == "list" else tuple(rows))
    if isinstance(j, dict) and "seq" in j:
        return "%s%r" % (j["seq"], [_show_atom(i) for i in j["items"]])
    if isinstance(j, dict) and "fv" in j:
        return "FractionValue(%s, %s)" % (float(qparse(j["fv"][0])), tuple(j["nd"]))
    if isinstance(j, dict) and "oq" in j:
        return "ObtainQuantity(%s)" % ", ".join(repr(_show_atom(i)) for i in j["oq"])
    if isinstance(j, dict) and "dq" in j:
        items = ", ".join("(%r, [%r, %d])" % (unsym(int(c)), unsym(int(u)), int(e)) for c, u, e in j["dq"])
        cap = "" if j.get("cap") is None else ", None, %r" % (_show_atom(j["cap"]),)
        return "ObtainQuantity(OrderedDict([%s])%s)" % (items, cap)
    if isinstance(j, dict) and "unk" in j:
        return "GetUnknownQuantity(%s)" % ("" if j["unk"] is None else repr(_show_atom(j["unk"])))
    return repr(_show_atom(j))


def show_form(f):
    name = dict(scalar="Scalar", array="Array", fixed="FixedArray", fraction="FractionScalar")[f["cls"]]
    args = [_show_arg(f.get("a1")), _show_arg(f.get("a2")), _show_arg(f.get("a3"))]
    if f["k"] == "empty":
        meth = "CreateEmptyScalar" if f["cls"] in ("scalar", "fraction") else "CreateEmptyArray"
        kwn = "value=" if f["cls"] in ("scalar", "fraction") else "values="
        pre = "%s, " % f.get("dim", 0) if f["cls"] == "fixed" else ""
        return "%s.%s(%s%s%s)" % (name, meth, pre, kwn if f.get("kw") else "", args[0])
    if f["k"] == "cwq":
        extra = ", dimension=%s" % f["dimkw"] if f.get("dimkw") is not None else ""
        return "%s.CreateWithQuantity(%s, %s%s%s)" % (name, args[0], "value=" if f.get("kw") else "", args[1], extra)
    if f.get("kw"):
        vn = "value" if f["cls"] in ("scalar", "fraction") else "values"
        pre = "dimension=%s, " % f.get("dim", 0) if f["cls"] == "fixed" else ""
        return "%s(%scategory=%s, %s=%s, unit=%s)" % (name, pre, args[0], vn, args[1], args[2])
    while len(args) > 1 and args[-1] == "None":
        args.pop()
    if f["cls"] == "fixed":
        args = [str(f.get("dim", 0))] + args
    return "%s(%s)" % (name, ", ".join(args))


def show(c):
    if c["op"] == "forms":
        return dict(kind=c["_t"].get("kind"), forms=[show_form(f) for f in c["forms"]])
    return dict(c["_t"])


# ------------------------------------------------------------------------------------------ real code
def _py_repr_back(o):
    from barril.units import Scalar

    if type(o) is not Scalar or o.GetQuantity().IsDerived():
        return None
    import warnings

    try:
        with warnings.catch_warnings():
            warnings.simplefilter("ignore")
            back = eval(repr(o), {"Scalar": Scalar})
    except Exception as e:  # noqa
        return dict(back=dict(err=err_kind(e)), eq=None)
    try:
        cb = canon_obj(back)
    except Exception:  # noqa
        return dict(back=dict(err="other"), eq=None)
    return dict(back=dict(ok=cb), eq=py_eq(back, o))


def impl(c, ctx):
    t = c["_t"]
    g = ctx.notes["groups"]
    g[t["kind"]] = g.get(t["kind"], 0) + 1
    if c["op"] == "lit":
        import warnings

        s = t["text"]
        try:
            with warnings.catch_warnings():
                warnings.simplefilter("ignore")
                back = eval("'{}'".format(s), {})
            return dict(ok=bool(isinstance(back, str) and back == s))
        except Exception:  # noqa
            return dict(ok=False)
    if c["op"] == "defcat":
        try:
            r = ctx.db.GetDefaultCategory(t["unit"])
        except Exception as e:  # noqa
            return dict(err=err_kind(e))
        return dict(ok=None if r is None else str(sym(r)))
    objs, res = [], []
    fr = ctx.notes["form_results"]
    for f in c["forms"]:
        o, e = try_build(f)
        objs.append(o)
        if e is not None:
            res.append(dict(err=e))
            key = e
        else:
            try:
                res.append(dict(ok=canon_obj(o)))
                key = "ok"
            except Exception as ex:  # noqa
                res.append(dict(err="other", detail="canon: %r" % (ex,)))
                objs[-1] = None
                key = "other"
        k2 = "%s:%s" % (f["cls"] if f["k"] == "ctor" else f["cls"] + ".cwq", key)
        fr[k2] = fr.get(k2, 0) + 1
    ref = next((o for o in objs if o is not None), None)
    eqs = [None if o is None else [py_eq(o, ref), py_eq(ref, o)] for o in objs]
    reprs = []
    if c.get("repr"):
        reprs = [None if o is None else _py_repr_back(o) for o in objs]
    return dict(res=res, eq=eqs, repr=reprs)


def _val_agree(iv, mv, m):
    """impl value vs model value; m = magnitude when the value came out of a float conversion"""
    if m is None:
        return iv == mv
    if "n" in iv and "n" in mv:
        return close(float(qparse(iv["n"])), qparse(mv["n"]), m) and _is_float_of(iv)
    if "fv" in iv and "fv" in mv:
        return close(float(qparse(iv["fv"][0])), qparse(mv["fv"][0]), m) and iv["fv"][1] == mv["fv"][1]
    return iv == mv


def _is_float_of(_iv):
    return True


def _obj_agree(io, mo, m):
    for k in ("cls", "cat", "unit", "qtype", "dim", "cap", "comp"):
        if io.get(k) != mo.get(k):
            return "%s differs: impl=%r model=%r" % (k, io.get(k), mo.get(k))
    if not _val_agree(io["val"], mo["val"], m):
        return "value differs: impl=%r model=%r" % (io["val"], mo["val"])
    return None


def agree(c, io, mo, ctx):
    if c["op"] in ("lit", "defcat"):
        if c["op"] == "lit" and mo.get("ok") is False and io.get("ok") is True:
            s = c["_t"]["text"]
            # a backslash that starts no escape sequence is kept by Python's parser: the model claims nothing there
            if "\\" in s and "'" not in s and "\n" not in s and "\r" not in s:
                return None
        return None if io == mo else "impl=%r model=%r" % (io, mo)
    if len(io["res"]) != len(mo["res"]):
        return "different number of results"
    conv = []
    for i, (a, b) in enumerate(zip(io["res"], mo["res"])):
        if ("err" in a) != ("err" in b):
            return "form %d (%s): one side fails: impl=%r model=%r" % (i, show_form(c["forms"][i]), a, b)
        if "err" in a:
            if a["err"] != b["err"]:
                return "form %d (%s): error kinds differ: impl=%s model=%s" % (i, show_form(c["forms"][i]), a["err"], b["err"])
            conv.append(False)
            continue
        m = qparse(b["M"]) if "M" in b else None
        conv.append(m is not None)
        why = _obj_agree(a["ok"], b["ok"], m)
        if why:
            return "form %d (%s): %s" % (i, show_form(c["forms"][i]), why)
    ref_conv = next((cv for cv, a in zip(conv, io["res"]) if "ok" in a), False)
    for i, (a, b) in enumerate(zip(io["eq"], mo["eq"])):
        if conv[i] or ref_conv:
            continue  # a value that went through float arithmetic: equality of near-ties is "don't care"
        if a != b:
            return "form %d (%s): == against the first built object: impl=%r model=%r" % (i, show_form(c["forms"][i]), a, b)
    if c.get("repr"):
        for i, (a, b) in enumerate(zip(io["repr"], mo["repr"])):
            if (a is None) != (b is None):
                return "form %d: repr applicability differs" % i
            if a is None:
                continue
            ab, bb = a["back"], b["back"]
            if ("err" in ab) != ("err" in bb):
                if "err" in bb and "\\" in repr((unsym(int(b["unit"])), unsym(int(b["cat"])))):
                    continue
                return "form %d (%s): eval(repr): impl=%r model=%r" % (i, show_form(c["forms"][i]), ab, bb)
            if "err" in ab:
                continue  # which exception a broken literal raises is not modelled
            # the printed value is the float of the object: where that float came out of float arithmetic
            # (res[i] carries M) it is compared with the exact model value within the bound, else exactly
            rm = mo["res"][i]
            why = _obj_agree(ab["ok"], bb["ok"], qparse(rm["M"]) if "M" in rm else None)
            if why:
                return "form %d: eval(repr) object: %s" % (i, why)
            if a["eq"] != b["eq"]:
                return "form %d: eval(repr(s)) == s: impl=%r model=%r" % (i, a["eq"], b["eq"])
    return None


def nontrivial(c, io):
    if c["op"] != "forms":
        return c["op"] == "defcat" and io.get("ok") is not None
    return sum(1 for r in io["res"] if "ok" in r) >= 2


# ------------------------------------------------------------------------------------------ the property, real code only
def oracle(c, ctx):
    if c.get("op") != "forms":
        return None
    t = c["_t"]
    kind = t.get("kind")
    if kind == "unit":
        # the property speaks about the unit's default category
        if ctx.db.GetDefaultCategory(t["unit"]) != t["category"]:
            return None
    elif kind != "catonly":
        return None
    named = [f for f in c["forms"] if f.get("p")]
    objs = []
    for f in named:
        try:
            objs.append(build(f))
        except Exception as e:  # noqa
            return dict(clause="a documented construction form raises", form=show_form(f), error=repr(e)[:300])
    ref = objs[0]
    for f, o in zip(named[1:], objs[1:]):
        try:
            ok = bool(o == ref) and bool(ref == o) and not (o != ref)
        except Exception as e:  # noqa
            return dict(clause="== between two construction forms raises", a=show_form(named[0]), b=show_form(f), error=repr(e)[:300])
        if not ok:
            return dict(clause="equivalent construction forms build different objects" if kind == "unit" else
                        "category-only object differs from (default value, default unit, category)",
                        a=show_form(named[0]), b=show_form(f), got_a=repr(ref), got_b=repr(o))
    if c.get("repr"):
        from barril.units import Scalar

        for f, o in zip(named, objs):
            if type(o) is Scalar:
                try:
                    back = eval(repr(o), {"Scalar": Scalar})
                    ok = bool(back == o)
                except Exception as e:  # noqa
                    return dict(clause="eval(repr(scalar)) raises", form=show_form(f), repr=repr(o), error=repr(e)[:300])
                if not ok:
                    return dict(clause="eval(repr(scalar)) != scalar", form=show_form(f), repr=repr(o), back=repr(back))
    return None


def shrink(case, failure, ctx):
    """keep only the documented forms the failure is about (first the pair it names, then single forms)"""
    if case.get("op") != "forms":
        return case, failure
    named = [f for f in case["forms"] if f.get("p")]
    texts = {v for v in failure.values() if isinstance(v, str)}
    hit = [f for f in named if show_form(f) in texts]
    tries = []
    if hit:
        tries.append(([named[0]] if named[0] not in hit else []) + hit)
        tries.append(hit)
    tries.append(named)
    for forms in tries:
        c2 = dict(case, forms=forms)
        try:
            f2 = oracle(c2, ctx)
        except Exception:  # noqa
            f2 = None
        if f2:
            return c2, f2
    return case, failure


def table_candidates(ctx):
    """units/categories on which a C19 row predicate is false (evaluated by the model's executable predicates)"""
    import engine
    from common import dumps

    res, _ = engine.run_driver(DRIVER_EXE, [dumps(dict(op="badrows"))])
    rng = ctx.fresh_rng("C19cand")
    out = []
    bad_units = {unsym(int(s)) for s in res[0].get("units", [])}
    bad_cats = {unsym(int(s)) for s in res[0].get("cats", [])}
    ctx.notes["rows_failing_row_predicate"] = dict(units=sorted(bad_units), categories=sorted(bad_cats))
    units = [t for t in ctx.units if t[1] in bad_units]
    out += list(unit_cases(ctx, units, rng, 1, only_default=True))
    for c in category_cases(ctx, rng, 0):
        if c["_t"].get("category") in bad_cats and c["_t"]["kind"] == "catonly":
            out.append(c)
    return out


def search(ctx):
    rng = ctx.fresh_rng("C19search")
    yield from special_cases(ctx, rng, 12)
    yield from rows_cases(ctx, rng, 12)
    yield from category_cases(ctx, rng, 0)
    yield from unit_cases(ctx, ctx.units, rng, 1, only_default=True)
    yield from unit_cases(ctx, ctx.units, rng, 2, only_default=True)
